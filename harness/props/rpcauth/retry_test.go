package rpcauth

// C36 — client watch streams retry transparently.
//
// A bufconn gRPC server plays, per logical client stream ("watch", identified by the metadata
// key verif-sid), a SCRIPT: the i-th stream the server accepts for that watch sends Script[i].Msgs
// messages and then breaks with a status error / ends normally (EOF) / stays open. The client is
// built like client/client.go builds it (unary retry Max 0, stream retry interceptor) with
// RetryOptions{Max: 0..3}. A reference model computes from the script what must be delivered,
// how many streams the server must have accepted, and whether an error must surface.

import (
	"context"
	"errors"
	"fmt"
	"io"
	"net"
	"sort"
	"strings"
	"sync"
	"sync/atomic"
	"testing"
	"time"

	"google.golang.org/grpc"
	"google.golang.org/grpc/codes"
	"google.golang.org/grpc/credentials/insecure"
	"google.golang.org/grpc/metadata"
	"google.golang.org/grpc/status"
	"google.golang.org/grpc/test/bufconn"
	"pgregory.net/rapid"

	"github.com/projecteru2/core/client/interceptor"
	pb "github.com/projecteru2/core/rpc/gen"

	"verif/internal/stats"
	"verif/internal/vt"
)

const (
	mWSS   = "WorkloadStatusStream"
	mWatch = "WatchServiceStatus"
	mList  = "ListWorkloads" // server-streaming, NOT a watch method: must never be reopened

	endError = "error"
	endEOF   = "eof"
	endOpen  = "open"

	cancelNone       = "none"
	cancelBeforeRecv = "before-recv" // after AfterMsgs messages the caller cancels, then calls Recv
	cancelInRecv     = "in-recv"     // caller blocked in Recv on a quiet open stream, cancelled from outside
	cancelInBackoff  = "in-backoff"  // cancelled when the server accepts failed reopen attempt #AtStream
)

// RStream scripts one server-side stream of a watch.
type RStream struct {
	Msgs int    `json:"msgs"`
	End  string `json:"end"`
}

// RCancel is the caller's cancellation plan.
type RCancel struct {
	Kind      string `json:"kind"`
	AfterMsgs int    `json:"after_msgs,omitempty"`
	AtStream  int    `json:"at_stream,omitempty"`
	DelayMs   int    `json:"delay_ms,omitempty"`
}

// RWatch is one logical client stream.
type RWatch struct {
	Method string            `json:"method"`
	App    string            `json:"app,omitempty"`
	Entry  string            `json:"entry,omitempty"`
	Node   string            `json:"node,omitempty"`
	Labels map[string]string `json:"labels,omitempty"`
	Code   uint32            `json:"code"` // status code of scripted breaks
	Script []RStream         `json:"script"`
	Cancel RCancel           `json:"cancel"`
}

// RetryCase is one client (retry budget Max) with 1..4 concurrent logical streams and an optional failing unary call.
type RetryCase struct {
	Max       int      `json:"max"`
	Watches   []RWatch `json:"watches"`
	Unary     bool     `json:"unary"`
	UnaryCode uint32   `json:"unary_code,omitempty"`
}

// ---------------------------------------------------------------------------------------
// reference model

type msgRef struct{ stream, i int }

type rExpect struct {
	msgs     []msgRef // everything the script can deliver, in order
	final    string   // "exhausted" (error must surface) | "open" (last stream stays open) | "ended" (non-watch: its single stream ended)
	accepted int      // streams the server must have accepted when the script ran to its end
	backoffs int      // number of back-off sleeps the client goes through (cost estimate only)
	// failed reopen attempts after which the client backs off (another attempt follows): eligible for cancelInBackoff
	backoffAfter map[int]bool
	err          string // script malformed (harness error)
}

func isWatchMethod(m string) bool { return m == mWSS || m == mWatch }

// reopen attempts per break: the reopen itself plus Max retries of it (the budget is per break:
// a successful reopen — a new stream that delivers a message — starts a fresh one).
func attemptsPerBreak(max int) int { return 1 + max }

func modelWatch(w RWatch, max int) rExpect {
	e := rExpect{backoffAfter: map[int]bool{}}
	if len(w.Script) == 0 {
		e.err = "empty script"
		return e
	}
	deliver := func(idx int) {
		for i := 0; i < w.Script[idx].Msgs; i++ {
			e.msgs = append(e.msgs, msgRef{idx, i})
		}
	}
	if !isWatchMethod(w.Method) {
		deliver(0)
		e.accepted = 1
		e.final = "ended"
		if w.Script[0].End == endOpen {
			e.final = "open"
		}
		return e
	}
	idx := 0
	deliver(0)
	if w.Script[0].End == endOpen {
		e.final, e.accepted = "open", 1
		if len(w.Script) != 1 {
			e.err = "script continues after an open stream"
		}
		return e
	}
	for {
		// stream idx broke (error or EOF): the client reopens
		attempts := 0
		for {
			if attempts == attemptsPerBreak(max) {
				e.final, e.accepted = "exhausted", idx+1
				if idx+1 != len(w.Script) {
					e.err = "script continues after the retry budget is exhausted"
				}
				return e
			}
			if attempts > 0 {
				e.backoffs++
				e.backoffAfter[idx] = true
			}
			idx++
			attempts++
			if idx >= len(w.Script) {
				e.err = "script ends while the client still has reopen attempts"
				return e
			}
			s := w.Script[idx]
			if s.End == endOpen {
				deliver(idx)
				e.final, e.accepted = "open", idx+1
				if idx+1 != len(w.Script) {
					e.err = "script continues after an open stream"
				}
				return e
			}
			if s.Msgs >= 1 {
				deliver(idx)
				break // successful reopen; this stream will break in turn
			}
			// 0 messages then error/EOF: failed attempt
		}
	}
}

// ---------------------------------------------------------------------------------------
// generator

var breakCodes = []codes.Code{codes.Unavailable, codes.Internal, codes.Unknown, codes.Aborted, codes.ResourceExhausted,
	codes.DeadlineExceeded, codes.Canceled, codes.Code(1001), codes.Code(1017)} // 1001/1017: core's own WatchServiceStatus / WorkloadStatusStream codes

const maxBackoffsPerWatch = 3

func genBreakEnd(t *rapid.T) string {
	if vt.Chance(t, "eof", 35) {
		return endEOF
	}
	return endError
}

func genWatch(t *rapid.T, max int, forceMethod string) RWatch {
	var w RWatch
	w.Method = forceMethod
	if w.Method == "" {
		w.Method = rapid.SampledFrom([]string{mWSS, mWSS, mWatch, mWatch, mList}).Draw(t, "method")
	}
	w.Code = uint32(rapid.SampledFrom(breakCodes).Draw(t, "code"))
	if w.Method != mWatch {
		w.App = rapid.SampledFrom([]string{"", "app", "App-2", "a/b"}).Draw(t, "app")
		w.Entry = rapid.SampledFrom([]string{"", "web", "worker"}).Draw(t, "entry")
		w.Node = rapid.SampledFrom([]string{"", "node1"}).Draw(t, "node")
		if rapid.Bool().Draw(t, "labels") {
			w.Labels = map[string]string{}
			for i, n := 0, rapid.IntRange(1, 3).Draw(t, "nlabels"); i < n; i++ {
				w.Labels[fmt.Sprintf("k%d", i)] = rapid.SampledFrom([]string{"", "v", "x=y"}).Draw(t, "labelv")
			}
		}
	}
	if !isWatchMethod(w.Method) {
		end := genBreakEnd(t)
		w.Script = []RStream{{Msgs: rapid.IntRange(0, 3).Draw(t, "msgs"), End: end}}
		w.Cancel = RCancel{Kind: cancelNone}
		return w
	}
	budget := maxBackoffsPerWatch
	segments := 1 + vt.Pct(t, "segments")%4
	done := false
	for seg := 0; seg < segments && !done; seg++ {
		lo := 1
		if seg == 0 {
			lo = 0
		}
		s := RStream{Msgs: rapid.IntRange(lo, 3).Draw(t, "msgs")}
		if seg == segments-1 && vt.Chance(t, "endOpen", 60) {
			s.End = endOpen
			w.Script = append(w.Script, s)
			done = true
			break
		}
		s.End = genBreakEnd(t)
		w.Script = append(w.Script, s)
		// failed reopen attempts after this break
		maxF := attemptsPerBreak(max) // == exhaustion
		f := 0
		switch k := vt.Pct(t, "failures"); {
		case k < 40:
			f = 0
		case k < 75:
			f = rapid.IntRange(0, maxF).Draw(t, "f")
		case k < 88:
			f = maxF - 1
		default:
			f = maxF
		}
		cost := f // f failures followed by a success: f back-offs
		if f == maxF {
			cost = maxF - 1
		}
		for cost > budget && f > 0 {
			f--
			cost = f
		}
		budget -= cost
		for i := 0; i < f; i++ {
			w.Script = append(w.Script, RStream{Msgs: 0, End: genBreakEnd(t)})
		}
		if f == maxF {
			done = true // error surfaces
		}
	}
	if !done {
		w.Script = append(w.Script, RStream{Msgs: rapid.IntRange(0, 3).Draw(t, "lastMsgs"), End: endOpen})
	}
	// cancellation plan
	e := modelWatch(w, max)
	var eligible []int
	for idx := range w.Script {
		if e.backoffAfter[idx] {
			eligible = append(eligible, idx)
		}
	}
	sort.Ints(eligible)
	k := vt.Pct(t, "cancelKind")
	switch {
	case len(eligible) > 0 && k < 25:
		w.Cancel = RCancel{Kind: cancelInBackoff, AtStream: rapid.SampledFrom(eligible).Draw(t, "atStream")}
	case k < 50:
		w.Cancel = RCancel{Kind: cancelBeforeRecv, AfterMsgs: vt.Pct(t, "afterMsgs") % (len(e.msgs) + 1)}
	case e.final == "open":
		w.Cancel = RCancel{Kind: cancelInRecv, DelayMs: rapid.IntRange(0, 30).Draw(t, "delayMs")}
	default:
		w.Cancel = RCancel{Kind: cancelNone}
	}
	return w
}

func genRetryCase(t *rapid.T) RetryCase {
	var c RetryCase
	c.Max = rapid.IntRange(0, 3).Draw(t, "max")
	if vt.Chance(t, "maxUniform", 60) {
		c.Max = vt.Pct(t, "maxU") % 4
	}
	n := 2 + vt.Pct(t, "watches")%3 // 2..4 concurrent logical streams
	for i := 0; i < n; i++ {
		force := ""
		if i == 0 {
			force = rapid.SampledFrom([]string{mWSS, mWatch}).Draw(t, "method0")
		}
		c.Watches = append(c.Watches, genWatch(t, c.Max, force))
	}
	c.Unary = rapid.Bool().Draw(t, "unary")
	if c.Unary {
		c.UnaryCode = uint32(rapid.SampledFrom(breakCodes).Draw(t, "unaryCode"))
	}
	return c
}

// ---------------------------------------------------------------------------------------
// scripted server

type sidState struct {
	w        RWatch
	accepted int
	methods  []string
	times    []time.Time
	requests map[int]string
	onAccept func(idx int)
}

type rServer struct {
	pb.UnimplementedCoreRPCServer
	mu         sync.Mutex
	st         map[string]*sidState
	unaryCalls int
	unaryCode  codes.Code
}

type idxKey struct{}

type idxStream struct {
	grpc.ServerStream
	ctx context.Context
}

func (s *idxStream) Context() context.Context { return s.ctx }

func sidOf(ctx context.Context) string {
	md, _ := metadata.FromIncomingContext(ctx)
	if v := md.Get("verif-sid"); len(v) > 0 {
		return v[0]
	}
	return ""
}

// intercept records the acceptance of a stream before the generated handler reads the request.
func (s *rServer) intercept(srv any, ss grpc.ServerStream, info *grpc.StreamServerInfo, h grpc.StreamHandler) error {
	sid := sidOf(ss.Context())
	s.mu.Lock()
	st := s.st[sid]
	if st == nil {
		s.mu.Unlock()
		return status.Error(codes.FailedPrecondition, "harness: unknown verif-sid")
	}
	idx := st.accepted
	st.accepted++
	st.methods = append(st.methods, info.FullMethod)
	st.times = append(st.times, time.Now())
	on := st.onAccept
	s.mu.Unlock()
	if on != nil {
		on(idx)
	}
	return h(srv, &idxStream{ss, context.WithValue(ss.Context(), idxKey{}, idx)})
}

func (s *rServer) play(ctx context.Context, req string, send func(id string) error) error {
	sid := sidOf(ctx)
	idx, _ := ctx.Value(idxKey{}).(int)
	s.mu.Lock()
	st := s.st[sid]
	st.requests[idx] = req
	s.mu.Unlock()
	if idx >= len(st.w.Script) {
		return status.Error(codes.Unavailable, "harness: stream beyond the script")
	}
	sc := st.w.Script[idx]
	for i := 0; i < sc.Msgs; i++ {
		if err := send(fmt.Sprintf("%s/%d/%d", sid, idx, i)); err != nil {
			return err
		}
	}
	switch sc.End {
	case endError:
		return status.Error(codes.Code(st.w.Code), "scripted break")
	case endEOF:
		return nil
	default:
		<-ctx.Done()
		return status.FromContextError(ctx.Err()).Err()
	}
}

func canonReq(app, entry, node string, labels map[string]string, limit int64) string {
	keys := make([]string, 0, len(labels))
	for k := range labels {
		keys = append(keys, k)
	}
	sort.Strings(keys)
	var b strings.Builder
	fmt.Fprintf(&b, "app=%q entry=%q node=%q limit=%d", app, entry, node, limit)
	for _, k := range keys {
		fmt.Fprintf(&b, " %q=%q", k, labels[k])
	}
	return b.String()
}

func (s *rServer) WorkloadStatusStream(o *pb.WorkloadStatusStreamOptions, st pb.CoreRPC_WorkloadStatusStreamServer) error {
	return s.play(st.Context(), canonReq(o.Appname, o.Entrypoint, o.Nodename, o.Labels, 0), func(id string) error {
		return st.Send(&pb.WorkloadStatusStreamMessage{Id: id})
	})
}

func (s *rServer) WatchServiceStatus(_ *pb.Empty, st pb.CoreRPC_WatchServiceStatusServer) error {
	return s.play(st.Context(), "empty", func(id string) error {
		return st.Send(&pb.ServiceStatus{Addresses: []string{id}, IntervalInSecond: 2})
	})
}

func (s *rServer) ListWorkloads(o *pb.ListWorkloadsOptions, st pb.CoreRPC_ListWorkloadsServer) error {
	return s.play(st.Context(), canonReq(o.Appname, o.Entrypoint, o.Nodename, o.Labels, o.Limit), func(id string) error {
		return st.Send(&pb.Workload{Id: id})
	})
}

func (s *rServer) Info(context.Context, *pb.Empty) (*pb.CoreInfo, error) {
	s.mu.Lock()
	s.unaryCalls++
	s.mu.Unlock()
	return nil, status.Error(s.unaryCode, "scripted unary failure")
}

func (s *rServer) ListPods(context.Context, *pb.Empty) (*pb.Pods, error) { return &pb.Pods{}, nil } // barrier call

// ---------------------------------------------------------------------------------------
// running one case

type watchResult struct {
	got          []string
	gotAtCancel  int
	accAtCancel  int
	finalErr     error
	openErr      error
	hang         bool
	cancelIssued bool
	cancelAt     time.Time
}

func (w RWatch) wantReq() string {
	switch w.Method {
	case mWatch:
		return "empty"
	case mList:
		return canonReq(w.App, w.Entry, w.Node, w.Labels, 7)
	}
	return canonReq(w.App, w.Entry, w.Node, w.Labels, 0)
}

func openWatch(ctx context.Context, cli pb.CoreRPCClient, w RWatch) (func() (string, error), error) {
	switch w.Method {
	case mWSS:
		st, err := cli.WorkloadStatusStream(ctx, &pb.WorkloadStatusStreamOptions{Appname: w.App, Entrypoint: w.Entry, Nodename: w.Node, Labels: w.Labels})
		if err != nil {
			return nil, err
		}
		return func() (string, error) { m, err := st.Recv(); return m.GetId(), err }, nil
	case mWatch:
		st, err := cli.WatchServiceStatus(ctx, &pb.Empty{})
		if err != nil {
			return nil, err
		}
		return func() (string, error) {
			m, err := st.Recv()
			if err != nil {
				return "", err
			}
			return strings.Join(m.GetAddresses(), ","), nil
		}, nil
	default:
		st, err := cli.ListWorkloads(ctx, &pb.ListWorkloadsOptions{Appname: w.App, Entrypoint: w.Entry, Nodename: w.Node, Labels: w.Labels, Limit: 7})
		if err != nil {
			return nil, err
		}
		return func() (string, error) { m, err := st.Recv(); return m.GetId(), err }, nil
	}
}

// watchdog: 20x the worst-case back-off time of the script plus a constant; only reached on a defect.
func watchdogFor(e rExpect) time.Duration {
	worst := time.Duration(0)
	iv := 750 * time.Millisecond // 500 ms * 1.5 randomisation
	for i := 0; i < e.backoffs; i++ {
		worst += iv
		iv = iv * 3 / 2
	}
	return 20*worst + 10*time.Second
}

func runWatch(srv *rServer, cli pb.CoreRPCClient, sid string, w RWatch, e rExpect, forced *atomic.Bool) watchResult {
	r := &watchResult{}
	start := time.Now()
	var bg sync.WaitGroup
	res := func() watchResult {
		bg.Wait()
		return *r
	}
	base, stop := context.WithTimeout(context.Background(), watchdogFor(e))
	defer stop()
	ctx, cancel := context.WithCancel(metadata.AppendToOutgoingContext(base, "verif-sid", sid))
	defer cancel()
	var cmu sync.Mutex
	doCancel := func() {
		cmu.Lock()
		if !r.cancelIssued {
			r.cancelIssued = true
			cancel()
			r.cancelAt = time.Now()
		}
		cmu.Unlock()
	}
	if w.Cancel.Kind == cancelInBackoff {
		srv.mu.Lock()
		srv.st[sid].onAccept = func(idx int) {
			if idx == w.Cancel.AtStream {
				doCancel()
			}
		}
		srv.mu.Unlock()
	}
	recv, err := openWatch(ctx, cli, w)
	if err != nil {
		r.openErr = err
		return res()
	}
	accepted := func() int {
		srv.mu.Lock()
		defer srv.mu.Unlock()
		return srv.st[sid].accepted
	}
	classify := func(err error) {
		r.finalErr = err
		// the watchdog fired: the deadline of the base context (it may come back as a DeadlineExceeded status
		// from the server a moment before base.Err() turns non-nil), or the harness-level watchdog that tears
		// the connection down when a Recv ignores its context.
		if base.Err() != nil || forced.Load() || (status.Code(err) == codes.DeadlineExceeded && time.Since(start) >= watchdogFor(e)-time.Second) {
			r.hang = true
		}
	}
	total := len(e.msgs)
	limit := total + 3 // never read much beyond what the script can deliver
	for {
		switch {
		case w.Cancel.Kind == cancelBeforeRecv && len(r.got) == w.Cancel.AfterMsgs && !r.cancelIssued:
			r.gotAtCancel, r.accAtCancel = len(r.got), accepted()
			doCancel()
		case w.Cancel.Kind == cancelInRecv && len(r.got) == total && !r.cancelIssued:
			r.gotAtCancel, r.accAtCancel = len(r.got), accepted()
			d := time.Duration(w.Cancel.DelayMs) * time.Millisecond
			bg.Add(1)
			go func() { defer bg.Done(); time.Sleep(d); doCancel() }()
		case w.Cancel.Kind == cancelNone && e.final == "open" && len(r.got) == total && !r.cancelIssued:
			// the scripted stream stays open and silent: nothing more to observe
			r.gotAtCancel, r.accAtCancel = len(r.got), accepted()
			doCancel()
		}
		id, err := recv()
		if err != nil {
			classify(err)
			return res()
		}
		r.got = append(r.got, id)
		if len(r.got) >= limit {
			r.finalErr = nil
			return res()
		}
	}
}

type retryFinding struct {
	f      *vt.Finding
	timing bool
}

func attemptRetryCase(x *vt.Ctx, c RetryCase, label bool) retryFinding {
	srv := &rServer{st: map[string]*sidState{}, unaryCode: codes.Code(c.UnaryCode)}
	exps := make([]rExpect, len(c.Watches))
	for i, w := range c.Watches {
		exps[i] = modelWatch(w, c.Max)
		if exps[i].err != "" {
			panic(fmt.Sprintf("harness: watch %d: malformed script: %s", i, exps[i].err))
		}
		srv.st[fmt.Sprintf("w%d", i)] = &sidState{w: w, requests: map[int]string{}}
	}
	lis := bufconn.Listen(1 << 20)
	gs := grpc.NewServer(grpc.StreamInterceptor(srv.intercept))
	pb.RegisterCoreRPCServer(gs, srv)
	go func() { _ = gs.Serve(lis) }()
	defer gs.Stop()
	// the client of client/client.go: unary retry Max 0, stream retry with the case's budget
	// ... followed in the chain by a counter that sees every stream-open attempt the retry interceptor makes,
	// including those that fail inside the client because the caller's context is already cancelled.
	var amu sync.Mutex
	attemptsCancelled := map[string]int{}
	counter := func(ctx context.Context, desc *grpc.StreamDesc, cc *grpc.ClientConn, method string, streamer grpc.Streamer, opts ...grpc.CallOption) (grpc.ClientStream, error) {
		if ctx.Err() != nil {
			if md, ok := metadata.FromOutgoingContext(ctx); ok && len(md.Get("verif-sid")) > 0 {
				amu.Lock()
				attemptsCancelled[md.Get("verif-sid")[0]]++
				amu.Unlock()
			}
		}
		return streamer(ctx, desc, cc, method, opts...)
	}
	cc, err := grpc.Dial("passthrough:///bufnet",
		grpc.WithTransportCredentials(insecure.NewCredentials()),
		grpc.WithContextDialer(func(ctx context.Context, _ string) (net.Conn, error) { return lis.DialContext(ctx) }),
		grpc.WithUnaryInterceptor(interceptor.NewUnaryRetry(interceptor.RetryOptions{Max: 0})),
		grpc.WithChainStreamInterceptor(interceptor.NewStreamRetry(interceptor.RetryOptions{Max: c.Max}), counter))
	if err != nil {
		panic("harness: dial: " + err.Error())
	}
	defer cc.Close()
	cli := pb.NewCoreRPCClient(cc)

	results := make([]watchResult, len(c.Watches))
	var forced atomic.Bool
	var wg sync.WaitGroup
	for i := range c.Watches {
		wg.Add(1)
		go func(i int) {
			defer wg.Done()
			results[i] = runWatch(srv, cli, fmt.Sprintf("w%d", i), c.Watches[i], exps[i], &forced)
		}(i)
	}
	var unaryErr error
	if c.Unary {
		ctx, cancel := context.WithTimeout(context.Background(), 30*time.Second)
		_, unaryErr = cli.Info(ctx, &pb.Empty{})
		cancel()
	}
	{
		// harness-level watchdog, independent of the contexts handed to the code under test
		longest := time.Duration(0)
		for _, e := range exps {
			longest = max(longest, watchdogFor(e))
		}
		done := make(chan struct{})
		go func() { wg.Wait(); close(done) }()
		select {
		case <-done:
		case <-time.After(longest + 5*time.Second):
			forced.Store(true)
			gs.Stop()
			_ = cc.Close()
			<-done
		}
	}
	// barrier: a unary round trip on the same HTTP/2 connection orders after any stream the client
	// opened before; then a short settle so that handler goroutines have recorded their acceptance.
	{
		ctx, cancel := context.WithTimeout(context.Background(), 30*time.Second)
		_, _ = cli.ListPods(ctx, &pb.Empty{})
		cancel()
		time.Sleep(30 * time.Millisecond)
	}

	if c.Unary {
		srv.mu.Lock()
		n := srv.unaryCalls
		srv.mu.Unlock()
		if n != 1 || unaryErr == nil {
			return retryFinding{f: vt.Failf("unary:calls", "failing unary Info (code %d) with unary retry Max 0: server saw %d calls, client error %v; expected exactly 1 call and an error", c.UnaryCode, n, unaryErr)}
		}
	}

	for i, w := range c.Watches {
		e, r := exps[i], results[i]
		sid := fmt.Sprintf("w%d", i)
		srv.mu.Lock()
		st := srv.st[sid]
		accepted, methods, times := st.accepted, append([]string(nil), st.methods...), append([]time.Time(nil), st.times...)
		reqs := map[int]string{}
		for k, v := range st.requests {
			reqs[k] = v
		}
		srv.mu.Unlock()
		where := fmt.Sprintf("watch #%d %s max=%d script=%v cancel=%+v", i, w.Method, c.Max, w.Script, w.Cancel)
		kind := "watch"
		if !isWatchMethod(w.Method) {
			kind = "non-watch"
		}
		if r.openErr != nil {
			return retryFinding{f: vt.Failf(kind+":open-failed", "%s: opening the stream failed: %v", where, r.openErr)}
		}
		if r.hang {
			return retryFinding{timing: true, f: vt.Failf(kind+":hang:"+w.Cancel.Kind, "%s: Recv did not return within the watchdog (%v); delivered %v, server accepted %d streams, requests seen %v",
				where, watchdogFor(e), r.got, accepted, reqs)}
		}
		// every stream the server saw is the right method and carried the original request
		for idx, m := range methods {
			if m != "/pb.CoreRPC/"+w.Method {
				return retryFinding{f: vt.Failf(kind+":method", "%s: stream %d arrived as %s", where, idx, m)}
			}
		}
		idxs := make([]int, 0, len(reqs))
		for idx := range reqs {
			idxs = append(idxs, idx)
		}
		sort.Ints(idxs)
		for _, idx := range idxs {
			if reqs[idx] != w.wantReq() {
				return retryFinding{f: vt.Failf(kind+":request-not-original", "%s: server stream %d received request {%s}, the caller sent {%s}", where, idx, reqs[idx], w.wantReq())}
			}
		}
		// delivered messages: a prefix of what the script delivers, in order
		want := make([]string, len(e.msgs))
		for k, m := range e.msgs {
			want[k] = fmt.Sprintf("%s/%d/%d", sid, m.stream, m.i)
		}
		for k, id := range r.got {
			if k >= len(want) || id != want[k] {
				return retryFinding{f: vt.Failf(kind+":delivery-order", "%s: delivered %v, the script delivers %v", where, r.got, want)}
			}
		}
		streamCount := func(n int) int { // streams accepted once n >= 1 messages were delivered
			return e.msgs[n-1].stream + 1
		}
		switch {
		case !isWatchMethod(w.Method):
			if accepted != 1 {
				return retryFinding{f: vt.Failf("non-watch:reopened", "%s: server accepted %d streams for a method that is not a watch (expected exactly 1)", where, accepted)}
			}
			if len(r.got) != len(want) {
				return retryFinding{f: vt.Failf("non-watch:delivery", "%s: delivered %v, the script delivers %v", where, r.got, want)}
			}
			if w.Script[0].End == endEOF && !errors.Is(r.finalErr, io.EOF) {
				return retryFinding{f: vt.Failf("non-watch:end", "%s: stream ended normally, caller saw %v (expected io.EOF)", where, r.finalErr)}
			}
			if w.Script[0].End == endError && status.Code(r.finalErr) != codes.Code(w.Code) {
				return retryFinding{f: vt.Failf("non-watch:error", "%s: stream broke with code %d, caller saw %v", where, w.Code, r.finalErr)}
			}
		case !r.cancelIssued: // the script ran to exhaustion of the retry budget
			if e.final != "exhausted" {
				return retryFinding{f: vt.Failf("watch:gave-up-early", "%s: Recv returned %v after %v although the script can still deliver (the caller had not cancelled)", where, r.finalErr, r.got)}
			}
			if len(r.got) != len(want) {
				return retryFinding{f: vt.Failf("watch:lost-messages", "%s: delivered %v, the script delivers %v before the budget is exhausted (final error %v, accepted %d)", where, r.got, want, r.finalErr, accepted)}
			}
			if r.finalErr == nil {
				return retryFinding{f: vt.Failf("watch:no-error-after-budget", "%s: no error surfaced", where)}
			}
			if accepted != e.accepted {
				return retryFinding{f: vt.Failf(fmt.Sprintf("watch:reopen-count:%s", cmpWord(accepted, e.accepted)), "%s: server accepted %d streams, expected %d (1 + Max=%d reopen attempts per break)", where, accepted, e.accepted, c.Max)}
			}
		case w.Cancel.Kind == cancelInBackoff:
			// messages of all streams before the failed attempt were delivered before it was opened
			n := 0
			for _, m := range e.msgs {
				if m.stream < w.Cancel.AtStream {
					n++
				}
			}
			if len(r.got) != n {
				return retryFinding{f: vt.Failf("watch:lost-messages", "%s: delivered %v, expected the %d messages of the streams before #%d", where, r.got, n, w.Cancel.AtStream)}
			}
			if r.finalErr == nil {
				return retryFinding{f: vt.Failf("cancel:no-error", "%s: Recv returned no error after the caller cancelled", where)}
			}
			if accepted != w.Cancel.AtStream+1 {
				late := accepted > w.Cancel.AtStream+1 && times[w.Cancel.AtStream+1].After(r.cancelAt)
				return retryFinding{timing: true, f: vt.Failf(fmt.Sprintf("cancel:in-backoff:reopen-count:%s", cmpWord(accepted, w.Cancel.AtStream+1)),
					"%s: caller cancelled when the server accepted failed attempt #%d, yet the server accepted %d streams in total (stream accepted after cancel returned: %v)", where, w.Cancel.AtStream, accepted, late)}
			}
		default: // cancelBeforeRecv, cancelInRecv, or the implicit cancel once an open stream went silent
			if r.finalErr == nil {
				return retryFinding{f: vt.Failf("cancel:no-error", "%s: Recv returned no error after the caller cancelled", where)}
			}
			if w.Cancel.Kind != cancelInRecv {
				// the caller cancelled OUTSIDE Recv (reopening only happens inside Recv), then called Recv:
				// the number of streams the server has accepted is frozen at the moment of the cancel.
				lo, hi := r.accAtCancel, r.accAtCancel
				if r.gotAtCancel >= 1 {
					if r.accAtCancel != streamCount(r.gotAtCancel) {
						return retryFinding{f: vt.Failf(fmt.Sprintf("watch:reopen-count:%s", cmpWord(r.accAtCancel, streamCount(r.gotAtCancel))), "%s: after %d delivered messages the server had accepted %d streams, expected %d", where, r.gotAtCancel, r.accAtCancel, streamCount(r.gotAtCancel))}
					}
				} else {
					hi = 1 // the initial stream may not have reached the server yet when the caller cancelled
				}
				if accepted < lo || accepted > hi {
					return retryFinding{f: vt.Failf("cancel:reopened-after-cancel", "%s: server had accepted %d streams when the caller cancelled (outside Recv) and %d at the end: a cancelled stream was reopened", where, r.accAtCancel, accepted)}
				}
			} else {
				// cancelled from outside while the caller sat in Recv (possibly still reopening towards the
				// silent last stream): every scripted stream may have been opened, none beyond the script.
				if accepted > e.accepted || accepted < r.accAtCancel {
					return retryFinding{f: vt.Failf("cancel:reopened-after-cancel", "%s: server accepted %d streams, the script has %d (accepted when all messages were delivered: %d)", where, accepted, e.accepted, r.accAtCancel)}
				}
			}
		}
		// after a cancel the client may make one futile attempt (its context is cancelled, gRPC refuses it
		// locally); going on through the retry budget is retrying a cancelled stream.
		amu.Lock()
		nc := attemptsCancelled[sid]
		amu.Unlock()
		if nc > 1 {
			return retryFinding{f: vt.Failf("cancel:retry-loop-continues", "%s: after the caller cancelled the client made %d further stream-open attempts with the cancelled context (tolerated: 1)", where, nc)}
		}
		if label {
			x.Label("%s final=%s cancel=%s", kind, e.final, w.Cancel.Kind)
			if r.cancelIssued {
				x.Label("attempts-with-cancelled-context=%d", nc)
			}
			if isWatchMethod(w.Method) {
				reopenOK := 0
				for k := 1; k < len(r.got); k++ {
					if e.msgs[k].stream != e.msgs[k-1].stream {
						reopenOK++
					}
				}
				if len(r.got) > 0 && e.msgs[0].stream > 0 {
					reopenOK++
				}
				x.Label("successful-reopens=%d", min(reopenOK, 3))
				x.Label("backoffs=%d", e.backoffs)
			}
		}
	}
	return retryFinding{}
}

func cmpWord(got, want int) string {
	if got > want {
		return "too-many"
	}
	return "too-few"
}

func runRetry(x *vt.Ctx, c RetryCase) *vt.Finding {
	r := attemptRetryCase(x, c, true)
	if r.f != nil && r.timing {
		stats.Inconclusive()
		stats.Note("a first attempt hit a timing-sensitive expectation and was retried: " + r.f.Key)
		x.Logf("first attempt (timing-sensitive, retried): %s: %s", r.f.Key, r.f.Msg)
		r = attemptRetryCase(x, c, false)
	}
	if r.f != nil {
		return r.f
	}
	x.Label("max=%d", c.Max)
	// non-trivial: at least one break followed by a successful reopen
	for _, w := range c.Watches {
		if !isWatchMethod(w.Method) {
			continue
		}
		e := modelWatch(w, c.Max)
		deliverable := len(e.msgs)
		switch w.Cancel.Kind {
		case cancelBeforeRecv:
			deliverable = w.Cancel.AfterMsgs
		case cancelInBackoff:
			deliverable = 0
			for _, m := range e.msgs {
				if m.stream < w.Cancel.AtStream {
					deliverable++
				}
			}
		}
		if deliverable >= 1 && e.msgs[deliverable-1].stream >= 1 {
			x.NonTrivial()
			break
		}
	}
	return nil
}

var propC36 = vt.Prop[RetryCase]{ID: "C36", Test: "TestC36", Gen: genRetryCase, Run: runRetry}

func TestC36(t *testing.T) { propC36.Check(t) }
