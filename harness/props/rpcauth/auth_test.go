// Package rpcauth holds the properties about the gRPC edge of core:
//
//	C35  RPC authentication accepts exactly matching credentials (auth_test.go)
//	C36  client watch streams retry transparently               (retry_test.go)
//
// Both run over a real in-process gRPC connection (bufconn): real HTTP/2 framing, real
// metadata handling, the repo's real interceptors / credentials on both ends.
package rpcauth

import (
	"context"
	"errors"
	"fmt"
	"io"
	"net"
	"strings"
	"testing"
	"time"

	"google.golang.org/grpc"
	"google.golang.org/grpc/codes"
	"google.golang.org/grpc/credentials/insecure"
	"google.golang.org/grpc/status"
	"google.golang.org/grpc/test/bufconn"
	"pgregory.net/rapid"

	coreauth "github.com/projecteru2/core/auth"
	pb "github.com/projecteru2/core/rpc/gen"
	coretypes "github.com/projecteru2/core/types"

	"verif/internal/stats"
	"verif/internal/vt"
)

func TestMain(m *testing.M) { vt.Main(m) }

// ---------------------------------------------------------------------------------------
// C35

// AuthClient is one caller configuration tried against the server of the case.
type AuthClient struct {
	Kind string `json:"kind"` // how the generator derived it (label only; the oracle looks at the strings)
	User string `json:"user"` // "" = the client is built without credentials (client.go: Username == "")
	Pass string `json:"pass"`
}

// AuthCase is one server configuration and the callers tried against it.
type AuthCase struct {
	ServerUser string       `json:"server_user"`
	ServerPass string       `json:"server_pass"`
	Clients    []AuthClient `json:"clients"`
}

const userAlphabet = "abcdefghijklmnopqrstuvwxyzABCDEFGHIJKLMNOPQRSTUVWXYZ0123456789_.-"

// names gRPC / HTTP/2 reserve or set themselves: a username equal to one of them is not a
// "username valid as gRPC metadata" (the transport drops, rewrites or itself fills such keys).
func reservedName(u string) bool {
	l := strings.ToLower(u)
	if strings.HasPrefix(l, "grpc-") || strings.HasSuffix(l, "-bin") {
		return true
	}
	switch l {
	case "content-type", "user-agent", "te", "connection", "host", "content-length", "transfer-encoding",
		"upgrade", "keep-alive", "proxy-connection", "trailer", "authority", "method", "path", "scheme":
		return true
	}
	return false
}

var dictUsers = []string{"admin", "Admin", "ADMIN", "root", "eru", "Eru", "core", "user", "User", "user.name", "User_Name",
	"svc-core", "Svc-Core", "a", "A", "x1", "X1", "authorization", "Authorization", "token", "Token", "api.key", "API_KEY"}

func genUser(t *rapid.T, label string) string {
	for i := 0; ; i++ {
		var u string
		if vt.Chance(t, label+"Dict", 30) {
			u = rapid.SampledFrom(dictUsers).Draw(t, label+"DictName")
		} else {
			n := rapid.IntRange(1, 12).Draw(t, label+"Len")
			b := make([]byte, n)
			lower := vt.Chance(t, label+"Lower", 35) // all-lower-case names stay common (the classic configuration)
			for j := range b {
				ch := userAlphabet[rapid.IntRange(0, len(userAlphabet)-1).Draw(t, label+"Ch")]
				if lower && ch >= 'A' && ch <= 'Z' {
					ch += 'a' - 'A'
				}
				b[j] = ch
			}
			u = string(b)
		}
		if !reservedName(u) {
			return u
		}
		if i > 20 {
			return "user"
		}
	}
}

func genPass(t *rapid.T, label string) string {
	switch k := vt.Pct(t, label+"Kind"); {
	case k < 12:
		return ""
	case k < 30:
		return rapid.SampledFrom([]string{"password", "Password", "pw", "p w", "secret!", "s3cr3t:/?#[]@", "a=b&c=d", "\"quoted\"", "x, y", "%20", "tab\\t", "~"}).Draw(t, label+"Dict")
	}
	n := rapid.IntRange(1, 16).Draw(t, label+"Len")
	b := make([]byte, n)
	for j := range b {
		b[j] = byte(rapid.IntRange(0x20, 0x7e).Draw(t, label+"Ch"))
	}
	if b[0] == ' ' {
		b[0] = '_'
	}
	if b[n-1] == ' ' {
		b[n-1] = '_'
	}
	return string(b)
}

func swapCase(s string, every int) string {
	b := []byte(s)
	k := 0
	for i, ch := range b {
		switch {
		case ch >= 'a' && ch <= 'z':
			if k%every == 0 {
				b[i] = ch - 'a' + 'A'
			}
			k++
		case ch >= 'A' && ch <= 'Z':
			if k%every == 0 {
				b[i] = ch - 'A' + 'a'
			}
			k++
		}
	}
	return string(b)
}

func genAuthCase(t *rapid.T) AuthCase {
	var c AuthCase
	c.ServerUser = genUser(t, "srvUser")
	c.ServerPass = genPass(t, "srvPass")
	n := rapid.IntRange(1, 4).Draw(t, "clients")
	for i := 0; i < n; i++ {
		cl := AuthClient{User: c.ServerUser, Pass: c.ServerPass}
		k := vt.Pct(t, "clientKind")
		if i == 0 && k >= 60 {
			k = 0 // the first caller is the identically configured one most of the time
		}
		switch {
		case k < 30:
			cl.Kind = "same"
		case k < 36:
			cl.Kind = "pw-random"
			cl.Pass = genPass(t, "cliPass")
		case k < 43:
			cl.Kind = "pw-prefix"
			if len(c.ServerPass) > 0 {
				cl.Pass = strings.TrimRight(c.ServerPass[:rapid.IntRange(0, len(c.ServerPass)-1).Draw(t, "cut")], " ")
			} else {
				cl.Pass = genPass(t, "cliPass")
			}
		case k < 50:
			cl.Kind = "pw-extended"
			cl.Pass = c.ServerPass + strings.TrimRight(genPass(t, "cliPassExt"), " ") + "x"
		case k < 55:
			cl.Kind = "pw-case"
			cl.Pass = swapCase(c.ServerPass, 1+rapid.IntRange(0, 2).Draw(t, "every"))
		case k < 59:
			cl.Kind = "pw-empty"
			cl.Pass = ""
		case k < 66:
			cl.Kind = "user-random"
			cl.User = genUser(t, "cliUser")
		case k < 72:
			cl.Kind = "user-prefix"
			if len(c.ServerUser) > 1 {
				cl.User = c.ServerUser[:rapid.IntRange(1, len(c.ServerUser)-1).Draw(t, "ucut")]
			} else {
				cl.User = genUser(t, "cliUser")
			}
		case k < 78:
			cl.Kind = "user-extended"
			cl.User = c.ServerUser + string(userAlphabet[rapid.IntRange(0, len(userAlphabet)-1).Draw(t, "uext")])
		case k < 86:
			cl.Kind = "user-case-only"
			cl.User = swapCase(c.ServerUser, 1+rapid.IntRange(0, 2).Draw(t, "uevery"))
		case k < 92:
			cl.Kind = "user-and-pw-random"
			cl.User, cl.Pass = genUser(t, "cliUser"), genPass(t, "cliPass")
		default:
			cl.Kind = "no-credentials"
			cl.User, cl.Pass = "", ""
		}
		if cl.User != "" && reservedName(cl.User) {
			cl.Kind, cl.User = "user-random", "nobody"
		}
		c.Clients = append(c.Clients, cl)
	}
	return c
}

// expectation derived from the strings alone.
type authExpect int

const (
	mustServe authExpect = iota
	mustReject
	noDemand // username differs from the configured one only in letter case and the password is right
)

func expectAuth(c AuthCase, cl AuthClient) (authExpect, string) {
	switch {
	case cl.User == "":
		return mustReject, "no-credentials"
	case cl.User == c.ServerUser && cl.Pass == c.ServerPass:
		return mustServe, "same-credentials"
	case cl.Pass != c.ServerPass && strings.EqualFold(cl.User, c.ServerUser):
		return mustReject, "wrong-password:" + relation(c.ServerPass, cl.Pass)
	case strings.EqualFold(cl.User, c.ServerUser):
		// gRPC metadata keys are case-insensitive and travel lower-cased, so the server cannot tell
		// "User" from "user": the statement is not taken to demand either outcome here.
		return noDemand, "username-case-only"
	case cl.Pass == c.ServerPass:
		return mustReject, "wrong-username:" + relation(c.ServerUser, cl.User)
	default:
		return mustReject, "wrong-username-and-password"
	}
}

func relation(configured, presented string) string {
	switch {
	case presented == "":
		return "empty"
	case configured == "":
		return "configured-empty"
	case strings.HasPrefix(configured, presented):
		return "prefix"
	case strings.HasPrefix(presented, configured):
		return "extension"
	case strings.EqualFold(configured, presented):
		return "case"
	}
	return "other"
}

func hasUpper(s string) bool { return strings.ToLower(s) != s }

func hasPunct(s string) bool {
	for _, ch := range []byte(s) {
		if !(ch >= 'a' && ch <= 'z' || ch >= 'A' && ch <= 'Z' || ch >= '0' && ch <= '9') {
			return true
		}
	}
	return false
}

// the tiny service behind the interceptors
type authSvc struct {
	pb.UnimplementedCoreRPCServer
}

func (authSvc) Info(context.Context, *pb.Empty) (*pb.CoreInfo, error) {
	return &pb.CoreInfo{Version: "verif-served"}, nil
}

func (authSvc) ListWorkloads(o *pb.ListWorkloadsOptions, s pb.CoreRPC_ListWorkloadsServer) error {
	for i := 0; i < 2; i++ {
		if err := s.Send(&pb.Workload{Id: fmt.Sprintf("%s-%d", o.Appname, i)}); err != nil {
			return err
		}
	}
	return nil
}

// startAuthServer builds the server the way core.go does: interceptors only when a username is configured.
func startAuthServer(cfg coretypes.AuthConfig, svc pb.CoreRPCServer) (*bufconn.Listener, *grpc.Server) {
	lis := bufconn.Listen(256 << 10)
	var opts []grpc.ServerOption
	if cfg.Username != "" {
		a := coreauth.NewAuth(cfg)
		opts = append(opts, grpc.StreamInterceptor(a.StreamInterceptor))
		opts = append(opts, grpc.UnaryInterceptor(a.UnaryInterceptor))
	}
	srv := grpc.NewServer(opts...)
	pb.RegisterCoreRPCServer(srv, svc)
	go func() { _ = srv.Serve(lis) }()
	return lis, srv
}

// dialAuth builds the client connection the way client/client.go does: per-RPC credentials only
// when a username is configured, insecure transport.
func dialAuth(lis *bufconn.Listener, cfg coretypes.AuthConfig, extra ...grpc.DialOption) (*grpc.ClientConn, error) {
	opts := []grpc.DialOption{
		grpc.WithTransportCredentials(insecure.NewCredentials()),
		grpc.WithContextDialer(func(ctx context.Context, _ string) (net.Conn, error) { return lis.DialContext(ctx) }),
	}
	if cfg.Username != "" {
		opts = append(opts, grpc.WithPerRPCCredentials(coreauth.NewCredential(cfg)))
	}
	opts = append(opts, extra...)
	return grpc.Dial("passthrough:///bufnet", opts...)
}

type authOutcome struct {
	served bool
	hang   bool
	detail string
}

const authCallTimeout = 20 * time.Second // ≈ 10 000 × the normal latency; only "never hangs" depends on it

func callUnary(cli pb.CoreRPCClient) authOutcome {
	ctx, cancel := context.WithTimeout(context.Background(), authCallTimeout)
	defer cancel()
	r, err := cli.Info(ctx, &pb.Empty{})
	switch {
	case err == nil && r.GetVersion() == "verif-served":
		return authOutcome{served: true, detail: "OK"}
	case err == nil:
		return authOutcome{served: true, detail: fmt.Sprintf("OK with unexpected body %q", r.GetVersion())}
	case status.Code(err) == codes.DeadlineExceeded:
		return authOutcome{hang: true, detail: err.Error()}
	}
	return authOutcome{detail: err.Error()}
}

func callStream(cli pb.CoreRPCClient) authOutcome {
	ctx, cancel := context.WithTimeout(context.Background(), authCallTimeout)
	defer cancel()
	st, err := cli.ListWorkloads(ctx, &pb.ListWorkloadsOptions{Appname: "app"})
	if err != nil {
		if status.Code(err) == codes.DeadlineExceeded {
			return authOutcome{hang: true, detail: err.Error()}
		}
		return authOutcome{detail: "open: " + err.Error()}
	}
	var got []string
	for {
		w, err := st.Recv()
		if errors.Is(err, io.EOF) {
			break
		}
		if err != nil {
			if status.Code(err) == codes.DeadlineExceeded {
				return authOutcome{hang: true, detail: err.Error()}
			}
			if len(got) > 0 {
				return authOutcome{served: true, detail: fmt.Sprintf("delivered %v then %v", got, err)}
			}
			return authOutcome{detail: err.Error()}
		}
		got = append(got, w.Id)
	}
	if len(got) == 2 && got[0] == "app-0" && got[1] == "app-1" {
		return authOutcome{served: true, detail: "OK"}
	}
	return authOutcome{served: len(got) > 0, detail: fmt.Sprintf("stream ended after %v", got)}
}

func runAuth(x *vt.Ctx, c AuthCase) *vt.Finding {
	if c.ServerUser == "" || reservedName(c.ServerUser) {
		return nil // not a case of the property (authentication not configured / name owned by gRPC)
	}
	srvCfg := coretypes.AuthConfig{Username: c.ServerUser, Password: c.ServerPass}
	lis, srv := startAuthServer(srvCfg, authSvc{})
	defer srv.Stop()

	nt := hasUpper(c.ServerUser) || c.ServerPass == "" || hasPunct(c.ServerPass)
	conns := map[AuthClient]*grpc.ClientConn{}
	defer func() {
		for _, cc := range conns {
			_ = cc.Close()
		}
	}()

	for i, cl := range c.Clients {
		if cl.User != "" && reservedName(cl.User) {
			continue
		}
		key := AuthClient{User: cl.User, Pass: cl.Pass}
		cc := conns[key]
		if cc == nil {
			var err error
			cc, err = dialAuth(lis, coretypes.AuthConfig{Username: cl.User, Password: cl.Pass})
			if err != nil {
				panic(fmt.Sprintf("harness: dial failed: %v", err))
			}
			conns[key] = cc
		}
		cli := pb.NewCoreRPCClient(cc)
		want, class := expectAuth(c, cl)
		if hasUpper(cl.User) || hasPunct(cl.Pass) {
			nt = true
		}
		for _, call := range []struct {
			name string
			f    func(pb.CoreRPCClient) authOutcome
		}{{"unary", callUnary}, {"stream", callStream}} {
			out := call.f(cli)
			if out.hang {
				stats.Inconclusive()
				if out = call.f(cli); out.hang {
					return vt.Failf("hang:"+call.name+":"+class, "client #%d %+v against server %q/%q: %s call did not finish within %v (twice): %s",
						i, cl, c.ServerUser, c.ServerPass, call.name, authCallTimeout, out.detail)
				}
			}
			res := "rejected"
			if out.served {
				res = "served"
			}
			x.Label("%s/%s=%s", classHead(class), call.name, res)
			switch {
			case want == mustServe && !out.served:
				feat := "other"
				if hasUpper(c.ServerUser) {
					feat = "username-has-uppercase"
				}
				return vt.Failf("same-credentials-rejected:"+feat, "server and client both configured %q/%q: %s call rejected: %s (expected: served)",
					c.ServerUser, c.ServerPass, call.name, out.detail)
			case want == mustReject && out.served:
				return vt.Failf(class+"-served:"+call.name, "server %q/%q, client #%d %q/%q: %s call served (%s), expected rejection",
					c.ServerUser, c.ServerPass, i, cl.User, cl.Pass, call.name, out.detail)
			}
		}
	}
	x.Label("clients=%d", len(c.Clients))
	if nt {
		x.NonTrivial()
	}
	return nil
}

func classHead(class string) string { return class }

var propC35 = vt.Prop[AuthCase]{ID: "C35", Test: "TestC35", Gen: genAuthCase, Run: runAuth}

func TestC35(t *testing.T) { propC35.Check(t) }
