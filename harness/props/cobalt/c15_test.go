// C15 — resource repair restores consistent usage.
//
// A node (capacity from the shared generator), a set of workload records that fit the capacity,
// and a usage record that has drifted arbitrarily from the workloads' sum (any drift the
// plugin's own Validate accepts when written through SetNodeResourceInfo). The repair is run
// the way calcium runs it: Manager.GetNodeResourceInfo(node, workloads, fix=true). Afterwards
// the raw usage record must equal the harness's own sum over the workloads and a second check
// (fix=false) must report no differences.
package cobalt

import (
	"encoding/json"
	"errors"
	"fmt"
	"sort"
	"strconv"
	"testing"

	"pgregory.net/rapid"

	resourcetypes "github.com/projecteru2/core/resource/types"
	coretypes "github.com/projecteru2/core/types"

	"verif/internal/vt"
)

// C15Case is one drifted node.
type C15Case struct {
	ShareBase int      `json:"share_base"`
	Node      Node     `json:"node"`      // capacity side only
	Workloads []wrec   `json:"workloads"` // fit the capacity
	Drift     Res      `json:"drift"`     // the usage record before the repair
	Kinds     []string `json:"kinds"`     // which drifts were applied (classification only)
}

// genWorkloads draws 0..maxN workload records that fit the node's capacity.
func genWorkloads(t *rapid.T, n Node, sb int, unit int64, maxN int) []wrec {
	free := append([]int(nil), n.Cap...)
	freeMem := n.MemCap
	freeNUMA := append([]int64(nil), n.NUMACap...)
	var out []wrec
	cnt := rapid.IntRange(0, maxN).Draw(t, "workloads")
	if maxN >= 2 && vt.Chance(t, "several", 60) {
		cnt = rapid.IntRange(2, maxN).Draw(t, "workloads2")
	}
	for i := 0; i < cnt; i++ {
		var w wrec
		maxMem := min(freeMem/unit, 16)
		if maxMem > 0 && !vt.Chance(t, "noMem", 15) {
			w.MemoryRequest = unit * rapid.Int64Range(1, maxMem).Draw(t, "mem")
		}
		w.MemoryLimit = w.MemoryRequest
		if vt.Chance(t, "bound", 60) {
			w.CPUMap = map[string]int64{}
			want := rapid.IntRange(1, 3).Draw(t, "ncores")
			start := rapid.IntRange(0, len(free)-1).Draw(t, "startCore")
			numaOf := -1
			sameNUMA := true
			pieces := 0
			for j := 0; j < len(free) && len(w.CPUMap) < want; j++ {
				c := (start + j) % len(free)
				if free[c] <= 0 {
					continue
				}
				p := min(free[c], sb)
				if !(free[c] >= sb && vt.Chance(t, "fullCore", 60)) {
					p = rapid.IntRange(1, p).Draw(t, "frag")
				}
				w.CPUMap[strconv.Itoa(c)] = int64(p)
				free[c] -= p
				pieces += p
				if n.hasNUMA() {
					if numaOf == -1 {
						numaOf = n.NUMA[c]
					} else if numaOf != n.NUMA[c] {
						sameNUMA = false
					}
				}
			}
			if len(w.CPUMap) == 0 {
				w.CPUMap = nil
			} else {
				w.CPURequest = float64(pieces) / float64(sb)
				w.CPULimit = w.CPURequest
				if n.hasNUMA() && sameNUMA && numaOf >= 0 && freeNUMA[numaOf] >= w.MemoryRequest && vt.Chance(t, "numaBound", 75) {
					w.NUMANode = strconv.Itoa(numaOf)
					w.NUMAMemory = map[string]int64{w.NUMANode: w.MemoryRequest}
					freeNUMA[numaOf] -= w.MemoryRequest
				}
			}
		}
		if w.CPUMap == nil && !vt.Chance(t, "noCPU", 30) {
			w.CPURequest = float64(rapid.IntRange(1, 2*sb).Draw(t, "cpuUnbound")) / float64(sb)
			w.CPULimit = w.CPURequest
		}
		// limits are the workload's own business: equal to the request, above it, or absent
		switch k := vt.Pct(t, "limits"); {
		case k < 20:
			w.CPULimit += float64(rapid.IntRange(1, sb).Draw(t, "cpuLimitExtra")) / float64(sb)
			w.MemoryLimit += unit * rapid.Int64Range(1, 8).Draw(t, "memLimitExtra")
		case k < 30 && w.CPUMap == nil:
			w.CPULimit, w.MemoryLimit = 0, 0
		}
		freeMem -= w.MemoryRequest
		out = append(out, w)
	}
	return out
}

func (w wrec) params() resourcetypes.RawParams {
	b, _ := json.Marshal(w)
	out := resourcetypes.RawParams{}
	_ = json.Unmarshal(b, &out)
	return out
}

func sumWrecs(ws []wrec) Res {
	s := Res{CPUMap: map[string]int64{}, NUMAMem: map[string]int64{}}
	for _, w := range ws {
		s.CPU += w.CPURequest
		s.Memory += w.MemoryRequest
		for c, p := range w.CPUMap {
			s.CPUMap[c] += p
		}
		for n, m := range w.NUMAMemory {
			s.NUMAMem[n] += m
		}
	}
	return s
}

func genC15(t *rapid.T) C15Case {
	c := C15Case{ShareBase: rapid.SampledFrom(shareBases).Draw(t, "shareBase")}
	unit := genUnit(t)
	c.Node = genNode(t, c.ShareBase, 0, unit)
	c.Node.Used, c.Node.NUMAUse, c.Node.MemUsed = nil, nil, 0
	c.Workloads = genWorkloads(t, c.Node, c.ShareBase, unit, 6)
	truth := sumWrecs(c.Workloads)
	// the plugin's own record of a consistent node lists every core and every NUMA node
	d := Res{CPU: truth.CPU, Memory: truth.Memory, CPUMap: map[string]int64{}, NUMAMem: map[string]int64{}}
	for i := range c.Node.Cap {
		d.CPUMap[strconv.Itoa(i)] = truth.CPUMap[strconv.Itoa(i)]
	}
	for i := range c.Node.NUMACap {
		d.NUMAMem[strconv.Itoa(i)] = truth.NUMAMem[strconv.Itoa(i)]
	}
	if !vt.Chance(t, "noDrift", 8) {
		mark := func(k string) { c.Kinds = append(c.Kinds, k) }
		// a third of the cases drift in a single dimension only: a repair (or a check) that
		// forgets one dimension is only visible when no other dimension triggers the rewrite
		only := ""
		if vt.Chance(t, "singleDim", 35) {
			dims := []string{"core", "memory", "cpu"}
			if c.Node.hasNUMA() {
				dims = append(dims, "numa", "numa", "numa-unknown")
			}
			only = rapid.SampledFrom(dims).Draw(t, "onlyDim")
		}
		on := func(dim string) bool { return only == "" || only == dim }
		// in single-dimension mode the chosen dimension drifts (almost) always
		pct := func(label string, scaleTo int) int {
			p := vt.Pct(t, label)
			if only != "" {
				p = p * scaleTo / 100
			}
			return p
		}
		for i, capI := range c.Node.Cap {
			if !on("core") {
				break
			}
			k := strconv.Itoa(i)
			switch p := pct("coreDrift", 60); {
			case p < 30:
				d.CPUMap[k] = int64(rapid.IntRange(0, capI).Draw(t, "corePieces"))
				mark("core-corrupted")
			case p < 38:
				delete(d.CPUMap, k)
				mark("core-missing")
			case p < 41:
				d.CPUMap[k] = -int64(rapid.IntRange(1, 5).Draw(t, "coreNeg"))
				mark("core-negative")
			}
		}
		switch p := pct("memDrift", 45); {
		case !on("memory"):
		case p < 35:
			d.Memory = unit * rapid.Int64Range(0, 2*(c.Node.MemCap/unit)+5).Draw(t, "memDriftV")
			mark("memory-corrupted")
		case p < 45:
			d.Memory = 0
			mark("memory-missing")
		}
		for i, capI := range c.Node.NUMACap {
			if !on("numa") {
				break
			}
			k := strconv.Itoa(i)
			switch p := pct("numaDrift", 50); {
			case p < 30:
				d.NUMAMem[k] = unit * rapid.Int64Range(0, capI/unit).Draw(t, "numaDriftV")
				mark("numa-corrupted")
			case p < 40:
				delete(d.NUMAMem, k)
				mark("numa-missing")
			}
		}
		if only == "numa-unknown" || (only == "" && vt.Chance(t, "numaExtraKey", 8)) {
			// usage on a NUMA node the capacity does not know (accepted by Validate)
			d.NUMAMem["7"] = unit * rapid.Int64Range(1, 9).Draw(t, "numaExtraV")
			mark("numa-unknown-node")
		}
		switch p := pct("cpuDrift", 40); {
		case !on("cpu"):
		case p < 25:
			d.CPU = rapid.Float64Range(0, float64(len(c.Node.Cap))).Draw(t, "cpuDriftV")
			mark("cpu-corrupted")
		case p < 35:
			d.CPU = truth.CPU + float64(rapid.IntRange(-3, 3).Draw(t, "cpuOff"))/float64(c.ShareBase)
			mark("cpu-off-by-pieces")
		case p < 40:
			d.CPU = 0
			mark("cpu-missing")
		}
	}
	sort.Strings(c.Kinds)
	c.Drift = d
	return c
}

func runC15(x *vt.Ctx, c C15Case) *vt.Finding {
	sb := c.ShareBase
	p := fx.plugin(sb, -1)
	m := fx.manager(sb, -1, p)
	name := fx.names(1)[0]
	defer fx.drop([]string{name})

	truth := sumWrecs(c.Workloads)
	if _, err := p.SetNodeResourceInfo(ctx, name, c.Node.capacity().params(), c.Drift.params()); err != nil {
		notInfra(err)
		// a drift the plugin does not accept is outside the property's domain
		x.Label("drift-not-accepted")
		return nil
	}
	var workloads []*coretypes.Workload
	for i, w := range c.Workloads {
		workloads = append(workloads, &coretypes.Workload{ID: fmt.Sprintf("w%d", i), Nodename: name, Resources: resourcetypes.Resources{pluginName: w.params()}})
	}

	dim0, _ := diffRes(c.Drift, truth, 1e-6)
	if dim0 == "" {
		x.Label("no-drift")
	} else {
		x.NonTrivial()
		x.Label("first-drift-dim=%s", dim0)
	}
	seen := map[string]bool{}
	for _, k := range c.Kinds {
		if !seen[k] {
			seen[k] = true
			x.Label("drift:%s", k)
		}
	}
	x.Label("workloads=%d", len(c.Workloads))
	if c.Node.hasNUMA() {
		x.Label("numa-node")
	}

	// which dimensions drifted: part of the finding key (root cause = which drift is not repaired)
	drifted := ""
	for _, probe := range []struct {
		name string
		got  Res
	}{
		{"cpu", Res{CPU: c.Drift.CPU, Memory: truth.Memory, CPUMap: truth.CPUMap, NUMAMem: truth.NUMAMem}},
		{"memory", Res{CPU: truth.CPU, Memory: c.Drift.Memory, CPUMap: truth.CPUMap, NUMAMem: truth.NUMAMem}},
		{"cpu_map", Res{CPU: truth.CPU, Memory: truth.Memory, CPUMap: c.Drift.CPUMap, NUMAMem: truth.NUMAMem}},
		{"numa_memory", Res{CPU: truth.CPU, Memory: truth.Memory, CPUMap: truth.CPUMap, NUMAMem: c.Drift.NUMAMem}},
	} {
		if d, _ := diffRes(probe.got, truth, 1e-6); d != "" {
			drifted += "+" + probe.name
		}
	}

	_, _, diffs1, err := m.GetNodeResourceInfo(ctx, name, workloads, true)
	notInfra(err)
	if err != nil {
		return vt.Failf("repair-error", "GetNodeResourceInfo(fix=true) failed: %v", err)
	}
	for _, d := range diffs1 { // FixNodeResource reports a failed write as one more "diff"
		notInfra(errors.New(d))
	}
	got := fx.raw(name).Usage
	if dim, msg := diffRes(got, truth, 1e-6); dim != "" {
		if dim == "numa_memory" {
			// root cause detail: is the unrepaired NUMA node one the capacity does not list?
			for _, k := range unionKeys(got.NUMAMem, truth.NUMAMem) {
				if _, known := c.Node.capacity().NUMAMem[k]; got.NUMAMem[k] != truth.NUMAMem[k] && !known {
					dim = "numa_memory(node-unknown-to-capacity)"
					break
				}
			}
		}
		return vt.Failf(fmt.Sprintf("not-repaired:%s:drifted=%s", dim, drifted), "after repair usage %+v, sum of workloads %+v: %s (drift was %+v, repair reported %v)", got, truth, msg, c.Drift, diffs1)
	}
	_, _, diffs2, err := m.GetNodeResourceInfo(ctx, name, workloads, false)
	notInfra(err)
	if err != nil {
		return vt.Failf("check-error", "GetNodeResourceInfo(fix=false) failed: %v", err)
	}
	if len(diffs2) != 0 {
		return vt.Failf(fmt.Sprintf("diffs-after-repair:drifted=%s", drifted), "check after repair still reports %v", diffs2)
	}
	if dim0 != "" && len(diffs1) == 0 {
		// repaired state equals the sum, yet the repair saw no difference: only possible when the
		// drift was below the check's resolution
		x.Label("drift-repaired-without-reported-diff")
	}
	return nil
}

var propC15 = vt.Prop[C15Case]{ID: "C15", Test: "TestC15", Gen: genC15, Run: runC15}

func TestC15(t *testing.T) {
	setup(t)
	propC15.Check(t)
}
