// C08 — plugin resource bookkeeping is exact and reversible.
//
// A case is a script of actions (alloc / alloc+rollback of a subset / realloc grow|shrink|bind|
// unbind|keep / realloc+rollback / release / release+rollback) executed through the real
// cobalt.Manager with the real cpumem plugin on a fresh pair of nodes (node 0 without, node 1
// with NUMA topology). The model is the list of live workloads with the resource records the
// manager returned (passed through JSON like the metadata store does). After every action the
// plugin's raw usage record must equal the harness's own sum over the live records (CPU total
// within 1e-6, per-core pieces, memory and per-NUMA memory exactly, absent key = 0); after
// op+rollback the raw usage must equal the snapshot taken before the op.
package cobalt

import (
	"fmt"
	"testing"

	"pgregory.net/rapid"

	"github.com/projecteru2/core/resource/cobalt"
	"github.com/projecteru2/core/resource/plugins"
	plugintypes "github.com/projecteru2/core/resource/plugins/types"
	resourcetypes "github.com/projecteru2/core/resource/types"

	"verif/internal/vt"
)

// Action is one step of a C08 script.
type Action struct {
	Kind  string `json:"kind"` // alloc | alloc-rollback | realloc | realloc-rollback | release | release-rollback
	Node  int    `json:"node,omitempty"`
	Count int    `json:"count,omitempty"`
	Req   *Req   `json:"req,omitempty"`
	Mask  uint   `json:"mask,omitempty"`  // alloc-rollback: bit i set = instance i is rolled back; 0 = all
	W     int    `json:"w,omitempty"`     // workload selector (index modulo number of live workloads)
	DCPU  int    `json:"dcpu,omitempty"`  // realloc: CPU delta in pieces
	DMem  int64  `json:"dmem,omitempty"`  // realloc: memory delta
	Bind  string `json:"bind,omitempty"`  // realloc: keep | bind | unbind
	NoLim bool   `json:"nolim,omitempty"` // realloc: do not send limit deltas (request deltas only)
}

// C08Case is a scheduler configuration, two empty nodes and a script.
type C08Case struct {
	ShareBase int      `json:"share_base"`
	MaxShare  int      `json:"max_share"`
	Nodes     []Node   `json:"nodes"` // exactly 2; usage all zero
	Script    []Action `json:"script"`
}

func genEmptyNode(t *rapid.T, shareBase int, numa bool, unit int64) Node {
	var n Node
	cores := rapid.IntRange(2, 6).Draw(t, "cores")
	for i := 0; i < cores; i++ {
		c := shareBase
		if vt.Chance(t, "bigCore", 15) {
			c = 2 * shareBase
		}
		n.Cap = append(n.Cap, c)
		n.Used = append(n.Used, 0)
	}
	if numa {
		for i := 0; i < cores; i++ {
			n.NUMA = append(n.NUMA, rapid.IntRange(0, 1).Draw(t, "numaOf"))
		}
		n.NUMA[0], n.NUMA[cores-1] = 0, 1
		var sum int64
		for i := 0; i < 2; i++ {
			c := rapid.Int64Range(16, 64).Draw(t, "numaCap")
			n.NUMACap = append(n.NUMACap, c*unit)
			n.NUMAUse = append(n.NUMAUse, 0)
			sum += c
		}
		n.MemCap = (sum + rapid.Int64Range(0, 32).Draw(t, "slack")) * unit
	} else {
		n.MemCap = rapid.Int64Range(32, 128).Draw(t, "memCap") * unit
	}
	return n
}

func genC08(t *rapid.T) C08Case {
	c := C08Case{ShareBase: rapid.SampledFrom(shareBases).Draw(t, "shareBase"), MaxShare: -1}
	if vt.Chance(t, "maxShare8", 25) {
		c.MaxShare = 8 // >= number of cores: never below the number of fragment cores
	} else if !steerPlanner && vt.Chance(t, "maxShareSmall", 25) {
		c.MaxShare = rapid.IntRange(1, 3).Draw(t, "maxShareV")
	}
	unit := genUnit(t)
	c.Nodes = []Node{genEmptyNode(t, c.ShareBase, false, unit), genEmptyNode(t, c.ShareBase, true, unit)}
	n := rapid.IntRange(2, 12).Draw(t, "actions")
	sb := c.ShareBase
	for i := 0; i < n; i++ {
		var a Action
		k := vt.Pct(t, "kind")
		if i == 0 {
			k = 0
		}
		switch {
		case k < 30:
			a.Kind = "alloc"
		case k < 40:
			a.Kind = "alloc-rollback"
		case k < 70:
			a.Kind = "realloc"
		case k < 82:
			a.Kind = "realloc-rollback"
		case k < 94:
			a.Kind = "release"
		default:
			a.Kind = "release-rollback"
		}
		switch a.Kind {
		case "alloc", "alloc-rollback":
			a.Node = 0
			if vt.Chance(t, "numaNode", 65) {
				a.Node = 1
			}
			a.Count = rapid.IntRange(1, 3).Draw(t, "count")
			r := Req{Bind: vt.Chance(t, "bind", 65)}
			switch kk := vt.Pct(t, "cpuKind"); {
			case kk < 30:
				r.CPU = sb
			case kk < 60:
				r.CPU = rapid.IntRange(1, sb).Draw(t, "cpuFrag")
			default:
				r.CPU = rapid.IntRange(1, 2*sb+sb/2).Draw(t, "cpuAny")
			}
			if !r.Bind && vt.Chance(t, "noCPU", 30) {
				r.CPU = 0
			}
			if vt.Chance(t, "cpuLimit", 40) {
				r.CPULimit = r.CPU
			}
			if !vt.Chance(t, "noMem", 15) {
				r.Mem = unit * rapid.Int64Range(1, 12).Draw(t, "mem")
			}
			if vt.Chance(t, "memLimit", 50) {
				r.MemLimit = r.Mem
			}
			a.Req = &r
			if a.Kind == "alloc-rollback" && vt.Chance(t, "partial", 50) {
				a.Mask = uint(rapid.IntRange(1, 7).Draw(t, "mask"))
			}
		case "realloc", "realloc-rollback":
			a.W = rapid.IntRange(0, 63).Draw(t, "w")
			switch kk := vt.Pct(t, "dcpuKind"); {
			case kk < 30:
				a.DCPU = 0
			case kk < 50:
				a.DCPU = sb * rapid.IntRange(-1, 1).Draw(t, "dcpuFull")
			default:
				a.DCPU = rapid.IntRange(-sb, sb).Draw(t, "dcpu")
			}
			if !vt.Chance(t, "dmem0", 30) {
				a.DMem = unit * rapid.Int64Range(-8, 8).Draw(t, "dmem")
			}
			switch kk := vt.Pct(t, "bindKind"); {
			case kk < 50:
				a.Bind = "keep"
			case kk < 80:
				a.Bind = "bind"
			default:
				a.Bind = "unbind"
			}
			a.NoLim = vt.Chance(t, "nolim", 30)
		default:
			a.W = rapid.IntRange(0, 63).Draw(t, "w")
		}
		c.Script = append(c.Script, a)
	}
	return c
}

type liveWorkload struct {
	node int
	res  resourcetypes.Resources // what the store would hold: {"cpumem": record}
}

func (w liveWorkload) rec() wrec { return parseRecord(w.res[pluginName]) }

type c08world struct {
	c     C08Case
	names []string
	live  []liveWorkload
}

func (w *c08world) expected(node int) Res {
	var recs []plugintypes.WorkloadResource
	for _, l := range w.live {
		if l.node == node {
			recs = append(recs, l.res[pluginName])
		}
	}
	return sumRecords(recs)
}

// numaSafe is the steering precondition for bound planning on the NUMA node: after removing
// `minus` (the origin of a realloc) the free memory is at least the sum of the free NUMA
// memories, so per-NUMA plans (cut by NUMA memory only) cannot overcommit the node's memory.
func (w *c08world) numaSafe(node int, minus *wrec) bool {
	n := w.c.Nodes[node]
	if !n.hasNUMA() || !steerPlanner {
		return true
	}
	exp := w.expected(node)
	mem := exp.Memory
	numaUse := map[string]int64{}
	for k, v := range exp.NUMAMem {
		numaUse[k] = v
	}
	if minus != nil {
		mem -= minus.MemoryRequest
		for k, v := range minus.NUMAMemory {
			numaUse[k] -= v
		}
	}
	var freeNUMA int64
	for i, c := range n.NUMACap {
		freeNUMA += c - numaUse[fmt.Sprint(i)]
	}
	return n.MemCap-mem >= freeNUMA
}

func runC08(x *vt.Ctx, c C08Case) *vt.Finding { return execC08(x, c, nil) }

// execC08 runs the script with the C08 oracle after every action; `after`, when given, sees the
// final world (C32 checks the remap answer there) while the nodes still exist.
func execC08(x *vt.Ctx, c C08Case, after func(w *c08world, m *cobalt.Manager) *vt.Finding) *vt.Finding {
	if len(c.Nodes) != 2 {
		return nil
	}
	sb := c.ShareBase
	p := fx.plugin(sb, c.MaxShare)
	m := fx.manager(sb, c.MaxShare, p)
	names := fx.names(2)
	defer fx.drop(names)
	for i, n := range c.Nodes {
		n.write(p, names[i], sb)
	}
	w := &c08world{c: c, names: names}

	check := func(step int, a Action, tag string) *vt.Finding {
		for i, n := range names {
			got := fx.raw(n).Usage
			want := w.expected(i)
			if dim, msg := diffRes(got, want, 1e-6); dim != "" {
				return vt.Failf(fmt.Sprintf("usage!=sum:%s:%s", tag, dim), "after step %d (%+v) on node %d: recorded usage %+v, sum of live workloads %+v: %s", step, a, i, got, want, msg)
			}
		}
		return nil
	}
	restored := func(step int, a Action, node int, before Res, tag string) *vt.Finding {
		got := fx.raw(names[node]).Usage
		if dim, msg := diffRes(got, before, 1e-9); dim != "" {
			return vt.Failf(fmt.Sprintf("rollback-not-exact:%s:%s", tag, dim), "step %d (%+v): usage before %+v, after op+rollback %+v: %s", step, a, before, got, msg)
		}
		return nil
	}

	nontrivial := false
	for step, a := range c.Script {
		switch a.Kind {
		case "alloc", "alloc-rollback":
			if a.Req == nil || a.Node < 0 || a.Node > 1 || a.Count < 1 {
				continue
			}
			r := *a.Req
			if r.Bind && r.Mem+r.MemLimit > 0 && !w.numaSafe(a.Node, nil) {
				x.Label("steered:numa-overcommit")
				continue
			}
			before := fx.raw(names[a.Node]).Usage
			recs, _, err := m.Alloc(ctx, names[a.Node], a.Count, resourcetypes.Resources{pluginName: r.params(sb)})
			notInfra(err)
			tag := a.Kind
			if err != nil {
				x.Label("%s:refused", a.Kind)
				if f := check(step, a, tag+"(refused)"); f != nil {
					return f
				}
				continue
			}
			x.Label("%s:ok", a.Kind)
			var keep, back []resourcetypes.Resources
			for i, rec := range recs {
				rec = resourcetypes.Resources{pluginName: viaStore(rec[pluginName])}
				if a.Kind == "alloc-rollback" && (a.Mask == 0 || a.Mask&(1<<uint(i)) != 0) {
					back = append(back, rec)
				} else {
					keep = append(keep, rec)
				}
			}
			for _, rec := range keep {
				w.live = append(w.live, liveWorkload{node: a.Node, res: rec})
				if len(parseRecord(rec[pluginName]).NUMAMemory) > 0 {
					x.Label("live:numa-bound")
				}
			}
			if a.Kind == "alloc-rollback" && len(back) > 0 {
				if err := m.RollbackAlloc(ctx, names[a.Node], back); err != nil {
					notInfra(err)
					return vt.Failf("rollback-alloc-error", "step %d: RollbackAlloc failed: %v", step, err)
				}
				nontrivial = true
				if len(keep) == 0 {
					if f := restored(step, a, a.Node, before, "alloc"); f != nil {
						return f
					}
				} else {
					x.Label("alloc-rollback:partial")
				}
			}
			if f := check(step, a, tag); f != nil {
				return f
			}

		case "realloc", "realloc-rollback":
			if len(w.live) == 0 {
				continue
			}
			idx := a.W % len(w.live)
			lw := w.live[idx]
			origin := lw.rec()
			originBound := len(origin.CPUMap) > 0
			originNUMA := len(origin.NUMAMemory) > 0
			req := resourcetypes.RawParams{
				"cpu-request":    float64(a.DCPU) / float64(sb),
				"memory-request": a.DMem,
			}
			if !a.NoLim {
				req["cpu-limit"] = float64(a.DCPU) / float64(sb)
				req["memory-limit"] = a.DMem
			}
			bound := false
			switch a.Bind {
			case "keep":
				req["keep-cpu-bind"] = true
				bound = originBound
			case "bind":
				req["cpu-bind"] = true
				bound = true
			}
			// steering: a bound request below one piece never returns from the planner
			newCPU := origin.CPURequest + float64(a.DCPU)/float64(sb)
			newLimit := origin.CPULimit
			if !a.NoLim {
				newLimit += float64(a.DCPU) / float64(sb)
			}
			if bound {
				eff := max(newCPU, newLimit)
				if newCPU == 0 {
					eff = newLimit
				}
				if steerPlanner && eff > 0 && int(eff*float64(sb)) < 1 {
					x.Label("steered:sub-piece")
					continue
				}
				if origin.MemoryRequest+a.DMem > 0 && !w.numaSafe(lw.node, &origin) {
					x.Label("steered:numa-overcommit")
					continue
				}
			}
			tag := fmt.Sprintf("%s(%s->%s)", a.Kind, bindName(originBound, originNUMA), bindTarget(bound))
			before := fx.raw(names[lw.node]).Usage
			_, delta, newRes, err := m.Realloc(ctx, names[lw.node], lw.res, resourcetypes.Resources{pluginName: req})
			notInfra(err)
			if err != nil {
				x.Label("%s:refused", a.Kind)
				if f := check(step, a, tag+"(refused)"); f != nil {
					return f
				}
				continue
			}
			x.Label("%s:ok", a.Kind)
			x.Label("realloc:%s->%s", bindName(originBound, originNUMA), bindTarget(bound))
			if originNUMA {
				nontrivial = true
			}
			if a.Kind == "realloc" {
				w.live[idx].res = resourcetypes.Resources{pluginName: viaStore(newRes[pluginName])}
				if a.DMem != 0 && originNUMA {
					x.Label("realloc:numa-bound-memory-change")
				}
			} else {
				if err := m.RollbackRealloc(ctx, names[lw.node], resourcetypes.Resources{pluginName: viaStore(delta[pluginName])}); err != nil {
					notInfra(err)
					return vt.Failf("rollback-realloc-error", "step %d: RollbackRealloc failed: %v", step, err)
				}
				nontrivial = true
				if f := restored(step, a, lw.node, before, tag); f != nil {
					return f
				}
			}
			if f := check(step, a, tag); f != nil {
				return f
			}

		case "release", "release-rollback":
			if len(w.live) == 0 {
				continue
			}
			idx := a.W % len(w.live)
			lw := w.live[idx]
			before := fx.raw(names[lw.node]).Usage
			if _, _, err := m.SetNodeResourceUsage(ctx, names[lw.node], nil, nil, []resourcetypes.Resources{lw.res}, true, plugins.Decr); err != nil {
				notInfra(err)
				return vt.Failf("release-error", "step %d: release of %+v failed: %v", step, lw.res, err)
			}
			x.Label("%s:ok", a.Kind)
			if a.Kind == "release" {
				w.live = append(w.live[:idx:idx], w.live[idx+1:]...)
			} else {
				if _, _, err := m.SetNodeResourceUsage(ctx, names[lw.node], nil, nil, []resourcetypes.Resources{lw.res}, true, plugins.Incr); err != nil {
					notInfra(err)
					return vt.Failf("release-rollback-error", "step %d: re-adding %+v failed: %v", step, lw.res, err)
				}
				nontrivial = true
				if f := restored(step, a, lw.node, before, "release"); f != nil {
					return f
				}
			}
			if f := check(step, a, a.Kind); f != nil {
				return f
			}
		}
	}
	if after != nil {
		return after(w, m)
	}
	x.Label("live-at-end=%d", min(len(w.live), 6))
	if nontrivial {
		x.NonTrivial()
	}
	return nil
}

func bindName(bound, numa bool) string {
	switch {
	case numa:
		return "numa-bound"
	case bound:
		return "bound"
	default:
		return "unbound"
	}
}

func bindTarget(bound bool) string {
	if bound {
		return "bound"
	}
	return "unbound"
}

var propC08 = vt.Prop[C08Case]{ID: "C08", Test: "TestC08", Gen: genC08, Run: runC08}

func TestC08(t *testing.T) {
	setup(t)
	propC08.Check(t)
}
