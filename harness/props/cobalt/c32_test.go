// C32 — unbound workloads are remapped onto free shared cores only.
//
// Reference (from the statement): pool = the cores whose capacity minus usage is at least one
// full core (shareBase pieces), or all cores when there is none; every workload without CPU
// binding is given exactly the pool (as a remap: flag set, its own CPU and memory limits
// unchanged); workloads with CPU binding are absent from the answer.
//
// TestC32: Manager.Remap on generated node states whose usage is the sum of 0–6 generated
// workload records (bound, NUMA-bound and unbound mixed), optionally plus usage of workloads
// the caller does not list. TestC32History: the same check at the end of a C08 script (a
// history of allocations, re-allocations that bind/unbind, releases and rollbacks), with the
// pool computed from the harness's model of the live workloads.
package cobalt

import (
	"fmt"
	"sort"
	"strconv"
	"strings"
	"testing"

	"pgregory.net/rapid"

	"github.com/projecteru2/core/resource/cobalt"
	resourcetypes "github.com/projecteru2/core/resource/types"
	coretypes "github.com/projecteru2/core/types"

	"verif/internal/vt"
)

// C32Case is one node with its workloads.
type C32Case struct {
	ShareBase int    `json:"share_base"`
	Node      Node   `json:"node"`      // capacity side only
	Workloads []wrec `json:"workloads"` // fit the capacity; node usage = their sum + Extra
	Extra     []int  `json:"extra"`     // per core: pieces used by workloads not passed to Remap (usually none)
}

func genC32(t *rapid.T) C32Case {
	c := C32Case{ShareBase: rapid.SampledFrom(shareBases).Draw(t, "shareBase")}
	unit := genUnit(t)
	c.Node = genNode(t, c.ShareBase, 0, unit)
	c.Node.Used, c.Node.NUMAUse, c.Node.MemUsed = nil, nil, 0
	c.Workloads = genWorkloads(t, c.Node, c.ShareBase, unit, 6)
	if vt.Chance(t, "extra", 20) {
		used := sumWrecs(c.Workloads).CPUMap
		for i, capI := range c.Node.Cap {
			free := capI - int(used[strconv.Itoa(i)])
			e := 0
			if free > 0 && vt.Chance(t, "extraCore", 50) {
				e = rapid.IntRange(1, free).Draw(t, "extraPieces")
			}
			c.Extra = append(c.Extra, e)
		}
	}
	return c
}

// remapPool is the reference pool: cores with at least shareBase free pieces, else all cores.
func remapPool(capacity map[string]int64, used map[string]int64, shareBase int) []string {
	var pool, all []string
	for core, c := range capacity {
		all = append(all, core)
		if c-used[core] >= int64(shareBase) {
			pool = append(pool, core)
		}
	}
	if len(pool) == 0 {
		pool = all
	}
	sort.Strings(pool)
	return pool
}

// checkRemap compares a Manager.Remap answer with the reference.
func checkRemap(x *vt.Ctx, ans map[string]resourcetypes.Resources, ids []string, recs []wrec, pool []string, nCores int) *vt.Finding {
	bound, unbound := 0, 0
	for i, id := range ids {
		w := recs[i]
		got, ok := ans[id]
		if len(w.CPUMap) > 0 {
			bound++
			if ok {
				return vt.Failf("bound-workload-remapped", "workload %s is bound (%v) but the remap answer has %v for it", id, w.CPUMap, got)
			}
			continue
		}
		unbound++
		if !ok {
			return vt.Failf("unbound-workload-not-remapped", "workload %s has no CPU binding but is absent from the remap answer %v", id, ans)
		}
		ep := got[pluginName]
		var cores []string
		switch m := ep["cpu_map"].(type) {
		case map[string]any:
			for k := range m {
				cores = append(cores, k)
			}
		default:
			// the plugin's own typed map (not passed through JSON): read it generically
			for k := range parseEngineCPUMap(ep["cpu_map"]) {
				cores = append(cores, k)
			}
		}
		sort.Strings(cores)
		if strings.Join(cores, ",") != strings.Join(pool, ",") {
			kind := "pool-not-exact"
			if len(pool) == nCores && len(pool) != len(cores) {
				kind = "pool-not-exact(all-cores-expected)"
			}
			return vt.Failf(kind, "workload %s remapped onto cores %v, expected the pool %v", id, cores, pool)
		}
		if !ep.Bool("remap") || !ep.IsSet("remap") {
			return vt.Failf("remap-flag-missing", "workload %s: engine params %v lack remap=true", id, ep)
		}
		if ep.Float64("cpu") != w.CPULimit || ep.Int64("memory") != w.MemoryLimit {
			return vt.Failf("limits-changed", "workload %s: engine params %v, own limits cpu %v memory %d", id, ep, w.CPULimit, w.MemoryLimit)
		}
	}
	for id := range ans {
		known := false
		for _, k := range ids {
			if k == id {
				known = true
			}
		}
		if !known {
			return vt.Failf("unknown-workload-in-answer", "answer has %s which was not passed", id)
		}
	}
	x.Label("bound=%d", min(bound, 3))
	x.Label("unbound=%d", min(unbound, 3))
	switch {
	case len(pool) == nCores:
		x.Label("pool=all-cores")
	default:
		x.Label("pool=strict-subset")
	}
	if bound >= 1 && unbound >= 1 && len(pool) < nCores {
		x.NonTrivial()
	}
	return nil
}

func parseEngineCPUMap(v any) map[string]int64 {
	out := map[string]int64{}
	if v == nil {
		return out
	}
	raw := viaStore(resourcetypes.RawParams{"m": v})
	if m, ok := raw["m"].(map[string]any); ok {
		for k, p := range m {
			if f, ok := p.(float64); ok {
				out[k] = int64(f)
			}
		}
	}
	return out
}

func runC32(x *vt.Ctx, c C32Case) *vt.Finding {
	sb := c.ShareBase
	p := fx.plugin(sb, -1)
	m := fx.manager(sb, -1, p)
	name := fx.names(1)[0]
	defer fx.drop([]string{name})

	usage := sumWrecs(c.Workloads)
	for i, e := range c.Extra {
		if e > 0 {
			usage.CPUMap[strconv.Itoa(i)] += int64(e)
			usage.CPU += float64(e) / float64(sb)
			x.Label("unlisted-usage")
		}
	}
	capacity := c.Node.capacity()
	for k := range capacity.CPUMap { // the plugin's own records list every core
		if _, ok := usage.CPUMap[k]; !ok {
			usage.CPUMap[k] = 0
		}
	}
	if _, err := p.SetNodeResourceInfo(ctx, name, capacity.params(), usage.params()); err != nil {
		panic(fmt.Sprintf("harness: SetNodeResourceInfo rejected a consistent state: %v (%+v / %+v)", err, capacity, usage))
	}
	var workloads []*coretypes.Workload
	var ids []string
	for i, w := range c.Workloads {
		id := fmt.Sprintf("w%d", i)
		ids = append(ids, id)
		workloads = append(workloads, &coretypes.Workload{ID: id, Nodename: name, Resources: resourcetypes.Resources{pluginName: w.params()}})
	}
	ans, err := m.Remap(ctx, name, workloads)
	notInfra(err)
	if err != nil {
		return vt.Failf("remap-error", "Remap failed: %v", err)
	}
	pool := remapPool(capacity.CPUMap, usage.CPUMap, sb)
	if len(c.Workloads) == 0 {
		x.Label("no-workloads")
	}
	return checkRemap(x, ans, ids, c.Workloads, pool, len(c.Node.Cap))
}

var propC32 = vt.Prop[C32Case]{ID: "C32", Test: "TestC32", Gen: genC32, Run: runC32}

func TestC32(t *testing.T) {
	setup(t)
	propC32.Check(t)
}

// ---- after a history

func runC32History(x *vt.Ctx, c C08Case) *vt.Finding {
	bookkeeping := execC08(&vt.Ctx{}, c, func(w *c08world, m *cobalt.Manager) *vt.Finding {
		for node, name := range w.names {
			var workloads []*coretypes.Workload
			var ids []string
			var recs []wrec
			for i, l := range w.live {
				if l.node != node {
					continue
				}
				id := fmt.Sprintf("w%d", i)
				ids = append(ids, id)
				recs = append(recs, l.rec())
				workloads = append(workloads, &coretypes.Workload{ID: id, Nodename: name, Resources: l.res})
			}
			ans, err := m.Remap(ctx, name, workloads)
			notInfra(err)
			if err != nil {
				return vt.Failf("remap-error", "Remap failed: %v", err)
			}
			pool := remapPool(w.c.Nodes[node].capacity().CPUMap, w.expected(node).CPUMap, w.c.ShareBase)
			if f := checkRemap(x, ans, ids, recs, pool, len(w.c.Nodes[node].Cap)); f != nil {
				f.Msg = fmt.Sprintf("node %d after the script: %s", node, f.Msg)
				return f
			}
		}
		return nil
	})
	if bookkeeping != nil && strings.HasPrefix(bookkeeping.Key, "usage!=sum") || bookkeeping != nil && strings.HasPrefix(bookkeeping.Key, "rollback-") {
		// a bookkeeping violation is C08's to report; the remap reference needs exact books
		x.Label("skipped:bookkeeping-violation")
		return nil
	}
	return bookkeeping
}

var propC32History = vt.Prop[C08Case]{ID: "C32", Test: "TestC32History", Gen: genC08, Run: runC32History}

func TestC32History(t *testing.T) {
	setup(t)
	propC32History.Check(t)
}
