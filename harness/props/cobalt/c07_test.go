// C07 — the deploy capacity reported for a node is exactly the largest instance count that an
// allocation on that node accepts; zero-capacity nodes are not offered; the total is the
// saturating sum of the offered capacities; for memory-only requests allocating k instances
// lowers the reported capacity by exactly k.
//
// Real cobalt.Manager + real cpumem plugin on the embedded etcd; optionally a second (fake)
// plugin that caps the per-node capacity, which is the only way to get unlimited and finite
// capacities side by side (the manager's saturating total).
package cobalt

import (
	"context"
	"fmt"
	"math"
	"testing"

	"github.com/cockroachdb/errors"
	"pgregory.net/rapid"

	"github.com/projecteru2/core/resource/plugins"
	plugintypes "github.com/projecteru2/core/resource/plugins/types"
	resourcetypes "github.com/projecteru2/core/resource/types"

	"verif/internal/vt"
)

// Req is a workload resource request in pieces (CPU) and memory units.
type Req struct {
	Bind     bool  `json:"bind"`
	CPU      int   `json:"cpu"`       // pieces; request = cpu/shareBase (0 = none, memory-only requests only)
	CPULimit int   `json:"cpu_limit"` // pieces; 0 = not given
	Mem      int64 `json:"mem"`       // 0 = unlimited
	MemLimit int64 `json:"mem_limit"`
}

func (r Req) params(shareBase int) resourcetypes.RawParams {
	p := resourcetypes.RawParams{"cpu-bind": r.Bind, "memory-request": r.Mem, "memory-limit": r.MemLimit}
	if r.CPU > 0 {
		p["cpu-request"] = cpuReq(r.CPU, shareBase)
	} else if r.CPU < 0 {
		p["cpu-request"] = float64(r.CPU) / float64(shareBase)
	}
	if r.CPULimit > 0 {
		p["cpu-limit"] = cpuReq(r.CPULimit, shareBase)
	}
	return p
}

// C07Case is one capacity query on 1–4 generated nodes plus the allocation probes.
type C07Case struct {
	ShareBase int    `json:"share_base"`
	MaxShare  int    `json:"max_share"`
	Nodes     []Node `json:"nodes"`
	Req       Req    `json:"req"`
	// FakeCaps, when non-empty, adds a second plugin answering these per-node capacities
	// (0 = node not offered, math.MaxInt = unlimited) and accepting exactly count <= cap.
	FakeCaps []int `json:"fake_caps,omitempty"`
	Probe    []int `json:"probe"`     // per node: an extra count, must be accepted iff <= capacity
	K        []int `json:"k"`         // per node: metamorphic allocation size (memory-only requests)
	BigCount int   `json:"big_count"` // the sample count standing for "any count" on unlimited nodes
}

type capPlugin struct {
	plugins.Plugin
	caps map[string]int
}

func (f *capPlugin) Name() string { return "capper" }

func (f *capPlugin) GetNodesDeployCapacity(_ context.Context, nodenames []string, _ plugintypes.WorkloadResourceRequest) (*plugintypes.GetNodesDeployCapacityResponse, error) {
	resp := &plugintypes.GetNodesDeployCapacityResponse{NodeDeployCapacityMap: map[string]*plugintypes.NodeDeployCapacity{}}
	for _, n := range nodenames {
		if c := f.caps[n]; c > 0 {
			resp.NodeDeployCapacityMap[n] = &plugintypes.NodeDeployCapacity{Capacity: c, Weight: 1}
		}
	}
	return resp, nil
}

func (f *capPlugin) CalculateDeploy(_ context.Context, nodename string, deployCount int, _ plugintypes.WorkloadResourceRequest) (*plugintypes.CalculateDeployResponse, error) {
	if deployCount > f.caps[nodename] {
		return nil, errors.New("capper: insufficient capacity")
	}
	resp := &plugintypes.CalculateDeployResponse{}
	for i := 0; i < deployCount; i++ {
		resp.EnginesParams = append(resp.EnginesParams, plugintypes.EngineParams{})
		resp.WorkloadsResource = append(resp.WorkloadsResource, plugintypes.WorkloadResource{})
	}
	return resp, nil
}

func (f *capPlugin) SetNodeResourceUsage(context.Context, string, plugintypes.NodeResource, plugintypes.NodeResourceRequest, []plugintypes.WorkloadResource, bool, bool) (*plugintypes.SetNodeResourceUsageResponse, error) {
	return &plugintypes.SetNodeResourceUsageResponse{}, nil
}

func genMaxShare(t *rapid.T) int {
	switch k := vt.Pct(t, "maxShare"); {
	case k < 50:
		return -1
	case k < 85:
		return rapid.IntRange(1, 4).Draw(t, "maxShareSmall")
	default:
		return 8
	}
}

// genReq draws a request for nodes with memory unit `unit`.
func genReq(t *rapid.T, shareBase int, unit int64, bind bool) Req {
	r := Req{Bind: bind}
	minK := 1
	if shareBase >= 100 {
		minK = shareBase / 20 // keeps plan counts (and Alloc sizes) in the hundreds at most
	}
	if bind {
		switch k := vt.Pct(t, "cpuKind"); {
		case k < 30:
			r.CPU = shareBase * rapid.IntRange(1, 3).Draw(t, "cpuFull")
		case k < 55:
			r.CPU = rapid.IntRange(minK, shareBase-1+minK).Draw(t, "cpuFrag")
		default:
			r.CPU = rapid.IntRange(minK, 3*shareBase).Draw(t, "cpuAny")
		}
	} else {
		switch k := vt.Pct(t, "cpuKindMem"); {
		case k < 35:
			r.CPU = 0
		case k < 85:
			r.CPU = rapid.IntRange(1, 4*shareBase).Draw(t, "cpuMemSmall")
		default:
			r.CPU = shareBase*rapid.IntRange(1, 9).Draw(t, "cpuMemCores") + rapid.IntRange(0, 1).Draw(t, "cpuMemPlus")
		}
	}
	switch k := vt.Pct(t, "cpuLimitKind"); {
	case k < 50:
		r.CPULimit = 0
	case k < 75:
		r.CPULimit = r.CPU
	default:
		r.CPULimit = rapid.IntRange(1, 3*shareBase).Draw(t, "cpuLimit")
	}
	if bind && r.CPULimit > r.CPU {
		// Validate raises a bound request to its limit: keep the effective request in the bounded range
		r.CPULimit = r.CPU
	}
	switch k := vt.Pct(t, "memKind"); {
	case k < 20:
		r.Mem = 0
	case k < 75:
		r.Mem = unit * rapid.Int64Range(1, 8).Draw(t, "memSmall")
	default:
		r.Mem = unit * rapid.Int64Range(1, 130).Draw(t, "memAny")
	}
	switch k := vt.Pct(t, "memLimitKind"); {
	case k < 50:
		r.MemLimit = 0
	case k < 75:
		r.MemLimit = r.Mem
	default:
		r.MemLimit = unit * rapid.Int64Range(0, 130).Draw(t, "memLimit")
	}
	return r
}

// steerMaxShare avoids the planner panic owned by the cpumem planning group (maxShare smaller
// than the number of fragment cores with a request below one core).
func steerMaxShare(maxShare, shareBase int, effCPU int) int {
	if steerPlanner && maxShare >= 0 && effCPU < shareBase {
		return -1
	}
	return maxShare
}

func genC07(t *rapid.T) C07Case {
	c := C07Case{ShareBase: rapid.SampledFrom(shareBases).Draw(t, "shareBase")}
	c.MaxShare = genMaxShare(t)
	nn := rapid.IntRange(1, 4).Draw(t, "nodes")
	unit := genUnit(t)
	for i := 0; i < nn; i++ {
		c.Nodes = append(c.Nodes, genNode(t, c.ShareBase, 0, unit))
	}
	c.Req = genReq(t, c.ShareBase, unit, vt.Chance(t, "bind", 50))
	if vt.Chance(t, "invalid", 3) {
		switch rapid.IntRange(0, 2).Draw(t, "invalidKind") {
		case 0:
			c.Req.Mem = -1
		case 1:
			c.Req.CPU = -1
		default:
			c.Req.Bind, c.Req.CPU, c.Req.CPULimit = true, 0, 0
		}
	}
	c.MaxShare = steerMaxShare(c.MaxShare, c.ShareBase, max(c.Req.CPU, c.Req.CPULimit))
	if vt.Chance(t, "fake", 30) {
		if vt.Chance(t, "fakeUnlimitedReq", 50) {
			// memory-only without a memory request: cpumem answers "unlimited", the second plugin decides
			c.Req.Bind, c.Req.Mem, c.Req.MemLimit = false, 0, 0
			if c.Req.CPU > c.ShareBase {
				c.Req.CPU = 0
			}
		}
		for i := 0; i < nn; i++ {
			switch k := vt.Pct(t, "fakeKind"); {
			case k < 15:
				c.FakeCaps = append(c.FakeCaps, 0)
			case k < 50:
				c.FakeCaps = append(c.FakeCaps, math.MaxInt)
			default:
				c.FakeCaps = append(c.FakeCaps, rapid.IntRange(1, 40).Draw(t, "fakeCap"))
			}
		}
	}
	for i := 0; i < nn; i++ {
		c.Probe = append(c.Probe, rapid.IntRange(1, 200).Draw(t, "probe"))
		c.K = append(c.K, rapid.IntRange(1, 30).Draw(t, "k"))
	}
	c.BigCount = rapid.IntRange(50, 1500).Draw(t, "bigCount")
	return c
}

func runC07(x *vt.Ctx, c C07Case) *vt.Finding {
	p := fx.plugin(c.ShareBase, c.MaxShare)
	names := fx.names(len(c.Nodes))
	defer fx.drop(names)
	ps := []plugins.Plugin{p}
	if len(c.FakeCaps) > 0 {
		fc := &capPlugin{caps: map[string]int{}}
		for i, n := range names {
			if i < len(c.FakeCaps) {
				fc.caps[n] = c.FakeCaps[i]
			}
		}
		ps = append(ps, fc)
		x.Label("second-plugin")
	}
	m := fx.manager(c.ShareBase, c.MaxShare, ps...)
	for i, n := range c.Nodes {
		n.write(p, names[i], c.ShareBase)
	}
	opts := resourcetypes.Resources{pluginName: c.Req.params(c.ShareBase)}
	kind := "memory-only"
	if c.Req.Bind {
		kind = "bound"
	}
	x.Label("request=%s", kind)

	caps, total, err := m.GetNodesDeployCapacity(ctx, names, opts)
	notInfra(err)
	if err != nil {
		// an invalid request: no allocation may be accepted either
		x.Label("capacity-query-refused")
		for _, n := range names {
			if _, _, aerr := m.Alloc(ctx, n, 1, opts); aerr == nil {
				return vt.Failf("refused-query-but-alloc-accepted", "capacity query failed (%v) but Alloc(%s,1) was accepted", err, n)
			}
		}
		return nil
	}

	// total = saturating sum of the offered capacities
	wantTotal := 0
	hasUnl, hasFin := false, false
	for _, n := range names {
		info, ok := caps[n]
		if !ok {
			continue
		}
		if info == nil || info.Capacity <= 0 {
			return vt.Failf("zero-capacity-offered", "node %s offered with capacity %+v", n, info)
		}
		if info.Capacity == math.MaxInt {
			hasUnl = true
		} else {
			hasFin = true
		}
		if wantTotal > math.MaxInt-info.Capacity {
			wantTotal = math.MaxInt
		} else {
			wantTotal += info.Capacity
		}
	}
	if len(caps) > len(names) {
		return vt.Failf("unknown-node-offered", "answer has %d nodes for %d asked", len(caps), len(names))
	}
	if hasUnl && hasFin {
		x.Label("unlimited+finite")
	}
	if total != wantTotal {
		return vt.Failf("total-not-saturating-sum", "total %d, saturating sum of offered capacities %d", total, wantTotal)
	}

	alloc := func(i, count int) ([]resourcetypes.Resources, error) {
		recs, _, err := m.Alloc(ctx, names[i], count, opts)
		notInfra(err)
		return recs, err
	}
	restore := func(i int) { c.Nodes[i].write(p, names[i], c.ShareBase) }

	for i, n := range names {
		capN := 0
		if info, ok := caps[n]; ok {
			capN = info.Capacity
		}
		node := c.Nodes[i]
		switch {
		case capN == 0:
			x.Label("cap=0")
		case capN == math.MaxInt:
			x.Label("cap=unlimited")
		default:
			x.Label("cap=finite")
		}
		if node.hasNUMA() && c.Req.Bind {
			x.Label("bound-on-numa")
		}
		// accept side
		if capN >= 1 {
			count := capN
			if capN == math.MaxInt {
				count = max(c.BigCount, 1)
			}
			recs, err := alloc(i, count)
			if err != nil {
				return vt.Failf(fmt.Sprintf("capacity-not-accepted:%s", kind), "node %s (%+v) reports capacity %d for %+v but Alloc(%d) is refused: %v", n, node, capN, c.Req, count, err)
			}
			if len(recs) != count {
				return vt.Failf("alloc-wrong-count", "Alloc(%d) returned %d records", count, len(recs))
			}
			restore(i)
		}
		// reject side
		if capN < math.MaxInt {
			if _, err := alloc(i, capN+1); err == nil {
				return vt.Failf(fmt.Sprintf("capacity+1-accepted:%s", kind), "node %s (%+v) reports capacity %d for %+v but Alloc(%d) is accepted", n, node, capN, c.Req, capN+1)
			}
			restore(i)
			if capN >= 1 {
				x.NonTrivial() // both sides exercised on a node with capacity >= 1
			}
		}
		// one more count somewhere else
		if i < len(c.Probe) && c.Probe[i] >= 1 {
			pc := c.Probe[i]
			_, err := alloc(i, pc)
			if (err == nil) != (pc <= capN) {
				return vt.Failf(fmt.Sprintf("probe-disagrees:%s", kind), "node %s (%+v) reports capacity %d for %+v but Alloc(%d) accepted=%v", n, node, capN, c.Req, pc, err == nil)
			}
			restore(i)
		}
		// metamorphic: memory-only, allocate k, capacity drops by exactly k
		if !c.Req.Bind && capN >= 1 && i < len(c.K) && c.K[i] >= 1 {
			k := min(c.K[i], capN)
			if _, err := alloc(i, k); err != nil {
				return vt.Failf("capacity-not-accepted:memory-only", "node %s reports capacity %d but Alloc(%d) is refused: %v", n, capN, k, err)
			}
			caps2, _, err := m.GetNodesDeployCapacity(ctx, []string{n}, opts)
			notInfra(err)
			if err != nil {
				return vt.Failf("capacity-query-failed-after-alloc", "%v", err)
			}
			after := 0
			if info, ok := caps2[n]; ok {
				after = info.Capacity
			}
			want := capN - k
			if capN == math.MaxInt {
				want = math.MaxInt // unlimited stays unlimited
				x.Label("metamorphic:unlimited")
			} else {
				x.Label("metamorphic:finite")
				if want == 0 {
					x.Label("metamorphic:to-zero")
				}
			}
			// the second plugin's capacity does not move with allocations: the drop is exact
			// only where cpumem is the binding constraint, otherwise the minimum stays put
			if len(c.FakeCaps) > 0 {
				want = -1
			}
			if want >= 0 && after != want {
				return vt.Failf("alloc-k-does-not-lower-capacity-by-k", "node %s: capacity %d, after Alloc(%d) capacity %d, expected %d (request %+v, node %+v)", n, capN, k, after, want, c.Req, node)
			}
			restore(i)
		}
	}
	return nil
}

var propC07 = vt.Prop[C07Case]{ID: "C07", Test: "TestC07", Gen: genC07, Run: runC07}

func TestC07(t *testing.T) {
	setup(t)
	propC07.Check(t)
}
