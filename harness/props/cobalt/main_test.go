// Package cobalt holds the properties about the resource manager (resource/cobalt) working with
// the real cpumem plugin on the embedded etcd: C07 (reported capacity = what allocation accepts),
// C08 (bookkeeping exact and reversible), C09 (multi-plugin merge independent of order),
// C15 (repair restores consistent usage), C32 (remap pool for unbound workloads).
//
// Shared here: the fixture (one embedded etcd per Go test function, fresh node names per case),
// the node-state generator, the harness's own reader of the plugin's raw node record and the
// harness's own sum over workload resource records.
package cobalt

import (
	"context"
	"encoding/json"
	"fmt"
	"math"
	"os"
	"sort"
	"strconv"
	"strings"
	"testing"
	"time"

	clientv3 "go.etcd.io/etcd/client/v3"
	"pgregory.net/rapid"

	"github.com/projecteru2/core/resource/cobalt"
	"github.com/projecteru2/core/resource/plugins"
	"github.com/projecteru2/core/resource/plugins/cpumem"
	plugintypes "github.com/projecteru2/core/resource/plugins/types"
	resourcetypes "github.com/projecteru2/core/resource/types"
	"github.com/projecteru2/core/store/etcdv3/embedded"
	"github.com/projecteru2/core/store/etcdv3/meta"
	coretypes "github.com/projecteru2/core/types"

	"verif/internal/vt"
)

func TestMain(m *testing.M) { vt.Main(m) }

const (
	etcdPrefix = "/verif-cobalt"
	pluginName = "cpumem"
	rawKeyFmt  = "/resource/cpumem/%s" // the plugin's key layout (cpumem.go: nodeResourceInfoKey)
)

var ctx = context.Background()

// ------------------------------------------------------------------------------ fixture

// fixture is one embedded etcd (the repo's embedded.NewCluster keys clusters by t.Name(), so one
// per Go test function) plus a raw KV client on the same namespace.
type fixture struct {
	t    *testing.T
	kv   *meta.ETCD
	cli  *clientv3.Client
	seq  int
	test string
}

var fx *fixture

func setup(t *testing.T) {
	kv, err := meta.NewETCD(coretypes.EtcdConfig{Prefix: etcdPrefix}, t)
	if err != nil {
		t.Fatalf("embedded etcd: %v", err)
	}
	fx = &fixture{t: t, kv: kv, test: t.Name()}
	// the same cluster object (cached by t.Name() inside embedded.NewCluster): used only to keep
	// the data directory small over long runs
	fx.cli = embedded.NewCluster(t, etcdPrefix).RandClient()
}

// housekeeping compacts and defragments the embedded etcd every few thousand cases; every case
// leaves a dozen dead revisions behind and a thorough shard runs for tens of thousands of cases.
func (f *fixture) housekeeping() {
	if f.cli == nil || f.seq%4000 != 0 {
		return
	}
	resp, err := f.cli.Get(ctx, "/housekeeping")
	if err != nil {
		return
	}
	if _, err := f.cli.Compact(ctx, resp.Header.Revision); err != nil {
		return
	}
	for _, ep := range f.cli.Endpoints() {
		_, _ = f.cli.Defragment(ctx, ep)
	}
}

// setupNoEtcd is the fixture for properties that only need the manager (C09).
func setupNoEtcd(t *testing.T) { fx = &fixture{t: t, test: t.Name()} }

func config(shareBase, maxShare int) coretypes.Config {
	return coretypes.Config{
		GlobalTimeout: 5 * time.Minute, // never the oracle: only bounds utils.PCR's contexts
		Etcd:          coretypes.EtcdConfig{Prefix: etcdPrefix},
		Scheduler:     coretypes.SchedulerConfig{MaxShare: maxShare, ShareBase: shareBase},
	}
}

// plugin builds a real cpumem plugin with the given scheduler configuration on the fixture's etcd.
func (f *fixture) plugin(shareBase, maxShare int) *cpumem.Plugin {
	p, err := cpumem.NewPlugin(ctx, config(shareBase, maxShare), f.t)
	if err != nil {
		panic(fmt.Sprintf("harness: NewPlugin: %v", err))
	}
	return p
}

// manager wires a real cobalt.Manager exactly like cluster/calcium does (cobalt.New + AddPlugins).
func (f *fixture) manager(shareBase, maxShare int, ps ...plugins.Plugin) *cobalt.Manager {
	m, err := cobalt.New(config(shareBase, maxShare))
	if err != nil {
		panic(fmt.Sprintf("harness: cobalt.New: %v", err))
	}
	m.AddPlugins(ps...)
	return m
}

// names returns n fresh node names (never reused inside a test process).
func (f *fixture) names(n int) []string {
	f.seq++
	f.housekeeping()
	out := make([]string, n)
	for i := range out {
		out[i] = fmt.Sprintf("n%d-%d", f.seq, i)
	}
	return out
}

// drop removes the raw records of the nodes (keeps etcd small over long runs).
func (f *fixture) drop(names []string) {
	for _, n := range names {
		_, _ = f.kv.Delete(ctx, fmt.Sprintf(rawKeyFmt, n))
	}
}

// ------------------------------------------------------------------------------ raw record

// Res is the harness's own view of one side (capacity / usage) of the plugin's node record.
type Res struct {
	CPU     float64           `json:"cpu"`
	CPUMap  map[string]int64  `json:"cpu_map"`
	Memory  int64             `json:"memory"`
	NUMAMem map[string]int64  `json:"numa_memory"`
	NUMA    map[string]string `json:"numa"`
}

type rawRecord struct {
	Capacity Res `json:"capacity"`
	Usage    Res `json:"usage"`
}

// raw reads the record the plugin keeps for a node directly from etcd.
func (f *fixture) raw(node string) rawRecord {
	kvp, err := f.kv.GetOne(ctx, fmt.Sprintf(rawKeyFmt, node))
	for attempt := 0; err != nil && isInfra(err) && attempt < 3; attempt++ {
		kvp, err = f.kv.GetOne(ctx, fmt.Sprintf(rawKeyFmt, node))
	}
	if err != nil {
		panic(fmt.Sprintf("harness: raw record of %s: %v", node, err))
	}
	var r rawRecord
	if err := json.Unmarshal(kvp.Value, &r); err != nil {
		panic(fmt.Sprintf("harness: raw record of %s: %v: %s", node, err, kvp.Value))
	}
	return r
}

func (r Res) params() plugintypes.NodeResource {
	cm := map[string]int64{}
	for k, v := range r.CPUMap {
		cm[k] = v
	}
	nm := map[string]int64{}
	for k, v := range r.NUMAMem {
		nm[k] = v
	}
	nu := map[string]string{}
	for k, v := range r.NUMA {
		nu[k] = v
	}
	return plugintypes.NodeResource{"cpu": r.CPU, "cpu_map": cm, "memory": r.Memory, "numa_memory": nm, "numa": nu}
}

// sumRecords is the harness's own sum over workload resource records (as stored with a workload:
// cpu_request, cpu_map, memory_request, numa_memory).
func sumRecords(recs []plugintypes.WorkloadResource) Res {
	s := Res{CPUMap: map[string]int64{}, NUMAMem: map[string]int64{}}
	for _, r := range recs {
		w := parseRecord(r)
		s.CPU += w.CPURequest
		s.Memory += w.MemoryRequest
		for c, p := range w.CPUMap {
			s.CPUMap[c] += p
		}
		for n, m := range w.NUMAMemory {
			s.NUMAMem[n] += m
		}
	}
	return s
}

// wrec is a workload resource record as the harness reads it (own struct, own JSON decoding).
type wrec struct {
	CPURequest    float64          `json:"cpu_request"`
	CPULimit      float64          `json:"cpu_limit"`
	MemoryRequest int64            `json:"memory_request"`
	MemoryLimit   int64            `json:"memory_limit"`
	CPUMap        map[string]int64 `json:"cpu_map"`
	NUMAMemory    map[string]int64 `json:"numa_memory"`
	NUMANode      string           `json:"numa_node"`
}

func parseRecord(r plugintypes.WorkloadResource) wrec {
	b, err := json.Marshal(r)
	if err != nil {
		panic(fmt.Sprintf("harness: record %v: %v", r, err))
	}
	var w wrec
	if err := json.Unmarshal(b, &w); err != nil {
		panic(fmt.Sprintf("harness: record %s: %v", b, err))
	}
	return w
}

// viaStore passes a record through JSON the way the metadata store does with a workload's
// resources (numbers come back as float64, maps as map[string]any).
func viaStore(r resourcetypes.RawParams) resourcetypes.RawParams {
	b, err := json.Marshal(r)
	if err != nil {
		panic(fmt.Sprintf("harness: record %v: %v", r, err))
	}
	out := resourcetypes.RawParams{}
	if err := json.Unmarshal(b, &out); err != nil {
		panic(err)
	}
	return out
}

// diffRes compares a usage side with an expected one: CPU total within tol, everything else
// exact, an absent map key is 0. Returns "" when equal, else the first differing dimension
// (also used as part of finding keys) and a description.
func diffRes(got, want Res, tol float64) (dim, msg string) {
	if math.Abs(got.CPU-want.CPU) > tol {
		return "cpu", fmt.Sprintf("cpu %v != %v", got.CPU, want.CPU)
	}
	if got.Memory != want.Memory {
		return "memory", fmt.Sprintf("memory %d != %d", got.Memory, want.Memory)
	}
	for _, k := range unionKeys(got.CPUMap, want.CPUMap) {
		if got.CPUMap[k] != want.CPUMap[k] {
			return "cpu_map", fmt.Sprintf("cpu_map[%s] %d != %d", k, got.CPUMap[k], want.CPUMap[k])
		}
	}
	for _, k := range unionKeys(got.NUMAMem, want.NUMAMem) {
		if got.NUMAMem[k] != want.NUMAMem[k] {
			return "numa_memory", fmt.Sprintf("numa_memory[%s] %d != %d", k, got.NUMAMem[k], want.NUMAMem[k])
		}
	}
	return "", ""
}

func unionKeys(a, b map[string]int64) []string {
	seen := map[string]bool{}
	var ks []string
	for k := range a {
		if !seen[k] {
			seen[k] = true
			ks = append(ks, k)
		}
	}
	for k := range b {
		if !seen[k] {
			seen[k] = true
			ks = append(ks, k)
		}
	}
	sort.Strings(ks)
	return ks
}

// ------------------------------------------------------------------------------ node states

// Node is a generated node state (capacity and usage) as written through
// Plugin.SetNodeResourceInfo, i.e. only states the plugin's own Validate accepts.
type Node struct {
	Cap     []int   `json:"cap"`      // pieces per core; core ids are "0".."n-1"
	Used    []int   `json:"used"`     // used pieces per core (<= cap)
	NUMA    []int   `json:"numa"`     // numa node per core (0/1), empty = no NUMA topology
	NUMACap []int64 `json:"numa_cap"` // per numa node memory capacity
	NUMAUse []int64 `json:"numa_use"` // per numa node memory usage (bound workloads)
	MemCap  int64   `json:"mem_cap"`
	MemUsed int64   `json:"mem_used"`
}

func (n Node) hasNUMA() bool { return len(n.NUMA) > 0 }

func (n Node) capacity() Res {
	r := Res{CPU: float64(len(n.Cap)), CPUMap: map[string]int64{}, Memory: n.MemCap, NUMAMem: map[string]int64{}, NUMA: map[string]string{}}
	for i, c := range n.Cap {
		r.CPUMap[strconv.Itoa(i)] = int64(c)
	}
	for i, nn := range n.NUMA {
		r.NUMA[strconv.Itoa(i)] = strconv.Itoa(nn)
	}
	for i, m := range n.NUMACap {
		r.NUMAMem[strconv.Itoa(i)] = m
	}
	return r
}

func (n Node) usage(shareBase int) Res {
	r := Res{CPUMap: map[string]int64{}, Memory: n.MemUsed, NUMAMem: map[string]int64{}, NUMA: map[string]string{}}
	tot := 0
	for i, u := range n.Used {
		r.CPUMap[strconv.Itoa(i)] = int64(u)
		tot += u
	}
	r.CPU = float64(tot) / float64(shareBase)
	for i, m := range n.NUMAUse {
		r.NUMAMem[strconv.Itoa(i)] = m
	}
	return r
}

// write stores the node state through the plugin's own SetNodeResourceInfo.
func (n Node) write(p *cpumem.Plugin, name string, shareBase int) {
	var err error
	for attempt := 0; attempt < 4; attempt++ {
		if _, err = p.SetNodeResourceInfo(ctx, name, n.capacity().params(), n.usage(shareBase).params()); err == nil || !isInfra(err) {
			break
		}
	}
	if err != nil {
		panic(fmt.Sprintf("harness: SetNodeResourceInfo rejected a generated state %+v: %v", n, err))
	}
}

// isInfra recognises failures of the embedded etcd itself (a loaded machine makes it time out).
// They say nothing about the property: the case is abandoned with a harness panic, which the
// driver reports as inconclusive (exit 2), never as a violation.
func isInfra(err error) bool {
	if err == nil {
		return false
	}
	s := err.Error()
	for _, pat := range []string{"etcdserver:", "request timed out", "context deadline exceeded", "context canceled", "connection refused", "transport is closing", "mvcc:"} {
		if strings.Contains(s, pat) {
			return true
		}
	}
	return false
}

// notInfra panics on an infrastructure error; used before an error is turned into a finding.
func notInfra(err error) {
	if isInfra(err) {
		panic(fmt.Sprintf("harness: infrastructure error, case abandoned: %v", err))
	}
}

var shareBases = []int{100, 10, 1000, 7}

// steerPlanner (VERIF_STEER_PLANNER=1) keeps the generators out of the regions where the CPU
// planner of the *unfixed* tree panics or does not return (fixed on main by f227fb6, 6af3126,
// f5620c2, a7cecff): max-share below the number of fragment cores with a request below one
// core, bound requests below one piece, NUMA nodes whose free memory is below the sum of their
// free NUMA memories. Off by default: the integrated tree has those fixes and the regions are
// explored.
var steerPlanner = os.Getenv("VERIF_STEER_PLANNER") == "1"

// memory grid: small numbers so that divisions have remainders and exact fits both happen
func genMem(t *rapid.T, label string, lo, hi int64) int64 {
	if hi < lo {
		hi = lo
	}
	return rapid.Int64Range(lo, hi).Draw(t, label)
}

// genNode draws a node state. Usage is consistent with *some* population of workloads: per-core
// usage <= capacity (biased to partially used fragment cores), NUMA usage <= NUMA capacity,
// memory usage = NUMA usage + memory of unbound workloads <= capacity.
//
// Steering (defects owned by the cpumem planning group, see REPORT): memory usage never exceeds
// capacity; with NUMA the free memory is never below the sum of the free NUMA memories unless
// allowNUMAOvercommit (the per-NUMA plans are cut by NUMA memory only and the cross-NUMA stage
// then slices with a negative bound).
func genNode(t *rapid.T, shareBase int, forceNUMA int, unit int64) Node {
	var n Node
	cores := rapid.IntRange(1, 8).Draw(t, "cores")
	if vt.Chance(t, "fewCores", 40) {
		cores = rapid.IntRange(1, 4).Draw(t, "cores4")
	}
	capKind := vt.Pct(t, "capKind")
	for i := 0; i < cores; i++ {
		var c int
		switch {
		case capKind < 60:
			c = shareBase
		case capKind < 80:
			c = shareBase * rapid.IntRange(1, 2).Draw(t, "capMul")
		default:
			c = rapid.IntRange(1, 3*shareBase).Draw(t, "capAny")
		}
		n.Cap = append(n.Cap, c)
		var u int
		switch k := vt.Pct(t, "useKind"); {
		case k < 40:
			u = 0
		case k < 55:
			u = c
		case k < 70 && c >= shareBase:
			u = c - shareBase + rapid.IntRange(0, shareBase).Draw(t, "useFrag")
			if u > c {
				u = c
			}
		default:
			u = rapid.IntRange(0, c).Draw(t, "useAny")
		}
		n.Used = append(n.Used, u)
	}
	withNUMA := forceNUMA == 1 || (forceNUMA == 0 && cores >= 2 && vt.Chance(t, "numa", 45))
	if cores < 2 {
		withNUMA = false
	}
	if withNUMA {
		for i := 0; i < cores; i++ {
			nn := rapid.IntRange(0, 1).Draw(t, "numaOf")
			n.NUMA = append(n.NUMA, nn)
		}
		// both NUMA nodes must own a core for the partition to be a topology
		n.NUMA[0], n.NUMA[cores-1] = 0, 1
		var sumCap, sumFree int64
		for i := 0; i < 2; i++ {
			c := genMem(t, "numaCap", 8, 64)
			if vt.Chance(t, "numaTiny", 12) {
				c = genMem(t, "numaCapTiny", 0, 8)
			}
			u := genMem(t, "numaUse", 0, c)
			if vt.Chance(t, "numaIdle", 40) {
				u = 0
			}
			n.NUMACap = append(n.NUMACap, c*unit)
			n.NUMAUse = append(n.NUMAUse, u*unit)
			sumCap += c
			sumFree += c - u
		}
		slack := int64(0)
		if vt.Chance(t, "memSlack", 60) {
			slack = genMem(t, "slack", 0, 64)
		}
		unbound := genMem(t, "unbound", 0, slack)
		if !steerPlanner && vt.Chance(t, "unboundBeyondSlack", 35) {
			// memory of unbound workloads eats into what the NUMA nodes still show as free:
			// free memory < sum of free NUMA memories
			unbound = genMem(t, "unboundAny", 0, slack+sumFree)
		}
		n.MemCap = (sumCap + slack) * unit
		n.MemUsed = (sumCap - sumFree + unbound) * unit
	} else {
		c := genMem(t, "memCap", 16, 128)
		if vt.Chance(t, "memTiny", 10) {
			c = genMem(t, "memCapTiny", 0, 16)
		}
		u := genMem(t, "memUse", 0, c)
		if vt.Chance(t, "memIdle", 30) {
			u = 0
		}
		n.MemCap, n.MemUsed = c*unit, u*unit
	}
	return n
}

// genUnit draws the memory unit of a case: all memory quantities of the case are small multiples
// of it, so that instance counts stay in the hundreds.
func genUnit(t *rapid.T) int64 {
	if vt.Chance(t, "memUnit", 30) {
		return 1 << 20
	}
	return 1
}

// cpuReq converts pieces to the request value k/shareBase and makes sure the plugin's own
// conversion int(req*shareBase) does not fall below one piece (sub-piece requests loop forever
// in the planner: a defect owned by the cpumem planning group).
func cpuReq(k, shareBase int) float64 {
	if k < 1 {
		k = 1
	}
	for steerPlanner && int(float64(k)/float64(shareBase)*float64(shareBase)) < 1 {
		k++
	}
	return float64(k) / float64(shareBase)
}
