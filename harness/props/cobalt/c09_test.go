// C09 — multi-plugin capacity aggregation is independent of plugin order.
//
// The manager is the real cobalt.Manager; the plugins are harness fakes with generated answers.
// Reference (written from the statement): a node is offered iff every plugin offers it, its
// capacity is the minimum, usage and rate are Σ wᵢ·vᵢ / Σ wᵢ over the plugins' answers for that
// node, total is the saturating sum of the offered capacities. The same query is repeated
// (the manager collects the answers in a Go map, so the merge order changes between calls).
package cobalt

import (
	"context"
	"fmt"
	"math"
	"sort"
	"testing"

	"pgregory.net/rapid"

	"github.com/projecteru2/core/resource/plugins"
	plugintypes "github.com/projecteru2/core/resource/plugins/types"
	resourcetypes "github.com/projecteru2/core/resource/types"

	"verif/internal/vt"
)

const unlimited = math.MaxInt

// FakeAnswer is one plugin's answer for one node.
type FakeAnswer struct {
	Node   string  `json:"node"`
	Cap    int     `json:"cap"` // >= 1; math.MaxInt = unlimited
	Usage  float64 `json:"usage"`
	Rate   float64 `json:"rate"`
	Weight float64 `json:"weight"` // > 0
}

// FakePlugin is the generated behaviour of one plugin.
type FakePlugin struct {
	Name    string       `json:"name"`
	NilMap  bool         `json:"nil_map,omitempty"` // answers with a nil map instead of an empty one when it offers nothing
	Answers []FakeAnswer `json:"answers"`
}

// C09Case is one manager configuration and the number of repetitions of the query.
type C09Case struct {
	Plugins []FakePlugin `json:"plugins"`
	Reps    int          `json:"reps"`
}

// fakePlugin implements plugins.Plugin; only Name and GetNodesDeployCapacity are reachable from
// Manager.GetNodesDeployCapacity (every other method panics through the nil embedded interface).
type fakePlugin struct {
	plugins.Plugin
	spec FakePlugin
}

func (f *fakePlugin) Name() string { return f.spec.Name }

func (f *fakePlugin) GetNodesDeployCapacity(_ context.Context, nodenames []string, _ plugintypes.WorkloadResourceRequest) (*plugintypes.GetNodesDeployCapacityResponse, error) {
	asked := map[string]bool{}
	for _, n := range nodenames {
		asked[n] = true
	}
	resp := &plugintypes.GetNodesDeployCapacityResponse{}
	if len(f.spec.Answers) > 0 || !f.spec.NilMap {
		resp.NodeDeployCapacityMap = map[string]*plugintypes.NodeDeployCapacity{}
	}
	for _, a := range f.spec.Answers {
		if !asked[a.Node] {
			continue
		}
		// a fresh struct per call: the manager works on the returned values in place
		resp.NodeDeployCapacityMap[a.Node] = &plugintypes.NodeDeployCapacity{Capacity: a.Cap, Usage: a.Usage, Rate: a.Rate, Weight: a.Weight}
		if resp.Total == unlimited || a.Cap == unlimited {
			resp.Total = unlimited
		} else {
			resp.Total += a.Cap
		}
	}
	return resp, nil
}

var c09Universe = []string{"na", "nb", "nc", "nd", "ne"}

func genWeight(t *rapid.T) float64 {
	switch k := vt.Pct(t, "wKind"); {
	case k < 35:
		return 1
	case k < 70:
		return 100
	case k < 85:
		return float64(rapid.IntRange(1, 20).Draw(t, "wInt"))
	default:
		return rapid.Float64Range(0.01, 500).Draw(t, "wFloat")
	}
}

func genC09(t *rapid.T) C09Case {
	var c C09Case
	np := rapid.IntRange(1, 4).Draw(t, "plugins")
	if vt.Chance(t, "two+", 60) {
		np = rapid.IntRange(2, 4).Draw(t, "plugins2")
	}
	for i := 0; i < np; i++ {
		p := FakePlugin{Name: fmt.Sprintf("p%d", i)}
		w := genWeight(t)
		// most plugins offer most nodes, so that intersections are usually non-empty
		dense := vt.Chance(t, "dense", 75)
		for _, n := range c09Universe {
			pr := 35
			if dense {
				pr = 85
			}
			if !vt.Chance(t, "offer", pr) {
				continue
			}
			a := FakeAnswer{Node: n, Weight: w}
			if vt.Chance(t, "ownWeight", 15) {
				a.Weight = genWeight(t)
			}
			switch k := vt.Pct(t, "capKind"); {
			case k < 25:
				a.Cap = unlimited
			case k < 35:
				a.Cap = rapid.IntRange(math.MaxInt/2, math.MaxInt-1).Draw(t, "hugeCap")
			default:
				a.Cap = rapid.IntRange(1, 50).Draw(t, "cap")
			}
			if rapid.Bool().Draw(t, "grid") {
				a.Usage = float64(rapid.IntRange(0, 20).Draw(t, "usage10")) / 10
				a.Rate = float64(rapid.IntRange(0, 20).Draw(t, "rate10")) / 10
			} else {
				a.Usage = rapid.Float64Range(0, 2).Draw(t, "usage")
				a.Rate = rapid.Float64Range(0, 2).Draw(t, "rate")
			}
			p.Answers = append(p.Answers, a)
		}
		if len(p.Answers) == 0 {
			p.NilMap = rapid.Bool().Draw(t, "nilMap")
		}
		c.Plugins = append(c.Plugins, p)
	}
	c.Reps = 24
	return c
}

type c09Want struct {
	cap         int
	usage, rate float64
}

// c09Reference computes the expected merge from the statement.
func c09Reference(c C09Case) (map[string]c09Want, int) {
	want := map[string]c09Want{}
	total := 0
	for _, n := range c09Universe {
		offered := true
		minCap := unlimited
		var sw, su, sr float64
		for _, p := range c.Plugins {
			var a *FakeAnswer
			for i := range p.Answers {
				if p.Answers[i].Node == n {
					a = &p.Answers[i]
				}
			}
			if a == nil {
				offered = false
				break
			}
			if a.Cap < minCap {
				minCap = a.Cap
			}
			sw += a.Weight
			su += a.Weight * a.Usage
			sr += a.Weight * a.Rate
		}
		if !offered {
			continue
		}
		want[n] = c09Want{cap: minCap, usage: su / sw, rate: sr / sw}
		if total > math.MaxInt-minCap {
			total = math.MaxInt
		} else {
			total += minCap
		}
	}
	return want, total
}

func relClose(a, b float64) bool {
	return math.Abs(a-b) <= 1e-9*math.Max(math.Abs(a), math.Abs(b))+1e-12
}

func runC09(x *vt.Ctx, c C09Case) *vt.Finding {
	ps := make([]plugins.Plugin, 0, len(c.Plugins))
	for _, p := range c.Plugins {
		ps = append(ps, &fakePlugin{spec: p})
	}
	m := fx.manager(100, -1, ps...)
	want, wantTotal := c09Reference(c)

	// classification
	x.Label("plugins=%d", len(c.Plugins))
	x.Label("offered=%d", len(want))
	weights := map[float64]bool{}
	hasUnl, hasFin := false, false
	for _, p := range c.Plugins {
		for _, a := range p.Answers {
			weights[a.Weight] = true
		}
		if len(p.Answers) == 0 {
			if p.NilMap {
				x.Label("plugin-offers-nothing:nil-map")
			} else {
				x.Label("plugin-offers-nothing:empty-map")
			}
		}
	}
	for _, w := range want {
		if w.cap == unlimited {
			hasUnl = true
		} else {
			hasFin = true
		}
	}
	if hasUnl && hasFin {
		x.Label("total:unlimited+finite")
	}
	if wantTotal == math.MaxInt && !hasUnl {
		x.Label("total:finite-sum-saturates")
	}
	if len(c.Plugins) >= 2 && len(weights) >= 2 && len(want) >= 1 {
		x.Label("different-weights+common-node")
		x.NonTrivial()
	}

	reps := c.Reps
	if reps < 1 {
		reps = 1
	}
	for rep := 0; rep < reps; rep++ {
		got, total, err := m.GetNodesDeployCapacity(ctx, c09Universe, resourcetypes.Resources{})
		if err != nil {
			return vt.Failf("error", "GetNodesDeployCapacity failed: %v", err)
		}
		names := make([]string, 0, len(got))
		for n := range got {
			names = append(names, n)
		}
		sort.Strings(names)
		for _, n := range names {
			if _, ok := want[n]; !ok {
				return vt.Failf("offered-although-a-plugin-does-not-offer-it", "rep %d: node %s offered (%+v) but not offered by every plugin", rep, n, *got[n])
			}
		}
		for _, n := range c09Universe {
			w, ok := want[n]
			if !ok {
				continue
			}
			g, ok := got[n]
			if !ok || g == nil {
				return vt.Failf("not-offered-although-every-plugin-offers-it", "rep %d: node %s missing, expected %+v", rep, n, w)
			}
			if g.Capacity != w.cap {
				return vt.Failf("capacity-not-min", "rep %d: node %s capacity %d, expected min %d", rep, n, g.Capacity, w.cap)
			}
			if !relClose(g.Usage, w.usage) {
				return vt.Failf(fmt.Sprintf("usage-not-weighted-average:plugins=%s", oneOrMany(len(c.Plugins))), "rep %d: node %s usage %v, expected Σwu/Σw = %v", rep, n, g.Usage, w.usage)
			}
			if !relClose(g.Rate, w.rate) {
				return vt.Failf(fmt.Sprintf("rate-not-weighted-average:plugins=%s", oneOrMany(len(c.Plugins))), "rep %d: node %s rate %v, expected Σwr/Σw = %v", rep, n, g.Rate, w.rate)
			}
		}
		if total != wantTotal {
			return vt.Failf("total-not-saturating-sum", "rep %d: total %d, expected saturating sum %d", rep, total, wantTotal)
		}
	}
	return nil
}

func oneOrMany(n int) string {
	if n == 1 {
		return "1"
	}
	return "many"
}

var propC09 = vt.Prop[C09Case]{ID: "C09", Test: "TestC09", Gen: genC09, Run: runC09}

func TestC09(t *testing.T) {
	setupNoEtcd(t)
	propC09.Check(t)
}
