package storettl

// C25 — "A node or workload status reported with a positive TTL is accepted only for an
// existing node or workload and stays visible until the TTL has elapsed since the latest
// report or the entity is removed. Reporting the same status again extends its lifetime, and
// a status with TTL zero never expires on its own."
//
// A case is a script over ONE entity (node or workload) on one back end. The oracle is the
// little model below, written from the statement only. Three tests share it:
//
//	TestC25Redis       miniredis, virtual time (FastForward): expiry decided exactly
//	TestC25Etcd        embedded etcd, lifetime decided by introspection of the status key's
//	                   lease (granted TTL, remaining TTL), a few >= 1.2 s real sleeps
//	TestC25EtcdExpiry  embedded etcd, real expiry: a batch of concurrent scenarios (TTL 2-3 s)

import (
	"bytes"
	"context"
	"errors"
	"fmt"
	"path/filepath"
	"sort"
	"strings"
	"sync"
	"testing"
	"time"

	goredis "github.com/go-redis/redis/v8"
	"pgregory.net/rapid"

	"github.com/projecteru2/core/store"
	"github.com/projecteru2/core/types"

	"verif/internal/stats"
	"verif/internal/vt"
)

// StatusStep is one step of a status history.
type StatusStep struct {
	Op  string `json:"op"`            // add | remove | cremove | report | del | advance | read
	Val int    `json:"val,omitempty"` // report: value variant (workload); add: pod variant (node)
	TTL int64  `json:"ttl,omitempty"` // report
	Ms  int    `json:"ms,omitempty"`  // advance
}

// StatusCase is one history on one entity.
type StatusCase struct {
	Backend string       `json:"backend"` // redis | etcd
	Kind    string       `json:"kind"`    // node | workload
	Steps   []StatusStep `json:"steps"`
}

// ExpiryCase is a batch of histories run concurrently on disjoint entities (real time).
type ExpiryCase struct {
	Scenarios []StatusCase `json:"scenarios"`
}

const (
	keyRedisNodeMissing = "redis:node:ttl-report-accepted-for-missing-entity"
	liveMargin          = 300 * time.Millisecond  // real time: "definitely still alive" margin
	deadMargin          = 2600 * time.Millisecond // real time: "should be gone by now" margin (then retried)
	deadRetry           = 25 * time.Second
)

// ---------------------------------------------------------------------------------------
// recorder (per scenario; merged into vt.Ctx)

type recorder struct {
	labels []string
	nt     bool
	logs   []string
}

func (r *recorder) label(f string, a ...any) { r.labels = append(r.labels, fmt.Sprintf(f, a...)) }
func (r *recorder) logf(f string, a ...any)  { r.logs = append(r.logs, fmt.Sprintf(f, a...)) }
func (r *recorder) flush(x *vt.Ctx) {
	seen := map[string]bool{}
	for _, l := range r.labels {
		if !seen[l] {
			seen[l] = true
			x.Label("%s", l)
		}
	}
	if r.nt {
		x.NonTrivial()
	}
	for _, l := range r.logs {
		x.Logf("%s", l)
	}
}

// ---------------------------------------------------------------------------------------
// the world a history runs in

type statusWorld struct {
	backend string
	st      store.Store
	rfix    *redisFix // redis
	efix    *etcdFix  // etcd
	virtual time.Duration
	start   time.Time
	base    *types.Node // host node of workload histories
}

func (w *statusWorld) isVirtual() bool { return w.rfix != nil }

func (w *statusWorld) now() time.Duration {
	if w.isVirtual() {
		return w.virtual
	}
	return time.Since(w.start)
}

func (w *statusWorld) advance(ms int) {
	if w.isVirtual() {
		w.rfix.srv.FastForward(time.Duration(ms) * time.Millisecond)
		w.virtual += time.Duration(ms) * time.Millisecond
		return
	}
	time.Sleep(time.Duration(ms) * time.Millisecond)
}

// entity under test
type entity struct {
	kind      string
	name      string // node name / workload id
	node      *types.Node
	workload  *types.Workload
	statusKey string // raw key (etcd introspection)
	hostNode  *types.Node
	hostPod   string
}

func podName(v int) string { return fmt.Sprintf("pod%c", 'a'+byte(v%2)) }

const hostName = "host0"

// ensureBase creates the two pods and the host node of workload histories once per store
// (redis: once per flushed case).
func ensureBase(st store.Store) *types.Node {
	ctx, cancel := callCtx()
	defer cancel()
	for v := 0; v < 2; v++ {
		if _, err := st.GetPod(ctx, podName(v)); err != nil {
			if _, err := st.AddPod(ctx, podName(v), ""); err != nil {
				panic(fmt.Sprintf("storettl: AddPod: %v", err))
			}
		}
	}
	n, err := st.GetNode(ctx, hostName)
	if err != nil {
		if n, err = st.AddNode(ctx, &types.AddNodeOptions{Nodename: hostName, Endpoint: "mock://" + hostName, Podname: podName(0)}); err != nil {
			panic(fmt.Sprintf("storettl: AddNode(host): %v", err))
		}
	}
	return n
}

func workloadValue(e *entity, val int) *types.StatusMeta {
	s := &types.StatusMeta{ID: e.workload.ID, Appname: "app", Entrypoint: "entry", Nodename: e.workload.Nodename}
	s.Running = val&1 != 0
	s.Healthy = val&2 != 0
	if val&4 != 0 {
		s.Networks = map[string]string{"net": "10.0.0.7"}
	}
	if val&8 != 0 {
		s.Extension = []byte("ext")
	}
	return s
}

// model of the statement for one entity
type statusModel struct {
	exists bool
	has    int // 0 no status, 1 reported, 2 unknown (entity removed by an API that does not own status clean-up)
	val    string
	ttl    int64
	at     time.Duration // start of the latest accepted report (the lease cannot start earlier)
	done   time.Duration // end of the latest accepted report (the lease cannot start later)

	refreshedOver time.Duration // > 0: latest report was a same-value re-report; deadline of the report before it
	refreshGap    time.Duration
}

func (m *statusModel) deadline() time.Duration { return m.at + time.Duration(m.ttl)*time.Second }

var ctxBG = context.Background()

func callCtx() (context.Context, context.CancelFunc) {
	return context.WithTimeout(ctxBG, 30*time.Second)
}

// observe returns (visible, value description) through the public read API.
func (w *statusWorld) observe(e *entity, m *statusModel) (bool, string, error) {
	ctx, cancel := callCtx()
	defer cancel()
	if e.kind == "node" {
		ns, err := w.st.GetNodeStatus(ctx, e.name)
		if err != nil {
			if errors.Is(err, types.ErrInvaildCount) || errors.Is(err, goredis.Nil) || strings.Contains(err.Error(), "redis: nil") {
				return false, "", nil // "no such key" of either back end
			}
			return false, "", err
		}
		return true, fmt.Sprintf("node=%s pod=%s alive=%v", ns.Nodename, ns.Podname, ns.Alive), nil
	}
	sm, err := w.st.GetWorkloadStatus(ctx, e.name)
	if err != nil {
		return false, "", err
	}
	if sm == nil {
		return false, "", nil
	}
	return true, descStatus(sm), nil
}

func descStatus(s *types.StatusMeta) string {
	var nets []string
	for k, v := range s.Networks {
		nets = append(nets, k+"="+v)
	}
	sort.Strings(nets)
	return fmt.Sprintf("id=%s running=%v healthy=%v nets=%s ext=%s", s.ID, s.Running, s.Healthy, strings.Join(nets, ","), string(bytes.TrimSpace(s.Extension)))
}

func nodeDesc(n *types.Node) string {
	return fmt.Sprintf("node=%s pod=%s alive=true", n.Name, n.Podname)
}

// check compares the store with the model at this moment.
func (w *statusWorld) check(e *entity, m *statusModel, rec *recorder, where string) *vt.Finding {
	if e.kind == "workload" && !m.exists {
		return nil // GetWorkloadStatus has nothing to say about a missing workload
	}
	pfx := w.backend + ":" + e.kind + ":"
	r0 := w.now()
	vis, val, err := w.observe(e, m)
	r1 := w.now()
	if err != nil {
		return vt.Failf(pfx+"read-error", "%s: reading the status of existing %s %s failed: %v", where, e.kind, e.name, err)
	}
	expect := 0 // 0 unconstrained, 1 visible, -1 invisible, -2 invisible (real-time upper bound, retried)
	switch {
	case m.has == 0:
		expect = -1
	case m.ttl == 0:
		if m.has == 1 {
			expect = 1
		}
	case w.isVirtual():
		if r1 < m.deadline() {
			if m.has == 1 {
				expect = 1
			}
		} else {
			expect = -1
		}
	default:
		switch {
		case r1 < m.deadline()-liveMargin:
			if m.has == 1 {
				expect = 1
			}
		case r0 > m.done+time.Duration(m.ttl)*time.Second+deadMargin:
			expect = -2
		default:
			rec.label("read=grey-zone")
		}
	}
	if vis && val != m.val && (m.has != 0) {
		return vt.Failf(pfx+"stale-value", "%s: status of %s shows %q, latest accepted report was %q", where, e.name, val, m.val)
	}
	switch expect {
	case 1:
		if !vis {
			return vt.Failf(pfx+"status-lost-before-ttl", "%s: status of %s (ttl %d, reported at %v..%v) is not visible at %v..%v although the TTL has not elapsed and the entity was not removed (re-reported over old deadline: %v)",
				where, e.name, m.ttl, m.at, m.done, r0, r1, m.refreshedOver > 0)
		}
		rec.label("read=visible")
		if m.refreshedOver > 0 && m.ttl > 0 && r0 >= m.refreshedOver && w.isVirtualOrPast(m, r0) {
			rec.label("read=visible-only-because-refreshed")
			rec.nt = true
		}
		if f := w.introspect(e, m, rec, where); f != nil {
			return f
		}
	case -1:
		if vis {
			why := "no status was ever accepted / it was deleted / the entity was removed through the API that cleans status up"
			if m.has != 0 {
				why = fmt.Sprintf("its TTL %d elapsed at %v", m.ttl, m.deadline())
			}
			return vt.Failf(pfx+"status-visible-unexpectedly", "%s: status of %s visible (%q) at %v although %s", where, e.name, val, r1, why)
		}
		if m.has != 0 {
			rec.label("read=expired")
		}
		m.has = 0
	case -2:
		if vis {
			// upper bound on real-time expiry: retry, only a persisting status is a violation
			deadlineWall := time.Now().Add(deadRetry)
			for vis && time.Now().Before(deadlineWall) {
				time.Sleep(250 * time.Millisecond)
				vis, _, _ = w.observe(e, m)
			}
			if vis {
				return vt.Failf(pfx+"status-outlived-ttl", "%s: status of %s (ttl %d, reported %v..%v) still visible %v after the read at %v", where, e.name, m.ttl, m.at, m.done, deadRetry, r0)
			}
			stats.Inconclusive()
			rec.label("read=expired-late(retried)")
		} else {
			rec.label("read=expired")
		}
		m.has = 0
	default:
		if !vis {
			m.has = 0
		}
	}
	return nil
}

// isVirtualOrPast: in real time a "visible only because refreshed" read must be clearly past
// the un-refreshed deadline.
func (w *statusWorld) isVirtualOrPast(m *statusModel, r0 time.Duration) bool {
	if w.isVirtual() {
		return true
	}
	return r0 > m.refreshedOver+500*time.Millisecond
}

// introspect (etcd only): the status key's lease decides the lifetime without waiting.
func (w *statusWorld) introspect(e *entity, m *statusModel, rec *recorder, where string) *vt.Finding {
	if w.efix == nil || m.has != 1 {
		return nil
	}
	pfx := w.backend + ":" + e.kind + ":"
	ok, lease, _ := w.efix.lease(e.statusKey)
	if !ok {
		return nil // raced with expiry; the visibility check has already judged
	}
	if m.ttl == 0 {
		if lease != 0 {
			granted, remaining := w.efix.ttl(lease)
			return vt.Failf(pfx+"zero-ttl-status-bound-to-lease", "%s: status of %s was reported with TTL 0 but its key is bound to lease %x (granted %d, remaining %d): it will expire", where, e.name, lease, granted, remaining)
		}
		rec.label("introspect=no-lease")
		return nil
	}
	if lease == 0 {
		return vt.Failf(pfx+"ttl-status-without-lease", "%s: status of %s was reported with TTL %d but its key has no lease: it never expires", where, e.name, m.ttl)
	}
	granted, remaining := w.efix.ttl(lease)
	n1 := w.now()
	if n1 >= m.deadline()-liveMargin {
		return nil
	}
	if remaining < 0 {
		return vt.Failf(pfx+"lease-gone-before-ttl", "%s: lease %x of the status of %s is gone at %v, reported at %v with TTL %d", where, lease, e.name, n1, m.at, m.ttl)
	}
	if granted != m.ttl {
		return vt.Failf(pfx+"granted-ttl-differs", "%s: status of %s reported with TTL %d is bound to a lease granted for %d s", where, e.name, m.ttl, granted)
	}
	// remaining (whole seconds, truncated) of a lease (re)started no earlier than m.at
	need := int64((m.deadline() - n1) / time.Second)
	if remaining < need {
		key := "remaining-ttl-too-small"
		if m.refreshedOver > 0 {
			key = "same-value-report-did-not-extend"
		}
		return vt.Failf(pfx+key, "%s: status of %s: latest report (ttl %d) started at %v, at %v the lease has only %d s left (need >= %d); re-report of the same value: %v",
			where, e.name, m.ttl, m.at, n1, remaining, need, m.refreshedOver > 0)
	}
	rec.label("introspect=lease-ok")
	if m.refreshedOver > 0 && m.refreshGap >= 1100*time.Millisecond {
		rec.label("introspect=extension-distinguishable")
		rec.nt = true
	}
	return nil
}

// runStatus executes one history.
func runStatus(w *statusWorld, c StatusCase, rec *recorder) *vt.Finding {
	id := seq.Add(1)
	pfx := w.backend + ":" + c.Kind + ":"
	e := &entity{kind: c.Kind}
	m := &statusModel{}
	st := w.st
	do := func(f func(ctx context.Context) error) error {
		ctx, cancel := callCtx()
		defer cancel()
		return f(ctx)
	}
	mustDo := func(what string, f func(ctx context.Context) error) {
		if err := do(f); err != nil {
			panic(fmt.Sprintf("storettl: fixture step %s failed: %v", what, err))
		}
	}
	if w.base == nil {
		panic("storettl: world without base fixture")
	}
	if c.Kind == "node" {
		e.name = fmt.Sprintf("n%d", id)
		e.node = &types.Node{NodeMeta: types.NodeMeta{Name: e.name, Endpoint: "mock://" + e.name, Podname: podName(0)}}
		e.statusKey = "/status:node/" + e.name
	} else {
		e.hostPod = podName(0)
		e.hostNode = w.base
		e.name = fmt.Sprintf("w%d-0123456789abcdef", id)
		e.workload = &types.Workload{ID: e.name, Name: fmt.Sprintf("app_entry_x%d", id), Podname: e.hostPod, Nodename: hostName}
		e.statusKey = filepath.Join("/status", "app", "entry", hostName, e.name)
	}
	defer func() { // best-effort clean-up on the shared etcd
		if w.efix == nil {
			return
		}
		_ = do(func(ctx context.Context) error {
			if c.Kind == "node" {
				if m.exists {
					_ = st.RemoveNode(ctx, e.node)
				}
				if m.has != 0 {
					_ = st.SetNodeStatus(ctx, e.node, -1)
				}
			} else if m.exists {
				_ = st.RemoveWorkload(ctx, e.workload)
			} else if m.has != 0 {
				_, _ = w.efix.raw.Delete(ctx, e.statusKey)
			}
			return nil
		})
	}()

	nReports, nMissing := 0, 0
	for i, s := range c.Steps {
		where := fmt.Sprintf("step %d (%s)", i, s.Op)
		switch s.Op {
		case "add":
			if m.exists {
				continue
			}
			if c.Kind == "node" {
				mustDo("AddNode", func(ctx context.Context) error {
					n, err := st.AddNode(ctx, &types.AddNodeOptions{Nodename: e.name, Endpoint: "mock://" + e.name, Podname: podName(s.Val)})
					if err == nil {
						e.node = n
					}
					return err
				})
			} else {
				mustDo("AddWorkload", func(ctx context.Context) error { return st.AddWorkload(ctx, e.workload, nil) })
			}
			m.exists = true
		case "remove", "cremove":
			if !m.exists {
				continue
			}
			if c.Kind == "node" {
				if s.Op == "cremove" { // what calcium.RemoveNode does around the store call
					_ = do(func(ctx context.Context) error { return st.SetNodeStatus(ctx, e.node, 90) })
				}
				mustDo("RemoveNode", func(ctx context.Context) error { return st.RemoveNode(ctx, e.node) })
				if s.Op == "cremove" {
					if err := do(func(ctx context.Context) error { return st.SetNodeStatus(ctx, e.node, -1) }); err != nil {
						return vt.Failf(pfx+"delete-failed", "%s: SetNodeStatus(ttl -1) after removing the node failed: %v", where, err)
					}
					m.has = 0
					rec.label("op=remove-node-with-status-cleanup")
				} else {
					if m.has == 1 {
						m.has = 2 // store.RemoveNode does not own status clean-up; the statement allows either
					}
					rec.label("op=remove-node-raw")
				}
			} else {
				mustDo("RemoveWorkload", func(ctx context.Context) error { return st.RemoveWorkload(ctx, e.workload) })
				m.has = 0
				rec.label("op=remove-workload")
			}
			m.exists = false
			m.refreshedOver = 0
		case "del":
			if c.Kind != "node" {
				continue
			}
			if err := do(func(ctx context.Context) error { return st.SetNodeStatus(ctx, e.node, -1) }); err != nil {
				return vt.Failf(pfx+"delete-failed", "%s: SetNodeStatus(ttl -1) failed: %v", where, err)
			}
			m.has = 0
			m.refreshedOver = 0
			rec.label("op=negative-ttl-delete")
		case "advance":
			w.advance(s.Ms)
		case "read":
		case "report":
			ttl := s.TTL
			if ttl < 0 {
				continue
			}
			var val string
			t0 := w.now()
			var err error
			if c.Kind == "node" {
				val = nodeDesc(e.node)
				err = do(func(ctx context.Context) error { return st.SetNodeStatus(ctx, e.node, ttl) })
			} else {
				sm := workloadValue(e, s.Val)
				val = descStatus(sm)
				err = do(func(ctx context.Context) error { return st.SetWorkloadStatus(ctx, sm, ttl) })
			}
			t1 := w.now()
			nReports++
			switch {
			case ttl > 0 && !m.exists:
				nMissing++
				rec.label("op=ttl-report-on-missing-entity")
				rec.nt = true
				if err == nil {
					return vt.Failf(pfx+"ttl-report-accepted-for-missing-entity", "%s: %s %s does not exist, yet a status report with TTL %d was accepted", where, c.Kind, e.name, ttl)
				}
			case ttl > 0 && err != nil:
				return vt.Failf(pfx+"ttl-report-refused-for-existing-entity", "%s: %s %s exists, yet a status report with TTL %d failed: %v", where, c.Kind, e.name, ttl, err)
			case ttl == 0 && m.exists && c.Kind == "workload" && err != nil:
				return vt.Failf(pfx+"zero-ttl-report-refused-for-existing-entity", "%s: workload %s exists, yet a status report with TTL 0 failed: %v", where, e.name, err)
			}
			if err == nil {
				// accepted (for ttl 0 on a missing workload and ttl 0 on a node the statement
				// is silent: the model follows what the API answered)
				same := m.has == 1 && m.val == val && (m.ttl == 0 || t0 < m.deadline())
				switch {
				case same && m.ttl == ttl && ttl > 0:
					rec.label("op=re-report-same-value")
					m.refreshedOver = m.deadline()
					m.refreshGap = t0 - m.done
				case same && m.ttl != ttl:
					rec.label("op=ttl-change-same-value")
					m.refreshedOver = 0
				default:
					m.refreshedOver = 0
				}
				if ttl == 0 {
					rec.label("op=zero-ttl-report")
				}
				m.has, m.val, m.ttl, m.at, m.done = 1, val, ttl, t0, t1
			}
		default:
			panic("storettl: unknown op " + s.Op)
		}
		if f := w.check(e, m, rec, where); f != nil {
			return f
		}
	}
	rec.label("kind=%s", c.Kind)
	rec.label("reports=%s", bucket(nReports))
	return nil
}

func bucket(n int) string {
	switch {
	case n == 0:
		return "0"
	case n <= 2:
		return "1-2"
	case n <= 5:
		return "3-5"
	}
	return "6+"
}

// ---------------------------------------------------------------------------------------
// generators

type genModel struct {
	exists  bool
	has     bool
	val     int
	ttl     int64
	elapsed int // nominal ms since the latest report
	oldRem  int // > 0: ms until the deadline that the latest same-value re-report replaced
}

func genStatusCase(t *rapid.T, backend string, mode string) StatusCase {
	c := StatusCase{Backend: backend}
	c.Kind = rapid.SampledFrom([]string{"node", "workload"}).Draw(t, "kind")
	g := &genModel{}
	n := 4 + rapid.IntRange(0, 10).Draw(t, "nsteps")
	if mode == "expiry" {
		n = 3 + rapid.IntRange(0, 3).Draw(t, "nsteps")
	}
	if vt.Chance(t, "startExisting", 85) {
		c.Steps = append(c.Steps, StatusStep{Op: "add", Val: rapid.IntRange(0, 1).Draw(t, "pod")})
		g.exists = true
	}
	slept, budget := 0, 8000
	for len(c.Steps) < n+1 {
		p := vt.Pct(t, "op")
		var s StatusStep
		switch {
		case !g.exists && p < 45:
			s = StatusStep{Op: "add", Val: rapid.IntRange(0, 1).Draw(t, "pod")}
			g.exists = true
		case mode == "redis" && p >= 45 && p < 57 && g.exists && g.has && g.ttl > 0 && int(g.ttl)*1000-g.elapsed > 1:
			// compound: let part of the lifetime pass, re-report the same value, then look
			// between the replaced deadline and the new one
			rem := int(g.ttl)*1000 - g.elapsed
			a := rapid.IntRange(1, rem-1).Draw(t, "refreshAfter")
			b := rapid.IntRange(rem-a, int(g.ttl)*1000-1).Draw(t, "lookAfter")
			c.Steps = append(c.Steps, StatusStep{Op: "advance", Ms: a}, StatusStep{Op: "report", Val: g.val, TTL: g.ttl})
			s = StatusStep{Op: "advance", Ms: b}
			g.elapsed, g.oldRem = b, rem-a-b
		case p < 50 || (!g.exists && p < 80):
			s = StatusStep{Op: "report"}
			if g.has && vt.Chance(t, "sameVal", 55) {
				s.Val = g.val
			} else {
				s.Val = rapid.IntRange(0, 15).Draw(t, "val")
			}
			switch {
			case g.has && vt.Chance(t, "sameTTL", 55):
				s.TTL = g.ttl
			case mode == "expiry":
				s.TTL = int64(2 + rapid.IntRange(0, 1).Draw(t, "ttl"))
			case mode == "etcd" && vt.Chance(t, "bigTTL", 15):
				s.TTL = rapid.SampledFrom([]int64{30, 90, 600}).Draw(t, "ttl")
			default:
				s.TTL = int64(1 + rapid.IntRange(0, 4).Draw(t, "ttl"))
			}
			if vt.Chance(t, "zeroTTL", 18) && (c.Kind == "workload" || vt.Chance(t, "zeroTTLNode", 15)) {
				s.TTL = 0
			}
			if s.TTL > 0 && !g.exists && backend == "redis" && c.Kind == "node" && vt.Exclude("C25", keyRedisNodeMissing) {
				s = StatusStep{Op: "read"}
				break
			}
			accepted := g.exists && !(c.Kind == "node" && s.TTL == 0)
			if !g.exists && c.Kind == "workload" && s.TTL == 0 && backend == "etcd" {
				accepted = true // etcd takes a TTL-0 workload status without looking at the workload
			}
			if accepted {
				g.oldRem = 0
				if g.has && g.val == s.Val && g.ttl == s.TTL && s.TTL > 0 {
					g.oldRem = int(g.ttl)*1000 - g.elapsed
				}
				g.has, g.val, g.ttl, g.elapsed = true, s.Val, s.TTL, 0
			}
		case p < 72:
			s = StatusStep{Op: "advance"}
			rem := int(g.ttl)*1000 - g.elapsed
			switch mode {
			case "redis":
				opts := []int{1, 300, 999, 1000, 1001, 1700, 2500, 4000, 6000}
				if g.has && g.ttl > 0 && rem > 0 {
					opts = append(opts, rem, rem, rem+1, rem+1)
					if rem > 1 {
						opts = append(opts, rem-1, rem-1, rem-1)
					}
					if g.oldRem > 0 && g.oldRem < rem { // land between the replaced and the new deadline
						opts = append(opts, g.oldRem, g.oldRem, g.oldRem+1, (g.oldRem+rem)/2, (g.oldRem+rem)/2, g.oldRem, (g.oldRem+rem)/2)
					}
				}
				s.Ms = rapid.SampledFrom(opts).Draw(t, "ms")
			case "etcd":
				if slept >= 1 || !vt.Chance(t, "sleep", 22) {
					s = StatusStep{Op: "read"}
				} else {
					s.Ms = rapid.SampledFrom([]int{1200, 1500}).Draw(t, "ms")
					slept++
					if g.exists && g.has && g.ttl >= 3 && vt.Chance(t, "sleepThenRefresh", 80) {
						// >= 1.1 s between two reports of the same value: "extended" and
						// "untouched" differ in the lease's remaining whole seconds
						c.Steps = append(c.Steps, s)
						s = StatusStep{Op: "report", Val: g.val, TTL: g.ttl}
					}
				}
			case "expiry":
				// stay >= 0.7 s away from every nominal boundary
				var opts []int
				if g.has && g.ttl > 0 && rem > 0 {
					if rem-900 >= 700 {
						opts = append(opts, 700, rem-900, 700+(rem-1600)/2)
					}
					opts = append(opts, rem+2800)
					if g.oldRem > -600 && g.oldRem+800 <= rem-900 { // clearly past the replaced deadline, clearly before the new one
						opts = append(opts, g.oldRem+800, g.oldRem+800, g.oldRem+800)
					}
				} else {
					opts = []int{300}
				}
				var fit []int
				for _, o := range opts {
					if o <= budget {
						fit = append(fit, o)
					}
				}
				if len(fit) == 0 {
					s = StatusStep{Op: "read"}
				} else {
					s.Ms = rapid.SampledFrom(fit).Draw(t, "ms")
					budget -= s.Ms
				}
			}
			g.elapsed += s.Ms
			if g.oldRem > 0 {
				g.oldRem -= s.Ms
			}
			if g.has && g.ttl > 0 && g.elapsed >= int(g.ttl)*1000 {
				g.has = false
			}
		case p < 80:
			s = StatusStep{Op: "read"}
		case p < 90 && g.exists:
			s = StatusStep{Op: "remove"}
			if c.Kind == "node" && vt.Chance(t, "cremove", 50) {
				s.Op = "cremove"
			}
			g.exists, g.has = false, false
		case p < 96 && c.Kind == "node":
			s = StatusStep{Op: "del"}
			g.has = false
		default:
			s = StatusStep{Op: "read"}
		}
		c.Steps = append(c.Steps, s)
	}
	// every history ends with a read
	c.Steps = append(c.Steps, StatusStep{Op: "read"})
	return c
}

// genExpiryScenario draws one real-time history from a few families; every wait keeps the
// reads >= 0.7 s (nominal) away from the deadlines involved.
func genExpiryScenario(t *rapid.T) StatusCase {
	c := StatusCase{Backend: "etcd"}
	c.Kind = rapid.SampledFrom([]string{"node", "workload"}).Draw(t, "kind")
	v1 := rapid.IntRange(0, 15).Draw(t, "v1")
	v2 := (v1 + 1 + rapid.IntRange(0, 14).Draw(t, "v2")) % 16
	add := StatusStep{Op: "add", Val: rapid.IntRange(0, 1).Draw(t, "pod")}
	adv := func(ms int) StatusStep { return StatusStep{Op: "advance", Ms: ms} }
	rep := func(v int, ttl int64) StatusStep { return StatusStep{Op: "report", Val: v, TTL: ttl} }
	past := 2800
	fam := rapid.SampledFrom([]string{"expire", "refresh", "refresh", "newvalue", "longer", "shorter", "tozero", "fromzero", "remove", "random", "atexpiry"}).Draw(t, "family")
	if c.Kind == "node" && (fam == "tozero" || fam == "fromzero") {
		fam = "refresh"
	}
	switch fam {
	case "atexpiry":
		// the same value again while the previous lease is expiring (etcd revokes expired
		// leases every 0.5 s): the report must still be accepted for an existing entity
		ttl := int64(rapid.IntRange(1, 2).Draw(t, "ttl"))
		c.Steps = []StatusStep{add, rep(v1, ttl), adv(int(ttl)*1000 + rapid.IntRange(0, 11).Draw(t, "late")*50), rep(v1, ttl), adv(300)}
	case "expire":
		ttl := int64(rapid.IntRange(2, 3).Draw(t, "ttl"))
		live := rapid.IntRange(700, int(ttl)*1000-900).Draw(t, "live")
		c.Steps = []StatusStep{add, rep(v1, ttl), adv(live), adv(int(ttl)*1000 - live + past), rep(v1, ttl), adv(700)}
	case "refresh":
		ttl := int64(rapid.IntRange(3, 4).Draw(t, "ttl"))
		a := rapid.IntRange(1700, int(ttl)*1000-900).Draw(t, "a")
		look := int(ttl)*1000 - a + 800 // 0.8 s past the replaced deadline, >= 0.9 s before the new one
		c.Steps = []StatusStep{add, rep(v1, ttl), adv(a), rep(v1, ttl), adv(look), adv(int(ttl)*1000 - look + past)}
	case "newvalue":
		ttl := int64(rapid.IntRange(3, 4).Draw(t, "ttl"))
		a := rapid.IntRange(1700, int(ttl)*1000-900).Draw(t, "a")
		look := int(ttl)*1000 - a + 800
		c.Steps = []StatusStep{add, rep(v1, ttl), adv(a), rep(v2, ttl), adv(look), adv(int(ttl)*1000 - look + past)}
	case "longer":
		a := rapid.IntRange(700, 1100).Draw(t, "a")
		c.Steps = []StatusStep{add, rep(v1, 2), adv(a), rep(v1, 4), adv(2000 - a + 800), adv(4000 - (2000 - a + 800) + past)}
	case "shorter":
		a := rapid.IntRange(700, 1500).Draw(t, "a")
		c.Steps = []StatusStep{add, rep(v1, 5), adv(a), rep(v1, 2), adv(1100), adv(900 + past), rep(v1, 2)}
	case "tozero":
		a := rapid.IntRange(700, 1100).Draw(t, "a")
		c.Steps = []StatusStep{add, rep(v1, 2), adv(a), rep(v1, 0), adv(2000 - a + past), rep(v1, 0), adv(300)}
	case "fromzero":
		c.Steps = []StatusStep{add, rep(v1, 0), adv(1500), rep(v1, 2), adv(1100), adv(900 + past)}
	case "remove":
		rm := "remove"
		if c.Kind == "node" {
			rm = rapid.SampledFrom([]string{"remove", "cremove"}).Draw(t, "rm")
		}
		c.Steps = []StatusStep{add, rep(v1, 3), adv(800), {Op: rm}, rep(v1, 3), add, adv(2200 + past), rep(v2, 2), adv(1100), adv(900 + past)}
	default:
		return genStatusCase(t, "etcd", "expiry")
	}
	c.Steps = append(c.Steps, StatusStep{Op: "read"})
	return c
}

// ---------------------------------------------------------------------------------------
// the three tests

func runRedisStatus(x *vt.Ctx, c StatusCase) *vt.Finding {
	fix, st := sharedRedisFixture()
	w := &statusWorld{backend: "redis", st: st, rfix: fix}
	w.base = ensureBase(st)
	rec := &recorder{}
	f := runStatus(w, c, rec)
	rec.flush(x)
	return f
}

var (
	etcdStoreMu sync.Mutex
	etcdStores  = map[*etcdFix]store.Store{}
)

func etcdWorld() *statusWorld {
	fix := etcdFixture()
	etcdStoreMu.Lock()
	st := etcdStores[fix]
	if st == nil {
		st = fix.newStore()
		etcdStores[fix] = st
	}
	if fix.base == nil {
		fix.base = ensureBase(st)
	}
	etcdStoreMu.Unlock()
	return &statusWorld{backend: "etcd", st: st, efix: fix, start: time.Now(), base: fix.base}
}

func runEtcdExpiry(x *vt.Ctx, c ExpiryCase) *vt.Finding {
	base := etcdWorld()
	finds := make([]*vt.Finding, len(c.Scenarios))
	recs := make([]*recorder, len(c.Scenarios))
	var wg sync.WaitGroup
	for i := range c.Scenarios {
		i := i
		recs[i] = &recorder{}
		wg.Add(1)
		go func() {
			defer wg.Done()
			w := &statusWorld{backend: "etcd", st: base.st, efix: base.efix, start: base.start, base: base.base}
			finds[i] = runStatus(w, c.Scenarios[i], recs[i])
		}()
	}
	wg.Wait()
	for _, r := range recs {
		r.flush(x) // labels are counted per history
	}
	stats.Evals(len(c.Scenarios) - 1) // evaluations count histories, not batches
	for i, f := range finds {
		if f != nil {
			f.Msg = fmt.Sprintf("scenario %d: %s", i, f.Msg)
			return f
		}
	}
	return nil
}

var propC25Redis = vt.Prop[StatusCase]{ID: "C25", Test: "TestC25Redis",
	Gen: func(t *rapid.T) StatusCase { return genStatusCase(t, "redis", "redis") }, Run: runRedisStatus}

var propC25Etcd = vt.Prop[ExpiryCase]{ID: "C25", Test: "TestC25Etcd",
	Gen: func(t *rapid.T) ExpiryCase {
		var c ExpiryCase
		for i := 0; i < 6; i++ {
			c.Scenarios = append(c.Scenarios, genStatusCase(t, "etcd", "etcd"))
		}
		return c
	}, Run: runEtcdExpiry}

var propC25EtcdExpiry = vt.Prop[ExpiryCase]{ID: "C25", Test: "TestC25EtcdExpiry",
	Gen: func(t *rapid.T) ExpiryCase {
		var c ExpiryCase
		for i := 0; i < 12; i++ {
			c.Scenarios = append(c.Scenarios, genExpiryScenario(t))
		}
		return c
	}, Run: runEtcdExpiry}

func TestC25Redis(t *testing.T)      { curT = t; propC25Redis.Check(t) }
func TestC25Etcd(t *testing.T)       { curT = t; propC25Etcd.Check(t) }
func TestC25EtcdExpiry(t *testing.T) { curT = t; propC25EtcdExpiry.Check(t) }
