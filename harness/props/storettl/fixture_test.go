// Package storettl decides C25 (status reports bound to live entities, TTL semantics) and
// C26 (ephemeral registrations exclusive and owner-safe) against the two real store back
// ends: etcdv3.Mercury on the embedded etcd and redis.Rediaron on miniredis.
package storettl

import (
	"context"
	"fmt"
	"sync"
	"sync/atomic"
	"testing"
	"time"

	"github.com/alicebob/miniredis/v2"
	"github.com/alicebob/miniredis/v2/server"
	clientv3 "go.etcd.io/etcd/client/v3"

	"github.com/projecteru2/core/engine/factory"
	"github.com/projecteru2/core/store"
	"github.com/projecteru2/core/store/etcdv3"
	"github.com/projecteru2/core/store/etcdv3/embedded"
	coreredis "github.com/projecteru2/core/store/redis"
	"github.com/projecteru2/core/types"

	"verif/internal/vt"
)

func TestMain(m *testing.M) { vt.Main(m) }

const etcdPrefix = "/eru-verif"

// curT is the *testing.T of the running Test function; the embedded etcd cluster is bound to
// it (store/etcdv3/embedded caches one cluster per test name and terminates it in t.Cleanup).
var curT *testing.T

var seq atomic.Int64 // unique entity names per case on the shared etcd

func coreConfig() types.Config {
	cfg := types.Config{}
	cfg.LockTimeout = 10 * time.Second
	cfg.GlobalTimeout = 30 * time.Second
	cfg.Etcd = types.EtcdConfig{Machines: []string{"127.0.0.1:2379"}, Prefix: etcdPrefix, LockPrefix: "/eru-verif-lock"}
	cfg.MaxConcurrency = 1000
	cfg.ConnectionTimeout = time.Second
	return cfg
}

var engineOnce sync.Once

func initEngines() {
	engineOnce.Do(func() { factory.InitEngineCache(context.Background(), coreConfig(), nil) })
}

// ---------------------------------------------------------------------------------------
// etcd

type etcdFix struct {
	cfg types.Config
	raw *clientv3.Client // the embedded cluster's own (namespaced) client

	base *types.Node
}

var (
	etcdMu    sync.Mutex
	etcdFixes = map[string]*etcdFix{}
)

func etcdFixture() *etcdFix {
	t := curT
	if t == nil {
		panic("storettl: curT not set")
	}
	etcdMu.Lock()
	defer etcdMu.Unlock()
	if f := etcdFixes[t.Name()]; f != nil {
		return f
	}
	initEngines()
	cfg := coreConfig()
	f := &etcdFix{cfg: cfg, raw: embedded.NewCluster(t, cfg.Etcd.Prefix).RandClient()}
	etcdFixes[t.Name()] = f
	name := t.Name()
	t.Cleanup(func() { etcdMu.Lock(); delete(etcdFixes, name); etcdMu.Unlock() })
	return f
}

// newStore returns a fresh Mercury on the shared embedded cluster (a separate "core process").
func (f *etcdFix) newStore() store.Store {
	m, err := etcdv3.New(f.cfg, curT)
	if err != nil {
		panic(fmt.Sprintf("etcdv3.New: %v", err))
	}
	return m
}

// lease returns (key exists, lease id) of a raw key.
func (f *etcdFix) lease(key string) (bool, clientv3.LeaseID, string) {
	ctx, cancel := context.WithTimeout(context.Background(), 20*time.Second)
	defer cancel()
	r, err := f.raw.Get(ctx, key)
	if err != nil {
		panic(fmt.Sprintf("raw get %s: %v", key, err))
	}
	if len(r.Kvs) == 0 {
		return false, 0, ""
	}
	return true, clientv3.LeaseID(r.Kvs[0].Lease), string(r.Kvs[0].Value)
}

// ttl returns (granted, remaining) of a lease; remaining -1 = lease gone.
func (f *etcdFix) ttl(id clientv3.LeaseID) (int64, int64) {
	ctx, cancel := context.WithTimeout(context.Background(), 20*time.Second)
	defer cancel()
	r, err := f.raw.TimeToLive(ctx, id)
	if err != nil {
		panic(fmt.Sprintf("raw ttl %x: %v", id, err))
	}
	return r.GrantedTTL, r.TTL
}

// ---------------------------------------------------------------------------------------
// redis

type redisFix struct {
	srv *miniredis.Miniredis
	cfg types.Config

	mu   sync.Mutex
	cmds map[string]int // commands seen on the wire per key (any argument equal to the key)
	// traps run just before a wire command naming the key executes (the hook holds no lock)
	traps map[string]func(cmd string)
}

func newRedisFixture() *redisFix {
	initEngines()
	srv, err := miniredis.Run()
	if err != nil {
		panic(err)
	}
	f := &redisFix{srv: srv, cfg: coreConfig(), cmds: map[string]int{}, traps: map[string]func(string){}}
	f.cfg.Store = types.Redis
	f.cfg.Redis.Addr = srv.Addr()
	srv.Server().SetPreHook(func(_ *server.Peer, cmd string, args ...string) bool {
		var fire []func(string)
		f.mu.Lock()
		for _, a := range args {
			if len(a) > 0 && a[0] == '/' {
				f.cmds[a]++
				if t := f.traps[a]; t != nil {
					fire = append(fire, t)
				}
			}
		}
		f.mu.Unlock()
		for _, t := range fire {
			t(cmd)
		}
		return false
	})
	return f
}

func (f *redisFix) setTrap(key string, t func(cmd string)) {
	f.mu.Lock()
	if t == nil {
		delete(f.traps, key)
	} else {
		f.traps[key] = t
	}
	f.mu.Unlock()
}

func (f *redisFix) wireCount(key string) int {
	f.mu.Lock()
	defer f.mu.Unlock()
	return f.cmds[key]
}

func (f *redisFix) newStore() store.Store {
	r, err := coreredis.New(f.cfg, nil)
	if err != nil {
		panic(err)
	}
	return r
}

func (f *redisFix) close() { f.srv.Close() }

var (
	sharedRedisOnce sync.Once
	sharedRedis     *redisFix
	sharedRediaron  store.Store
)

// sharedRedisFixture is the one miniredis + Rediaron used by the sequential C25 cases of a
// process (flushed between cases; FastForward only decrements TTLs, so no state leaks).
func sharedRedisFixture() (*redisFix, store.Store) {
	sharedRedisOnce.Do(func() {
		sharedRedis = newRedisFixture()
		sharedRediaron = sharedRedis.newStore()
	})
	sharedRedis.srv.FlushAll()
	return sharedRedis, sharedRediaron
}
