package storettl

// C26 — "For any interleaving of registrations, heartbeats, pauses longer than the TTL and
// deregistrations on one key, at most one registrant believes it holds the key at a time. A
// registrant whose registration lapsed is notified, and a registrant never refreshes or
// deletes a registration created by someone else."
//
// A scenario is a script for 2-3 registrants (each a separate store instance on the same back
// end) contending for one key through Store.StartEphemeral or Store.RegisterService. Lapses
// are injected from outside: etcd — the key's lease is revoked with the cluster's own client;
// Redis — miniredis time is fast-forwarded beyond the TTL between two (real) heartbeat ticks.
// The oracle works on what each registrant believes (from a successful registration until its
// expiry channel closes or its stop function returns) and on the key as the store shows it.

import (
	"context"
	"errors"
	"fmt"
	"sync"
	"sync/atomic"
	"testing"
	"time"

	clientv3 "go.etcd.io/etcd/client/v3"
	"pgregory.net/rapid"

	"github.com/projecteru2/core/store"
	"github.com/projecteru2/core/types"

	"verif/internal/stats"
	"verif/internal/vt"
)

// EphStep is one step of a registration script.
type EphStep struct {
	Op    string `json:"op"`              // register | race | wait | keepalive | lapse | stop
	Who   int    `json:"who,omitempty"`   // register, lapse (ignored: the holder lapses), stop
	Ticks int    `json:"ticks,omitempty"` // wait
	Succ  string `json:"succ,omitempty"`  // lapse: "" nobody | "reg" registrant By | "harness" a harness-owned key that is never refreshed
	By    int    `json:"by,omitempty"`
	Then  string `json:"then,omitempty"` // lapse: await | stop | refresh | later
}

// EphCase is one scenario.
type EphCase struct {
	Backend     string    `json:"backend"` // etcd | redis
	Via         string    `json:"via"`     // ephemeral | service
	HeartbeatMs int       `json:"heartbeat_ms"`
	N           int       `json:"n"`
	Steps       []EphStep `json:"steps"`
}

// EphBatch is a batch of scenarios run concurrently on disjoint keys.
type EphBatch struct {
	Scenarios []EphCase `json:"scenarios"`
}

const (
	keyNotNotifiedAbsent   = "lapsed-owner-not-notified:key-absent"
	keyNotNotifiedTakeover = "lapsed-owner-not-notified:after-takeover"
	keyRefreshExtended     = "old-owner-refresh-extended-successor-key"
	keyStopDeleted         = "old-owner-stop-deleted-successor-key"
	harnessValue           = "harness-successor"
	holderNone             = -1
	holderHarness          = 100
)

type registrant struct {
	st       store.Store
	believes bool
	lapsed   bool // lapse injected, not yet notified / stopped
	expiry   <-chan struct{}
	stop     func()
	lease    clientv3.LeaseID // etcd: lease of the key right after the registration
}

func (r *registrant) notified() bool {
	select {
	case <-r.expiry:
		return true
	default:
		return false
	}
}

type ephWorld struct {
	c      EphCase
	be     string
	efix   *etcdFix
	rfix   *redisFix
	path   string // raw key
	addr   string // service address (via=service)
	h      time.Duration
	tick   time.Duration
	regs   []*registrant
	holder int
	hLease clientv3.LeaseID // harness successor's lease (etcd)
	rec    *recorder

	notifiedLapse int // registrant whose injected lapse was noticed most recently (-1 none)
}

func (w *ephWorld) fail(key, f string, a ...any) *vt.Finding {
	return vt.Failf(w.be+":"+key, f, a...)
}

func (w *ephWorld) startOne(r *registrant) (<-chan struct{}, func(), error) {
	ctx := context.Background() // the registration lives as long as the context: no timeout here
	if w.c.Via == "service" {
		return r.st.RegisterService(ctx, w.addr, w.h)
	}
	return r.st.StartEphemeral(ctx, w.path, w.h)
}

// keyState returns whether the key exists and (etcd) its lease / (redis) its value.
func (w *ephWorld) keyState() (bool, clientv3.LeaseID, string) {
	if w.efix != nil {
		return w.efix.lease(w.path)
	}
	if !w.rfix.srv.Exists(w.path) {
		return false, 0, ""
	}
	v, _ := w.rfix.srv.Get(w.path)
	return true, 0, v
}

var errEnvLapse = "uninjected lapse of the holder itself"

// intact: the current holder's key is still there and still the holder's. A key that is gone
// because the holder's own lease ran out (keepalive starved under load) is recognised by the
// holder being notified within 30 ticks: then nobody else damaged it (why = errEnvLapse).
func (w *ephWorld) intact() (bool, string) {
	if w.holder == holderNone || w.holder == -2 {
		return true, ""
	}
	ok, lease, val := w.keyState()
	if !ok {
		// on etcd a lease can run out by itself when keepalives starve under load; on Redis time is
		// virtual (miniredis only moves by FastForward), so a vanished key was deleted by somebody
		if w.efix != nil && w.holder >= 0 && w.holder < len(w.regs) && awaitClosed(w.regs[w.holder].expiry, 30*w.tick) {
			return false, errEnvLapse
		}
		return false, "the key is gone (and its owner was not notified)"
	}
	if w.efix != nil {
		want := w.hLease
		if w.holder != holderHarness {
			want = w.regs[w.holder].lease
		}
		if lease != want {
			return false, fmt.Sprintf("the key is bound to lease %x, the holder's lease is %x", lease, want)
		}
		return true, ""
	}
	if w.holder == holderHarness && val != harnessValue {
		return false, fmt.Sprintf("the key holds %q, the holder wrote %q", val, harnessValue)
	}
	return true, ""
}

// damaged judges intact(): (finding key suffix, message) or discard.
func (w *ephWorld) damaged() (bad bool, discard bool, why string) {
	ok, why := w.intact()
	if ok {
		return false, false, ""
	}
	if why == errEnvLapse {
		stats.Inconclusive()
		w.rec.label("discarded=uninjected-lapse")
		return false, true, why
	}
	return true, false, why
}

func (w *ephWorld) holderName() string {
	switch w.holder {
	case holderNone:
		return "nobody"
	case holderHarness:
		return "the harness-owned successor"
	}
	return fmt.Sprintf("registrant %d", w.holder)
}

func awaitClosed(ch <-chan struct{}, d time.Duration) bool {
	select {
	case <-ch:
		return true
	case <-time.After(d):
		return false
	}
}

// awaitNotification: a lapsed registrant must be notified within one heartbeat tick; the bound
// used is 20 ticks, then 10 more (a notification arriving only then is counted inconclusive).
func (w *ephWorld) awaitNotification(i int, where string) *vt.Finding {
	r := w.regs[i]
	t0 := time.Now()
	if !awaitClosed(r.expiry, 20*w.tick) {
		if awaitClosed(r.expiry, 10*w.tick) {
			stats.Inconclusive()
			w.rec.label("notify=late(retried)")
		} else {
			key := keyNotNotifiedAbsent
			if w.holder != holderNone {
				key = keyNotNotifiedTakeover
			}
			return w.fail(key, "%s: registrant %d's registration lapsed (injected) but its expiry channel is still open %v later (heartbeat tick %v); the key is now held by %s",
				where, i, time.Since(t0).Round(time.Millisecond), w.tick, w.holderName())
		}
	}
	w.rec.label("notify=ok")
	r.believes, r.lapsed = false, false
	w.notifiedLapse = i
	return nil
}

// register performs one registration attempt and judges exclusivity.
func (w *ephWorld) register(i int, where string) *vt.Finding {
	r := w.regs[i]
	if r.believes {
		return nil
	}
	exp, stop, err := w.startOne(r)
	if err != nil {
		if !errors.Is(err, types.ErrKeyExists) {
			return w.fail("register-error", "%s: registration of %d failed with an unexpected error: %v", where, i, err)
		}
		if w.holder == holderNone {
			w.rec.label("register=refused-while-free")
		} else {
			w.rec.label("register=refused-held")
		}
		return nil
	}
	r.believes, r.lapsed, r.expiry, r.stop = true, false, exp, stop
	for j, o := range w.regs {
		if j != i && o.believes && !o.lapsed && !o.notified() {
			return w.fail("overlap:registered-while-another-holds", "%s: registrant %d registered successfully while registrant %d holds the key (no lapse injected, not stopped, not notified)", where, i, j)
		}
	}
	if w.holder == holderHarness {
		return w.fail("overlap:registered-over-foreign-key", "%s: registrant %d registered successfully although the key exists (written by the harness-owned successor)", where, i)
	}
	takeover := false
	for j, o := range w.regs {
		if j != i && o.believes && o.lapsed && !o.notified() {
			takeover = true
		}
	}
	if takeover {
		w.rec.label("register=takeover-while-lapsed-owner-alive")
		w.rec.nt = true
	} else if w.notifiedLapse >= 0 && w.notifiedLapse != i {
		w.rec.label("register=successor-after-noticed-lapse")
		w.rec.nt = true
		w.notifiedLapse = -1
	} else {
		w.rec.label("register=ok")
	}
	w.holder = i
	if w.efix != nil {
		_, r.lease, _ = w.efix.lease(w.path)
	}
	return nil
}

func (w *ephWorld) currentHolderReg() int {
	if w.holder >= 0 && w.holder < len(w.regs) {
		r := w.regs[w.holder]
		if r.believes && !r.lapsed {
			return w.holder
		}
	}
	return -1
}

// spurious: a believer was notified although nothing was done to it.
func (w *ephWorld) spurious() bool {
	for _, r := range w.regs {
		if r.believes && !r.lapsed && r.notified() {
			return true
		}
	}
	return false
}

// waitOwnerTick (redis): wait until a registrant has sent two more commands naming the key (so
// at least one complete heartbeat happened), or registrant i was notified.
func (w *ephWorld) waitOwnerTick(i int) bool {
	base := w.rfix.wireCount(w.path)
	deadline := time.Now().Add(20 * w.tick)
	for time.Now().Before(deadline) {
		if w.rfix.wireCount(w.path) >= base+2 {
			return true
		}
		if i >= 0 && w.regs[i].notified() {
			return true
		}
		time.Sleep(5 * time.Millisecond)
	}
	return false
}

func (w *ephWorld) removeHarnessKey() {
	if w.holder != holderHarness {
		return
	}
	if w.efix != nil {
		ctx, cancel := callCtx()
		_, _ = w.efix.raw.Revoke(ctx, w.hLease)
		cancel()
	} else {
		w.rfix.srv.Del(w.path)
	}
	w.holder = holderNone
}

func runEph(c EphCase, efix *etcdFix, rfix *redisFix, stores []store.Store, rec *recorder) (f *vt.Finding) {
	id := seq.Add(1)
	w := &ephWorld{c: c, be: c.Backend, efix: efix, rfix: rfix, holder: holderNone, rec: rec, notifiedLapse: -1}
	w.h = time.Duration(c.HeartbeatMs) * time.Millisecond
	w.tick = w.h / 3
	if c.Via == "service" {
		w.addr = fmt.Sprintf("10.9.%d.%d:5001", id/250, id%250)
		w.path = "/services/" + w.addr
	} else {
		w.path = fmt.Sprintf("/verif/eph/%d", id)
	}
	n := c.N
	if n < 2 {
		n = 2
	}
	if n > len(stores) {
		n = len(stores)
	}
	for i := 0; i < n; i++ {
		w.regs = append(w.regs, &registrant{st: stores[i]})
	}
	defer func() { // leave nothing behind
		for _, r := range w.regs {
			if r.stop != nil && r.believes {
				r.stop()
			}
		}
		w.removeHarnessKey()
	}()

	lapses := 0
	for si, s := range c.Steps {
		where := fmt.Sprintf("step %d (%s)", si, s.Op)
		if w.spurious() {
			// a registration lapsed without injection (keepalive starved under load, or a
			// consequence already judged): the model no longer knows who holds the key
			stats.Inconclusive()
			rec.label("discarded=uninjected-lapse")
			return nil
		}
		switch s.Op {
		case "register":
			if f := w.register(s.Who%n, where); f != nil {
				return f
			}
		case "race":
			var idle []int
			for i, r := range w.regs {
				if !r.believes {
					idle = append(idle, i)
				}
			}
			if len(idle) < 2 {
				continue
			}
			type res struct {
				exp  <-chan struct{}
				stop func()
				err  error
			}
			out := make([]res, len(idle))
			var wg sync.WaitGroup
			for k, i := range idle {
				k, i := k, i
				wg.Add(1)
				go func() {
					defer wg.Done()
					e, s, err := w.startOne(w.regs[i])
					out[k] = res{e, s, err}
				}()
			}
			wg.Wait()
			wins := 0
			for k, i := range idle {
				if out[k].err == nil {
					wins++
					r := w.regs[i]
					r.believes, r.lapsed, r.expiry, r.stop = true, false, out[k].exp, out[k].stop
				} else if !errors.Is(out[k].err, types.ErrKeyExists) {
					return w.fail("register-error", "%s: racing registration of %d failed with an unexpected error: %v", where, i, out[k].err)
				}
			}
			held := w.currentHolderReg() >= 0 || w.holder == holderHarness
			switch {
			case wins > 1:
				return w.fail("race:two-winners", "%s: %d of %d concurrent registrations on one key succeeded", where, wins, len(idle))
			case wins == 1 && held:
				return w.fail("overlap:registered-while-another-holds", "%s: a concurrent registration succeeded while %s holds the key", where, w.holderName())
			}
			rec.label("race=wins:%d", wins)
			if wins == 1 {
				for _, i := range idle {
					if w.regs[i].believes {
						w.holder = i
						if w.efix != nil {
							_, w.regs[i].lease, _ = w.efix.lease(w.path)
						}
					}
				}
			}
		case "wait":
			k := s.Ticks
			if k < 1 {
				k = 1
			}
			time.Sleep(time.Duration(k) * w.tick)
			rec.label("wait")
		case "keepalive":
			// redis only: virtual time passes in two halves with one real heartbeat between
			// them; afterwards the model is re-synchronised with the store
			hi := w.currentHolderReg()
			if w.rfix == nil || hi < 0 {
				continue
			}
			// (a heartbeat first, so that the TTL is fresh whatever virtual time passed before)
			for k := 0; k < 2; k++ {
				if !w.waitOwnerTick(hi) {
					stats.Inconclusive()
					rec.label("discarded=no-heartbeat-seen")
					return nil
				}
				w.rfix.srv.FastForward(w.h * 6 / 10)
			}
			if ok, _, _ := w.keyState(); ok {
				rec.label("keepalive=held-through-1.2-ttl")
			} else {
				rec.label("keepalive=lost")
				w.regs[hi].lapsed = true
				w.holder = holderNone
			}
		case "stop":
			i := s.Who % n
			r := w.regs[i]
			if !r.believes {
				// a registrant that has been told about its lapse still calls its (now stale)
				// deregistration function later — selfmon and calcium do so in a deferred call;
				// after the notice that call must not touch a key somebody else owns by now
				if r.stop != nil && w.holder != holderNone && w.holder != -2 && w.holder != i {
					st := r.stop
					r.stop = nil
					st()
					if bad, discard, why := w.damaged(); discard {
						return nil
					} else if bad {
						return w.fail("stale-stop-after-noticed-lapse-damaged-successor-key", "%s: registrant %d had been notified of its lapse, %s holds the key now; %d then called its old deregistration function: the successor's key is damaged: %s", where, i, w.holderName(), i, why)
					}
					rec.label("stale-stop-after-noticed-lapse=harmless")
				}
				continue
			}
			r.stop()
			r.believes, r.lapsed = false, false
			if w.holder == i {
				w.holder = holderNone
				if ok, _, _ := w.keyState(); ok {
					rec.label("stop=key-left-behind")
					w.holder = -2 // unknown leftover; nobody's belief
				} else {
					rec.label("stop=own-key-removed")
				}
			} else if w.holder != holderNone && w.holder != -2 {
				if bad, discard, why := w.damaged(); discard {
					return nil
				} else if bad {
					return w.fail(keyStopDeleted, "%s: after registrant %d (not the holder any more) stopped, the key of %s is damaged: %s", where, i, w.holderName(), why)
				}
				rec.label("stop=non-holder-left-successor-alone")
			}
		case "lapse":
			i := w.currentHolderReg()
			if i < 0 {
				continue
			}
			lapses++
			r := w.regs[i]
			if w.efix != nil {
				ok, lease, _ := w.efix.lease(w.path)
				if !ok || lease == 0 {
					if awaitClosed(r.expiry, 30*w.tick) { // its lease ran out by itself (load)
						stats.Inconclusive()
						rec.label("discarded=uninjected-lapse")
						return nil
					}
					return w.fail("holder-key-vanished-without-notification", "%s: registrant %d believes it holds %s but the key is missing or has no lease, and it was not notified within 30 ticks", where, i, w.path)
				}
				ctx, cancel := callCtx()
				_, err := w.efix.raw.Revoke(ctx, lease)
				cancel()
				if err != nil {
					panic(fmt.Sprintf("storettl: revoke: %v", err))
				}
			} else {
				w.rfix.srv.FastForward(w.h + time.Millisecond)
			}
			r.lapsed = true
			w.holder = holderNone
			rec.label("lapse:succ=%s,then=%s", orNone(s.Succ), s.Then)
			// successor
			switch s.Succ {
			case "reg":
				by := s.By % n
				if by == i {
					by = (i + 1) % n
				}
				if f := w.register(by, where+" takeover"); f != nil {
					return f
				}
			case "harness":
				if w.efix != nil {
					ctx, cancel := callCtx()
					g, err := w.efix.raw.Grant(ctx, 60)
					if err == nil {
						_, err = w.efix.raw.Put(ctx, w.path, harnessValue, clientv3.WithLease(g.ID))
					}
					cancel()
					if err != nil {
						panic(fmt.Sprintf("storettl: harness successor: %v", err))
					}
					w.hLease = g.ID
				} else {
					_ = w.rfix.srv.Set(w.path, harnessValue)
					w.rfix.srv.SetTTL(w.path, w.h)
				}
				w.holder = holderHarness
				rec.label("register=takeover-while-lapsed-owner-alive")
				rec.nt = true
			}
			switch s.Then {
			case "later":
			case "stop":
				r.stop()
				r.believes, r.lapsed = false, false
				if bad, discard, why := w.damaged(); discard {
					return nil
				} else if bad {
					return w.fail(keyStopDeleted, "%s: registrant %d lapsed, %s took the key over, then %d stopped: the successor's key is damaged: %s", where, i, w.holderName(), i, why)
				}
				rec.label("lapse-then-stop=ok")
			case "refresh":
				if w.rfix != nil && w.holder == holderHarness {
					// the successor never refreshes: 0.6 h + one heartbeat of the old owner +
					// 0.6 h later an untouched key is gone, a refreshed one is still there
					w.rfix.srv.FastForward(w.h * 6 / 10)
					if bad, discard, why := w.damaged(); discard {
						return nil
					} else if bad {
						return w.fail("successor-key-damaged-by-old-owner", "%s: after the lapse of %d and 0.6 TTL of virtual time the successor's key is damaged: %s", where, i, why)
					}
					if !w.waitOwnerTick(i) {
						stats.Inconclusive()
						rec.label("discarded=no-heartbeat-seen")
						return nil
					}
					w.rfix.srv.FastForward(w.h * 6 / 10)
					if ok, _, val := w.keyState(); ok {
						return w.fail(keyRefreshExtended, "%s: the harness-owned successor wrote the key with TTL %v and never refreshed it; 1.2 TTL of virtual time later (one heartbeat of lapsed registrant %d in between) the key still exists (value %q): somebody else's heartbeat extended it",
							where, w.h, i, val)
					}
					w.holder = holderNone
					rec.label("refresh-probe=untouched")
				}
				fallthrough
			default: // await
				// Redis, nobody took over: should the old owner answer its lapse with a DEL,
				// a key created by somebody else just before that DEL must survive it
				var fired atomic.Bool
				if w.rfix != nil && w.holder == holderNone {
					w.rfix.setTrap(w.path, func(cmd string) {
						if cmd == "DEL" && fired.CompareAndSwap(false, true) {
							_ = w.rfix.srv.Set(w.path, harnessValue)
							w.rfix.srv.SetTTL(w.path, 10*w.h)
						}
					})
				}
				f := w.awaitNotification(i, where)
				if w.rfix != nil {
					w.rfix.setTrap(w.path, nil)
				}
				if f != nil {
					return f
				}
				if fired.Load() {
					ok, _, val := w.keyState()
					if !ok || val != harnessValue {
						return w.fail("old-owner-deleted-key-created-after-its-lapse", "%s: registrant %d noticed its lapse and sent DEL; a key written by somebody else just before that DEL was deleted by it", where, i)
					}
					w.rfix.srv.Del(w.path)
					rec.label("lapse-del-trap=fired-but-harmless")
				}
				if bad, discard, why := w.damaged(); discard {
					return nil
				} else if bad {
					return w.fail("successor-key-damaged-by-old-owner", "%s: registrant %d lapsed and was notified; meanwhile the key of %s got damaged: %s", where, i, w.holderName(), why)
				}
			}
			w.removeHarnessKey()
		default:
			panic("storettl: unknown op " + s.Op)
		}
	}
	// every injected lapse must be noticed, also the ones nobody waited for
	for i, r := range w.regs {
		if r.believes && r.lapsed {
			if f := w.awaitNotification(i, "end of script"); f != nil {
				return f
			}
		}
	}
	if bad, discard, why := w.damaged(); discard {
		return nil
	} else if bad && !w.spurious() {
		return w.fail("successor-key-damaged-by-old-owner", "end of script: the key of %s is damaged: %s", w.holderName(), why)
	}
	rec.label("via=%s", c.Via)
	rec.label("lapses=%d", lapses)
	return nil
}

func orNone(s string) string {
	if s == "" {
		return "none"
	}
	return s
}

// ---------------------------------------------------------------------------------------
// generator

func genEphCase(t *rapid.T, backend string) EphCase {
	c := EphCase{Backend: backend}
	c.Via = rapid.SampledFrom([]string{"ephemeral", "ephemeral", "service"}).Draw(t, "via")
	if backend == "etcd" {
		c.HeartbeatMs = rapid.SampledFrom([]int{2000, 2000, 3000, 3000, 3000, 1500, 1000}).Draw(t, "heartbeat")
	} else {
		c.HeartbeatMs = rapid.SampledFrom([]int{1000, 1000, 1000, 2000}).Draw(t, "heartbeat")
	}
	c.N = rapid.IntRange(2, 3).Draw(t, "n")
	nsteps := 3 + rapid.IntRange(0, 4).Draw(t, "nsteps")
	// the generator tracks who holds the key so that lapses hit a live holder
	holder := -1
	believes := make([]bool, c.N)
	pendingLapsed := -1 // redis/etcd: a lapsed owner that was left alone ("later")
	c.Steps = append(c.Steps, EphStep{Op: "register", Who: rapid.IntRange(0, c.N-1).Draw(t, "first")})
	holder = c.Steps[0].Who
	believes[holder] = true
	waits := 0
	for len(c.Steps) < nsteps {
		p := vt.Pct(t, "op")
		var s EphStep
		switch {
		case holder >= 0 && p < 45:
			s = EphStep{Op: "lapse"}
			s.Succ = rapid.SampledFrom([]string{"", "reg", "reg", "harness", "harness"}).Draw(t, "succ")
			s.By = rapid.IntRange(0, c.N-1).Draw(t, "by")
			if s.By == holder {
				s.By = (holder + 1) % c.N
			}
			switch s.Succ {
			case "":
				s.Then = rapid.SampledFrom([]string{"await", "later", "stop", "later"}).Draw(t, "then")
			case "reg":
				s.Then = rapid.SampledFrom([]string{"await", "await", "stop"}).Draw(t, "then")
			default:
				s.Then = rapid.SampledFrom([]string{"await", "stop", "refresh"}).Draw(t, "then")
				if backend == "etcd" && s.Then == "refresh" {
					s.Then = "await"
				}
			}
			if backend == "redis" {
				// regions of the known findings (no ownership token in the Redis key)
				excluded := false
				switch {
				case s.Succ != "" && s.Then == "await", s.Succ == "" && s.Then == "later":
					excluded = vt.Exclude("C26", "redis:"+keyNotNotifiedTakeover)
				case s.Succ != "" && s.Then == "stop":
					excluded = vt.Exclude("C26", "redis:"+keyStopDeleted)
				case s.Then == "refresh":
					excluded = vt.Exclude("C26", "redis:"+keyRefreshExtended)
				}
				if excluded {
					s.Succ = ""
					s.Then = rapid.SampledFrom([]string{"await", "stop"}).Draw(t, "thenExcl")
				}
			}
			old := holder
			believes[old] = false
			holder = -1
			if s.Succ == "reg" && !believes[s.By] {
				holder = s.By
				believes[s.By] = true
			}
			if s.Then == "later" {
				believes[old] = true
				pendingLapsed = old
			}
		case p < 62:
			s = EphStep{Op: "register", Who: rapid.IntRange(0, c.N-1).Draw(t, "who")}
			if !believes[s.Who] && holder < 0 {
				holder = s.Who
				believes[s.Who] = true
			}
		case p < 70:
			s = EphStep{Op: "race"}
			if holder < 0 {
				for i := range believes {
					if !believes[i] {
						believes[i] = true // somebody wins; the generator does not know who
						holder = -2
						break
					}
				}
			}
		case p < 82:
			s = EphStep{Op: "stop", Who: rapid.IntRange(0, c.N-1).Draw(t, "who")}
			if holder == -2 {
				holder = -1
				for i := range believes {
					believes[i] = false
				}
				c.Steps = append(c.Steps, EphStep{Op: "stop", Who: 0}, EphStep{Op: "stop", Who: 1})
				s.Who = 2
			} else {
				if pendingLapsed == s.Who && backend == "redis" && holder >= 0 && holder != s.Who && vt.Exclude("C26", "redis:"+keyStopDeleted) {
					s = EphStep{Op: "wait", Ticks: 1}
					break
				}
				if believes[s.Who] {
					believes[s.Who] = false
					if holder == s.Who {
						holder = -1
					}
				}
			}
		case p < 92 && backend == "redis":
			s = EphStep{Op: "keepalive"}
		default:
			if waits >= 2 {
				s = EphStep{Op: "register", Who: rapid.IntRange(0, c.N-1).Draw(t, "who")}
				if !believes[s.Who] && holder < 0 {
					holder = s.Who
					believes[s.Who] = true
				}
				break
			}
			s = EphStep{Op: "wait", Ticks: rapid.IntRange(1, 3).Draw(t, "ticks")}
			waits++
		}
		c.Steps = append(c.Steps, s)
	}
	return c
}

// ---------------------------------------------------------------------------------------
// fixtures and tests

var (
	ephEtcdMu     sync.Mutex
	ephEtcdStores = map[*etcdFix][]store.Store{}

	redisPoolMu sync.Mutex
	redisPool   []*ephRedis
)

type ephRedis struct {
	fix    *redisFix
	stores []store.Store
}

func acquireRedis() *ephRedis {
	redisPoolMu.Lock()
	defer redisPoolMu.Unlock()
	if n := len(redisPool); n > 0 {
		r := redisPool[n-1]
		redisPool = redisPool[:n-1]
		r.fix.srv.FlushAll()
		return r
	}
	r := &ephRedis{fix: newRedisFixture()}
	for i := 0; i < 3; i++ {
		r.stores = append(r.stores, r.fix.newStore())
	}
	return r
}

func releaseRedis(r *ephRedis) {
	redisPoolMu.Lock()
	redisPool = append(redisPool, r)
	redisPoolMu.Unlock()
}

func runEphBatch(x *vt.Ctx, b EphBatch) *vt.Finding {
	finds := make([]*vt.Finding, len(b.Scenarios))
	recs := make([]*recorder, len(b.Scenarios))
	var wg sync.WaitGroup
	for i := range b.Scenarios {
		i := i
		c := b.Scenarios[i]
		recs[i] = &recorder{}
		var efix *etcdFix
		var stores []store.Store
		var er *ephRedis
		if c.Backend == "etcd" {
			efix = etcdFixture()
			ephEtcdMu.Lock()
			stores = ephEtcdStores[efix]
			if stores == nil {
				for k := 0; k < 3; k++ {
					stores = append(stores, efix.newStore())
				}
				ephEtcdStores[efix] = stores
			}
			ephEtcdMu.Unlock()
		} else {
			er = acquireRedis()
			stores = er.stores
		}
		wg.Add(1)
		go func() {
			defer wg.Done()
			if er != nil {
				defer releaseRedis(er)
				finds[i] = runEph(c, nil, er.fix, stores, recs[i])
				return
			}
			finds[i] = runEph(c, efix, nil, stores, recs[i])
		}()
	}
	wg.Wait()
	for _, r := range recs {
		r.flush(x)
	}
	stats.Evals(len(b.Scenarios) - 1)
	for i, f := range finds {
		if f != nil {
			f.Msg = fmt.Sprintf("scenario %d: %s", i, f.Msg)
			return f
		}
	}
	return nil
}

func genEphBatch(backend string, k int) func(t *rapid.T) EphBatch {
	return func(t *rapid.T) EphBatch {
		var b EphBatch
		for i := 0; i < k; i++ {
			b.Scenarios = append(b.Scenarios, genEphCase(t, backend))
		}
		return b
	}
}

var propC26Etcd = vt.Prop[EphBatch]{ID: "C26", Test: "TestC26Etcd", Gen: genEphBatch("etcd", 6), Run: runEphBatch}
var propC26Redis = vt.Prop[EphBatch]{ID: "C26", Test: "TestC26Redis", Gen: genEphBatch("redis", 6), Run: runEphBatch}

func TestC26Etcd(t *testing.T)  { curT = t; propC26Etcd.Check(t) }
func TestC26Redis(t *testing.T) { curT = t; propC26Redis.Check(t) }
