package storettl

// C26, selfmon part: the "single active node-status watcher" of selfmon is built on
// Store.StartEphemeral(ActiveKey). 2-3 real watchers (selfmon.RunNodeStatusWatcher with a
// harness cluster that only records when a watcher starts and stops monitoring) contend for
// the key; the active one is lapsed from outside or shut down; at no moment may two watchers
// monitor unless the earlier one was lapsed by injection and has not noticed yet, and a lapsed
// one must stop monitoring.

import (
	"context"
	"fmt"
	"sync"
	"testing"
	"time"

	"pgregory.net/rapid"

	"github.com/projecteru2/core/cluster"
	"github.com/projecteru2/core/selfmon"
	"github.com/projecteru2/core/types"

	"verif/internal/stats"
	"verif/internal/vt"
)

// SelfmonCase is one scenario.
type SelfmonCase struct {
	Backend     string   `json:"backend"`
	W           int      `json:"w"`
	HeartbeatMs int      `json:"heartbeat_ms"`
	Steps       []string `json:"steps"` // lapse | handover | wait
}

type monitorLog struct {
	mu      sync.Mutex
	active  map[int]context.Context // watcher -> context of its running monitor
	lapsed  map[int]bool            // lapse injected, not yet noticed
	suspect [][2]int                // (newcomer, still-active other) pairs seen at a monitor start
	starts  int
}

type fakeCluster struct {
	cluster.Cluster
	id  int
	log *monitorLog
}

func (f *fakeCluster) NodeStatusStream(ctx context.Context) chan *types.NodeStatus {
	l := f.log
	l.mu.Lock()
	for id, c := range l.active {
		if id != f.id && c.Err() == nil && !l.lapsed[id] {
			l.suspect = append(l.suspect, [2]int{f.id, id})
		}
	}
	l.active[f.id] = ctx
	l.starts++
	l.mu.Unlock()
	ch := make(chan *types.NodeStatus)
	go func() { <-ctx.Done(); close(ch) }()
	return ch
}

func (f *fakeCluster) ListPodNodes(context.Context, *types.ListNodesOptions) (<-chan *types.Node, error) {
	ch := make(chan *types.Node)
	close(ch)
	return ch, nil
}

func (f *fakeCluster) GetNodeStatus(context.Context, string) (*types.NodeStatus, error) {
	return nil, types.ErrInvaildCount
}

func (f *fakeCluster) SetNode(context.Context, *types.SetNodeOptions) (*types.Node, error) {
	return &types.Node{}, nil
}

func (l *monitorLog) actives() []int {
	l.mu.Lock()
	defer l.mu.Unlock()
	var out []int
	for id, c := range l.active {
		if c.Err() == nil {
			out = append(out, id)
		}
	}
	return out
}

func runSelfmon(x *vt.Ctx, c SelfmonCase) *vt.Finding {
	be := c.Backend
	cfg := coreConfig()
	h := time.Duration(c.HeartbeatMs) * time.Millisecond
	tick := h / 3
	cfg.HAKeepaliveInterval = h
	cfg.ConnectionTimeout = 100 * time.Millisecond
	var efix *etcdFix
	var er *ephRedis
	if be == "etcd" {
		efix = etcdFixture()
		cfg.Store = types.Etcd
	} else {
		er = acquireRedis()
		defer releaseRedis(er)
		cfg = er.fix.cfg
		cfg.HAKeepaliveInterval = h
		cfg.ConnectionTimeout = 100 * time.Millisecond
	}
	log := &monitorLog{active: map[int]context.Context{}, lapsed: map[int]bool{}}
	type watcher struct {
		cancel context.CancelFunc
		done   chan struct{}
	}
	watchers := map[int]*watcher{}
	next := 0
	start := func() {
		id := next
		next++
		ctx, cancel := context.WithCancel(context.Background())
		w := &watcher{cancel: cancel, done: make(chan struct{})}
		watchers[id] = w
		go func() {
			defer close(w.done)
			selfmon.RunNodeStatusWatcher(ctx, cfg, &fakeCluster{id: id, log: log}, curT)
		}()
	}
	defer func() {
		for _, w := range watchers {
			w.cancel()
		}
		for _, w := range watchers {
			select {
			case <-w.done:
			case <-time.After(30 * time.Second):
			}
		}
		if efix != nil { // whatever is left of the key
			ctx, cancel := callCtx()
			_, _ = efix.raw.Delete(ctx, selfmon.ActiveKey)
			cancel()
		}
	}()
	for i := 0; i < c.W; i++ {
		start()
	}
	// waitOne: exactly one watcher monitors (registration retries every second)
	waitOne := func(where string) (int, *vt.Finding) {
		deadline := time.Now().Add(40 * time.Second)
		for time.Now().Before(deadline) {
			if a := log.actives(); len(a) == 1 {
				return a[0], nil
			}
			time.Sleep(20 * time.Millisecond)
		}
		a := log.actives()
		if len(a) == 0 {
			stats.Inconclusive() // liveness, not part of the statement
			x.Label("selfmon=nobody-active(discarded)")
			return -1, nil
		}
		return -1, vt.Failf(be+":selfmon:two-active-watchers", "%s: watchers %v all monitor at the same time for 40 s", where, a)
	}
	judgeSuspects := func(where string) *vt.Finding {
		log.mu.Lock()
		sus := log.suspect
		log.suspect = nil
		log.mu.Unlock()
		for _, p := range sus {
			// the other one was monitoring, un-lapsed, when the newcomer started: only a
			// violation if it stays that way (otherwise its key really had expired: load)
			log.mu.Lock()
			other := log.active[p[1]]
			log.mu.Unlock()
			ok := false
			deadline := time.Now().Add(30 * tick)
			for time.Now().Before(deadline) {
				if other.Err() != nil {
					ok = true
					break
				}
				time.Sleep(20 * time.Millisecond)
			}
			if !ok {
				return vt.Failf(be+":selfmon:two-active-watchers", "%s: watcher %d started monitoring while watcher %d was (and stays) active without any injected lapse", where, p[0], p[1])
			}
			stats.Inconclusive()
			x.Label("selfmon=uninjected-lapse")
		}
		return nil
	}
	active, f := waitOne("start")
	if f != nil || active < 0 {
		return f
	}
	lapses := 0
	for si, op := range c.Steps {
		where := fmt.Sprintf("step %d (%s)", si, op)
		switch op {
		case "wait":
			time.Sleep(2 * tick)
		case "handover":
			w := watchers[active]
			w.cancel()
			select {
			case <-w.done:
			case <-time.After(30 * time.Second):
				return vt.Failf(be+":selfmon:watcher-did-not-stop", "%s: watcher %d did not return 30 s after its context was cancelled", where, active)
			}
			delete(watchers, active)
			start()
			x.Label("selfmon=handover")
		case "lapse":
			lapses++
			log.mu.Lock()
			log.lapsed[active] = true
			mctx := log.active[active]
			log.mu.Unlock()
			if efix != nil {
				ok, lease, _ := efix.lease(selfmon.ActiveKey)
				if !ok || lease == 0 {
					return vt.Failf(be+":selfmon:active-key-missing", "%s: watcher %d monitors but %s is missing", where, active, selfmon.ActiveKey)
				}
				ctx, cancel := callCtx()
				_, _ = efix.raw.Revoke(ctx, lease)
				cancel()
			} else {
				er.fix.srv.FastForward(h + time.Millisecond)
			}
			t0 := time.Now()
			for mctx.Err() == nil && time.Since(t0) < 30*tick {
				time.Sleep(10 * time.Millisecond)
			}
			if mctx.Err() == nil {
				return vt.Failf(be+":selfmon:lapsed-watcher-keeps-monitoring", "%s: the active key of watcher %d lapsed (injected) but it still monitors %v later (tick %v); active now: %v", where, active, time.Since(t0).Round(time.Millisecond), tick, log.actives())
			}
			log.mu.Lock()
			log.lapsed[active] = false
			log.mu.Unlock()
			x.Label("selfmon=lapse-noticed")
			x.NonTrivial()
		}
		if f := judgeSuspects(where); f != nil {
			return f
		}
		if active, f = waitOne(where); f != nil || active < 0 {
			return f
		}
		if f := judgeSuspects(where); f != nil {
			return f
		}
	}
	x.Label("selfmon:lapses=%d", lapses)
	return nil
}

func genSelfmon(backend string) func(t *rapid.T) SelfmonCase {
	return func(t *rapid.T) SelfmonCase {
		c := SelfmonCase{Backend: backend, W: rapid.IntRange(2, 3).Draw(t, "w")}
		c.HeartbeatMs = 3000
		ops := []string{"lapse", "lapse", "handover", "wait"}
		if backend == "redis" {
			c.HeartbeatMs = 1000
			// a waiting watcher retries every second and may re-create the key before the
			// lapsed one's next heartbeat: the region of the known finding
			if vt.Exclude("C26", "redis:"+keyNotNotifiedTakeover) {
				ops = []string{"handover", "handover", "wait"}
			}
		}
		n := rapid.IntRange(1, 3).Draw(t, "nsteps")
		for i := 0; i < n; i++ {
			c.Steps = append(c.Steps, rapid.SampledFrom(ops).Draw(t, "op"))
		}
		return c
	}
}

var propC26SelfmonEtcd = vt.Prop[SelfmonCase]{ID: "C26", Test: "TestC26SelfmonEtcd", Gen: genSelfmon("etcd"), Run: runSelfmon}
var propC26SelfmonRedis = vt.Prop[SelfmonCase]{ID: "C26", Test: "TestC26SelfmonRedis", Gen: genSelfmon("redis"), Run: runSelfmon}

func TestC26SelfmonEtcd(t *testing.T)  { curT = t; propC26SelfmonEtcd.Check(t) }
func TestC26SelfmonRedis(t *testing.T) { curT = t; propC26SelfmonRedis.Check(t) }
