// Package store holds the differential / isolation properties of the two metadata back ends:
// C23 (etcd and Redis behave identically) and C24 (queries isolated per app / entrypoint / node).
//
// Back ends: etcdv3.Mercury on the embedded single-member etcd cluster the repo's own tests use
// (etcdv3.New(config, t)), redis.Rediaron on github.com/alicebob/miniredis/v2 (as in
// store/redis/*_test.go). One of each per Go test; every case starts from two wiped stores.
package store

import (
	"context"
	"testing"
	"time"

	"github.com/alicebob/miniredis/v2"
	clientv3 "go.etcd.io/etcd/client/v3"

	enginefactory "github.com/projecteru2/core/engine/factory"
	corestore "github.com/projecteru2/core/store"
	"github.com/projecteru2/core/store/etcdv3"
	"github.com/projecteru2/core/store/redis"
	coretypes "github.com/projecteru2/core/types"

	"verif/internal/vt"
)

func TestMain(m *testing.M) { vt.Main(m) }

// fixture is the pair of stores under comparison.
type fixture struct {
	etcd  *etcdv3.Mercury
	redis *redis.Rediaron
	mini  *miniredis.Miniredis
}

const (
	beEtcd  = "etcd"
	beRedis = "redis"
)

func (f *fixture) backends() []backend {
	return []backend{{beEtcd, f.etcd}, {beRedis, f.redis}}
}

type backend struct {
	name string
	s    corestore.Store
}

var fixtures = map[string]*fixture{}

// getFixture builds (once per Go test) the two stores. Cases are run sequentially inside one
// test, so sharing is safe; wipe() gives every case an empty world.
func getFixture(t *testing.T) *fixture {
	if f := fixtures[t.Name()]; f != nil {
		return f
	}
	cfg := coretypes.Config{}
	cfg.LockTimeout = 10 * time.Second
	cfg.GlobalTimeout = 30 * time.Second
	cfg.ConnectionTimeout = 2 * time.Second
	cfg.MaxConcurrency = 1000
	cfg.Etcd = coretypes.EtcdConfig{Machines: []string{"127.0.0.1:2379"}, Prefix: "/eru-verif", LockPrefix: "/eru-verif-lock"}

	// the stores look engines up in the process-wide engine cache; without it they nil-deref.
	// Like the repo's tests we cancel the checker goroutines right away.
	ctx, cancel := context.WithCancel(context.Background())
	enginefactory.InitEngineCache(ctx, cfg, nil)
	cancel()

	m, err := etcdv3.New(cfg, t)
	if err != nil {
		t.Fatalf("embedded etcd: %v", err)
	}
	mr, err := miniredis.Run()
	if err != nil {
		t.Fatalf("miniredis: %v", err)
	}
	t.Cleanup(mr.Close)
	cfg.Redis = coretypes.RedisConfig{Addr: mr.Addr(), DB: 0}
	r, err := redis.New(cfg, nil)
	if err != nil {
		t.Fatalf("rediaron: %v", err)
	}
	t.Cleanup(r.TerminateEmbededStorage)
	f := &fixture{etcd: m, redis: r, mini: mr}
	fixtures[t.Name()] = f
	t.Cleanup(func() { delete(fixtures, t.Name()) })
	return f
}

// wipe empties both stores (every key of the layout starts with "/").
func (f *fixture) wipe() {
	ctx, cancel := context.WithTimeout(context.Background(), 30*time.Second)
	defer cancel()
	if _, err := f.etcd.Delete(ctx, "/", clientv3.WithPrefix()); err != nil {
		panic("wipe etcd: " + err.Error())
	}
	if resp, err := f.etcd.Get(ctx, "", clientv3.WithPrefix(), clientv3.WithCountOnly()); err != nil || resp.Count != 0 {
		panic("wipe etcd: keys left")
	}
	f.mini.FlushAll()
}
