package store

// C23 — the etcd and the Redis metadata store behave identically.
//
// Case   = a script of store operations over a small name universe.
// Run    = apply every step to Mercury (embedded etcd) and to Rediaron (miniredis), compare
//          success/failure (error texts are NOT compared), the normalised results of reads, and a
//          full read-back snapshot through the Store API after every step; a create that fails
//          must leave each store's own snapshot unchanged.
// Oracle = each back end is the other's reference (differential) + the "failed create changes
//          nothing" invariant on each store separately.

import (
	"context"
	"encoding/json"
	"fmt"
	"sort"
	"strings"
	"sync"
	"testing"
	"time"

	"pgregory.net/rapid"

	corestore "github.com/projecteru2/core/store"
	coretypes "github.com/projecteru2/core/types"
	"github.com/projecteru2/core/utils"

	"verif/internal/vt"
)

// ---------------------------------------------------------------------------------------
// case

// Step is one store operation. Which fields are meaningful depends on Op.
type Step struct {
	Op     string            `json:"op"`
	Pod    string            `json:"pod,omitempty"`
	Node   string            `json:"node,omitempty"`
	ID     string            `json:"id,omitempty"`
	App    string            `json:"app,omitempty"`
	Entry  string            `json:"entry,omitempty"`
	Ident  string            `json:"ident,omitempty"`  // workload-name suffix, or processing ident
	Marker string            `json:"marker,omitempty"` // AddWorkload: ident of the processing marker to decrement ("" = none)
	Labels map[string]string `json:"labels,omitempty"`
	Certs  int               `json:"certs,omitempty"` // bit 1 ca, 2 cert, 4 key
	Test   bool              `json:"test,omitempty"`  // AddNode: mock:// endpoint (test node) or not
	Count  int               `json:"count,omitempty"`
	Limit  int64             `json:"limit,omitempty"`
	TTL    int64             `json:"ttl,omitempty"`
	Flag   bool              `json:"flag,omitempty"` // running / bypass / all
	Raw    bool              `json:"raw,omitempty"`  // Update/RemoveWorkload with a constructed struct instead of the one read back
	Val    string            `json:"val,omitempty"`  // desc / user / status extension
	IDs    []string          `json:"ids,omitempty"`
}

// Case23 is a history.
type Case23 struct {
	Steps []Step `json:"steps"`
}

const (
	opAddPod            = "AddPod"
	opRemovePod         = "RemovePod"
	opAddNode           = "AddNode"
	opRemoveNode        = "RemoveNode"
	opUpdateNode        = "UpdateNode"
	opSetNodeStatus     = "SetNodeStatus"
	opAddWorkload       = "AddWorkload"
	opUpdateWorkload    = "UpdateWorkload"
	opRemoveWorkload    = "RemoveWorkload"
	opSetWorkloadStatus = "SetWorkloadStatus"
	opCreateProcessing  = "CreateProcessing"
	opDeleteProcessing  = "DeleteProcessing"
	opListWorkloads     = "ListWorkloads"
	opListNodeWorkloads = "ListNodeWorkloads"
	opGetNodesByPod     = "GetNodesByPod"
	opGetWorkloads      = "GetWorkloads"
	opGetNodes          = "GetNodes"
	opGetDeployStatus   = "GetDeployStatus"
)

var (
	uniPods    = []string{"p0", "p1"}
	uniNodes   = []string{"n0", "n1", "n2"}
	uniIDs     = []string{"w0", "w1", "w2", "w3"}
	uniApps    = []string{"app", "web"}
	uniEntries = []string{"e", "f"}
	uniIdents  = []string{"i0", "i1"}
	uniPairs   = [][2]string{{"app", "e"}, {"app", "f"}, {"web", "e"}, {"web", "f"}}
	labelSets  = []map[string]string{nil, {"g": "1"}, {"g": "2"}, {"g": "1", "h": "x"}}
)

func isCreate(op string) bool {
	return op == opAddPod || op == opAddNode || op == opAddWorkload || op == opCreateProcessing
}

// ---------------------------------------------------------------------------------------
// generator: a light model of "what probably exists" biases the choice of arguments so that
// successful operations, duplicates and missing entities are all common. It is not an oracle.

type genModel struct {
	pods    map[string]bool
	nodes   map[string]string // node -> pod
	wl      map[string]Step   // id -> AddWorkload step that created it
	gone    map[string]Step   // id -> AddWorkload step of a workload that was removed since
	markers map[string]bool
}

func markerKey(app, entry, node, ident string) string {
	return app + "|" + entry + "|" + node + "|" + ident
}

func pick(t *rapid.T, label string, xs []string) string {
	return xs[rapid.IntRange(0, len(xs)-1).Draw(t, label)]
}

func keysOf[V any](m map[string]V) []string {
	ks := make([]string, 0, len(m))
	for k := range m {
		ks = append(ks, k)
	}
	sort.Strings(ks)
	return ks
}

// prefer picks an existing name with probability pct (when there is one), else any universe name.
func prefer(t *rapid.T, label string, existing []string, universe []string, pct int) string {
	if len(existing) > 0 && vt.Chance(t, label+"?", pct) {
		return pick(t, label+"E", existing)
	}
	return pick(t, label, universe)
}

func genLabels(t *rapid.T) map[string]string {
	return labelSets[rapid.IntRange(0, len(labelSets)-1).Draw(t, "labels")]
}

// mix64 is the splitmix64 finaliser.
func mix64(u uint64) uint64 {
	u += 0x9E3779B97F4A7C15
	u ^= u >> 30
	u *= 0xBF58476D1CE4E5B9
	u ^= u >> 27
	u *= 0x94D049BB133111EB
	u ^= u >> 31
	return u
}

type weighted struct {
	op string
	w  int
}

func genC23(t *rapid.T) Case23 {
	m := &genModel{pods: map[string]bool{}, nodes: map[string]string{}, wl: map[string]Step{}, markers: map[string]bool{}}
	n := rapid.IntRange(3, 22).Draw(t, "nsteps")
	var c Case23
	for i := 0; i < n; i++ {
		st := genStep(t, m)
		m.apply(st)
		c.Steps = append(c.Steps, st)
	}
	// sometimes a workload's whole life ends the history: status reported, removed, and the same
	// workload (id, names, node) recorded again — anything the removal left behind shows in the read-back
	if ids := keysOf(m.wl); len(ids) > 0 && vt.Chance(t, "lifeCycleTail", 25) {
		old := m.wl[pick(t, "tailID", ids)]
		tail := []Step{
			{Op: opSetWorkloadStatus, ID: old.ID, App: old.App, Entry: old.Entry, Node: old.Node, Flag: true, Val: pick(t, "ext", []string{"", "x"})},
			{Op: opRemoveWorkload, ID: old.ID},
			{Op: opAddWorkload, ID: old.ID, App: old.App, Entry: old.Entry, Ident: old.Ident, Node: old.Node, Pod: old.Pod, Labels: old.Labels, Val: old.Val},
			{Op: opGetWorkloads, IDs: []string{old.ID}},
		}
		for _, st := range tail {
			m.apply(st)
			c.Steps = append(c.Steps, st)
		}
	}
	return c
}

func genStep(t *rapid.T, m *genModel) Step {
	ws := []weighted{
		{opAddPod, 6}, {opRemovePod, 4}, {opAddNode, 12}, {opRemoveNode, 5}, {opUpdateNode, 5}, {opSetNodeStatus, 2},
		{opAddWorkload, 16}, {opUpdateWorkload, 6}, {opRemoveWorkload, 6}, {opSetWorkloadStatus, 8},
		{opCreateProcessing, 8}, {opDeleteProcessing, 4},
		{opListWorkloads, 6}, {opListNodeWorkloads, 3}, {opGetNodesByPod, 4}, {opGetWorkloads, 3}, {opGetNodes, 2}, {opGetDeployStatus, 2},
	}
	// early in a history: build something first
	if len(m.pods) == 0 {
		ws = append(ws, weighted{opAddPod, 60})
	} else if len(m.nodes) == 0 {
		ws = append(ws, weighted{opAddNode, 50})
	}
	total := 0
	for _, w := range ws {
		total += w.w
	}
	r := int(mix64(rapid.Uint64().Draw(t, "op")) % uint64(total)) // rapid's integers are biased to small values: mix
	op := ws[len(ws)-1].op
	for _, w := range ws {
		if r < w.w {
			op = w.op
			break
		}
		r -= w.w
	}

	pods, nodes, ids := keysOf(m.pods), keysOf(m.nodes), keysOf(m.wl)
	// operations on an entity kind of which nothing exists yet: mostly create one instead
	switch op {
	case opUpdateWorkload, opRemoveWorkload, opGetWorkloads, opListWorkloads, opListNodeWorkloads:
		if len(ids) == 0 && vt.Chance(t, "needWorkload", 75) {
			op = opAddWorkload
		}
	case opRemoveNode, opUpdateNode, opGetNodes:
		if len(nodes) == 0 && vt.Chance(t, "needNode", 75) {
			op = opAddNode
		}
	}
	st := Step{Op: op}
	switch op {
	case opAddPod:
		st.Pod = pick(t, "pod", uniPods)
		st.Val = pick(t, "desc", []string{"", "d1", "d2"})
	case opRemovePod:
		st.Pod = prefer(t, "pod", pods, uniPods, 70)
	case opAddNode:
		st.Node = pick(t, "node", uniNodes)
		st.Pod = prefer(t, "pod", pods, uniPods, 85)
		st.Labels = genLabels(t)
		if vt.Chance(t, "certs", 40) {
			st.Certs = rapid.IntRange(1, 7).Draw(t, "certmask")
		}
		st.Test = !vt.Chance(t, "realnode", 25)
	case opRemoveNode:
		st.Node = prefer(t, "node", nodes, uniNodes, 75)
	case opUpdateNode:
		st.Node = prefer(t, "node", nodes, uniNodes, 85)
		st.Labels = genLabels(t)
		st.Flag = rapid.Bool().Draw(t, "bypass")
		if vt.Chance(t, "certs", 40) {
			st.Certs = rapid.IntRange(1, 7).Draw(t, "certmask")
		}
		st.Val = pick(t, "endpoint", []string{"", "", "x"})
	case opSetNodeStatus:
		st.Node = prefer(t, "node", nodes, uniNodes, 70)
		st.Pod = m.nodes[st.Node]
		st.TTL = int64(rapid.SampledFrom([]int{0, -1}).Draw(t, "ttl")) // positive TTLs belong to C25
	case opAddWorkload:
		st.ID = pick(t, "id", uniIDs)
		st.Node = prefer(t, "node", nodes, uniNodes, 90)
		st.Pod = m.nodes[st.Node]
		if st.Pod == "" {
			st.Pod = pick(t, "pod", uniPods)
		}
		st.App, st.Entry = pick(t, "app", uniApps), pick(t, "entry", uniEntries)
		st.Ident = pick(t, "suffix", []string{"aaaaaa", "bbbbbb"})
		st.Labels = genLabels(t)
		st.Val = pick(t, "user", []string{"", "root"})
		// the same workload coming back (same id, names and node) after it was removed: whatever the
		// removal left behind under those names would show now
		if len(m.gone) > 0 && vt.Chance(t, "comeBack", 35) {
			old := m.gone[pick(t, "goneID", keysOf(m.gone))]
			if _, live := m.wl[old.ID]; !live {
				st.ID, st.App, st.Entry, st.Ident, st.Node, st.Pod = old.ID, old.App, old.Entry, old.Ident, old.Node, old.Pod
			}
		} else
		// a pending marker somewhere: usually deploy "under" it, as calcium does
		if len(m.markers) > 0 && vt.Chance(t, "useMarker", 60) {
			p := strings.Split(pick(t, "marker", keysOf(m.markers)), "|")
			st.App, st.Entry, st.Node, st.Marker = p[0], p[1], p[2], p[3]
			if pod, ok := m.nodes[st.Node]; ok {
				st.Pod = pod
			}
		} else if vt.Chance(t, "missingMarker", 12) {
			st.Marker = pick(t, "markerIdent", uniIdents)
		}
	case opUpdateWorkload, opRemoveWorkload:
		st.ID = prefer(t, "id", ids, uniIDs, 80)
		st.Val = pick(t, "user", []string{"", "root", "nobody"})
		st.Labels = genLabels(t)
		if vt.Chance(t, "raw", 25) {
			st.Raw = true
			if old, ok := m.wl[st.ID]; ok && vt.Chance(t, "rawSame", 70) {
				st.App, st.Entry, st.Ident, st.Node, st.Pod = old.App, old.Entry, old.Ident, old.Node, old.Pod
			} else {
				st.App, st.Entry = pick(t, "app", uniApps), pick(t, "entry", uniEntries)
				st.Ident = pick(t, "suffix", []string{"aaaaaa", "bbbbbb"})
				st.Node = prefer(t, "node", nodes, uniNodes, 80)
				st.Pod = m.nodes[st.Node]
			}
		}
	case opSetWorkloadStatus:
		st.ID = prefer(t, "id", ids, uniIDs, 70)
		if old, ok := m.wl[st.ID]; ok && vt.Chance(t, "statusSame", 90) {
			st.App, st.Entry, st.Node = old.App, old.Entry, old.Node
		} else {
			st.App, st.Entry = pick(t, "app", uniApps), pick(t, "entry", uniEntries)
			st.Node = prefer(t, "node", nodes, uniNodes, 80)
		}
		st.Flag = rapid.Bool().Draw(t, "running")
		st.Val = pick(t, "ext", []string{"", "x", "y"})
	case opCreateProcessing, opDeleteProcessing:
		st.App, st.Entry = pick(t, "app", uniApps), pick(t, "entry", uniEntries)
		st.Node = prefer(t, "node", nodes, uniNodes, 85)
		st.Ident = pick(t, "ident", uniIdents)
		if op == opCreateProcessing {
			st.Count = rapid.IntRange(1, 3).Draw(t, "count")
			if len(m.markers) > 0 && vt.Chance(t, "dupMarker", 20) {
				p := strings.Split(pick(t, "marker", keysOf(m.markers)), "|")
				st.App, st.Entry, st.Node, st.Ident = p[0], p[1], p[2], p[3]
			}
		} else if len(m.markers) > 0 && vt.Chance(t, "delExisting", 70) {
			p := strings.Split(pick(t, "marker", keysOf(m.markers)), "|")
			st.App, st.Entry, st.Node, st.Ident = p[0], p[1], p[2], p[3]
		}
	case opListWorkloads:
		switch rapid.IntRange(0, 3).Draw(t, "depth") {
		case 1:
			st.App = pick(t, "app", uniApps)
		case 2:
			st.App, st.Entry = pick(t, "app", uniApps), pick(t, "entry", uniEntries)
		case 3:
			st.App, st.Entry, st.Node = pick(t, "app", uniApps), pick(t, "entry", uniEntries), pick(t, "node", uniNodes)
		}
		st.Limit = int64(rapid.SampledFrom([]int{0, 0, 1, 2, 3}).Draw(t, "limit"))
		if vt.Chance(t, "lbl", 40) {
			st.Labels = genLabels(t)
		}
	case opListNodeWorkloads:
		st.Node = prefer(t, "node", nodes, uniNodes, 80)
		if vt.Chance(t, "lbl", 40) {
			st.Labels = genLabels(t)
		}
	case opGetNodesByPod:
		st.Pod = pick(t, "pod", append([]string{""}, uniPods...))
		st.Flag = rapid.Bool().Draw(t, "all")
		if vt.Chance(t, "lbl", 50) {
			st.Labels = genLabels(t)
		}
	case opGetWorkloads:
		k := rapid.IntRange(0, 3).Draw(t, "k")
		for j := 0; j < k; j++ {
			st.IDs = append(st.IDs, prefer(t, "id", ids, uniIDs, 85))
		}
	case opGetNodes:
		k := rapid.IntRange(0, 3).Draw(t, "k")
		for j := 0; j < k; j++ {
			st.IDs = append(st.IDs, prefer(t, "node", nodes, uniNodes, 85))
		}
	case opGetDeployStatus:
		st.App, st.Entry = pick(t, "app", uniApps), pick(t, "entry", uniEntries)
	}
	return st
}

func (m *genModel) apply(st Step) {
	switch st.Op {
	case opAddPod:
		m.pods[st.Pod] = true
	case opRemovePod:
		has := false
		for _, p := range m.nodes {
			has = has || p == st.Pod
		}
		if !has {
			delete(m.pods, st.Pod)
		}
	case opAddNode:
		if _, ok := m.nodes[st.Node]; !ok && m.pods[st.Pod] {
			m.nodes[st.Node] = st.Pod
		}
	case opRemoveNode:
		delete(m.nodes, st.Node)
	case opAddWorkload:
		if st.Marker != "" {
			if m.markers[markerKey(st.App, st.Entry, st.Node, st.Marker)] {
				m.wl[st.ID] = st
			}
		} else if _, ok := m.wl[st.ID]; !ok {
			m.wl[st.ID] = st
		}
	case opRemoveWorkload:
		if old, ok := m.wl[st.ID]; ok {
			if m.gone == nil {
				m.gone = map[string]Step{}
			}
			m.gone[st.ID] = old
		}
		delete(m.wl, st.ID)
	case opCreateProcessing:
		m.markers[markerKey(st.App, st.Entry, st.Node, st.Ident)] = true
	case opDeleteProcessing:
		delete(m.markers, markerKey(st.App, st.Entry, st.Node, st.Ident))
	}
}

// ---------------------------------------------------------------------------------------
// read-back snapshot through the Store API

type snapshot struct {
	q       map[string]string // query -> normalised answer ("ERR" for a failure)
	pods    map[string]bool
	nodePod map[string]string
	wl      map[string]wlInfo
}

type wlInfo struct{ Name, Node string }

func errOr(err error, v any) string {
	if err != nil {
		return "ERR"
	}
	b, _ := json.Marshal(v)
	return string(b)
}

type nodeView struct {
	Name      string            `json:"name"`
	Endpoint  string            `json:"endpoint"`
	Podname   string            `json:"podname"`
	Labels    map[string]string `json:"labels,omitempty"`
	Bypass    bool              `json:"bypass"`
	Test      bool              `json:"test"`
	Available bool              `json:"available"`
}

func viewNode(n *coretypes.Node) nodeView {
	v := nodeView{Name: n.Name, Endpoint: n.Endpoint, Podname: n.Podname, Bypass: n.Bypass, Test: n.Test, Available: n.Available}
	if len(n.Labels) > 0 {
		v.Labels = n.Labels
	}
	return v
}

func viewNodes(ns []*coretypes.Node) []nodeView {
	seen := map[string]bool{}
	out := []nodeView{}
	for _, n := range ns {
		v := viewNode(n)
		b, _ := json.Marshal(v)
		if seen[string(b)] {
			continue
		}
		seen[string(b)] = true
		out = append(out, v)
	}
	sort.Slice(out, func(i, j int) bool {
		if out[i].Name != out[j].Name {
			return out[i].Name < out[j].Name
		}
		return out[i].Podname < out[j].Podname
	})
	return out
}

type wlView struct {
	W      json.RawMessage `json:"w"`
	Status json.RawMessage `json:"status,omitempty"`
	id     string
}

func viewWorkload(w *coretypes.Workload) wlView {
	cp := *w
	if len(cp.Labels) == 0 {
		cp.Labels = nil
	}
	b, _ := json.Marshal(&cp)
	v := wlView{W: b, id: w.ID}
	if w.StatusMeta != nil {
		v.Status, _ = json.Marshal(w.StatusMeta)
	}
	return v
}

func viewWorkloads(ws []*coretypes.Workload) []wlView {
	seen := map[string]bool{}
	out := []wlView{}
	for _, w := range ws {
		v := viewWorkload(w)
		k := string(v.W) + "|" + string(v.Status)
		if seen[k] {
			continue
		}
		seen[k] = true
		out = append(out, v)
	}
	sort.Slice(out, func(i, j int) bool {
		if out[i].id != out[j].id {
			return out[i].id < out[j].id
		}
		return string(out[i].W) < string(out[j].W)
	})
	return out
}

// takeSnapshot reads everything the Store API can tell about the name universe. The queries are
// independent reads; they run on a few goroutines to keep a history cheap.
func takeSnapshot(ctx context.Context, s corestore.Store) *snapshot {
	sn := &snapshot{q: map[string]string{}, pods: map[string]bool{}, nodePod: map[string]string{}, wl: map[string]wlInfo{}}
	var mu sync.Mutex
	set := func(k, v string) { mu.Lock(); sn.q[k] = v; mu.Unlock() }
	var jobs []func()
	add := func(f func()) { jobs = append(jobs, f) }

	add(func() {
		pods, err := s.GetAllPods(ctx)
		if err == nil {
			sort.Slice(pods, func(i, j int) bool { return pods[i].Name < pods[j].Name })
		}
		set("GetAllPods", errOr(err, pods))
	})
	for _, p := range uniPods {
		p := p
		add(func() {
			pod, err := s.GetPod(ctx, p)
			set("GetPod/"+p, errOr(err, pod))
			mu.Lock()
			sn.pods[p] = err == nil
			mu.Unlock()
		})
	}
	for _, n := range uniNodes {
		n := n
		add(func() {
			node, err := s.GetNode(ctx, n)
			if err != nil {
				set("GetNode/"+n, "ERR")
			} else {
				set("GetNode/"+n, errOr(nil, viewNode(node)))
				mu.Lock()
				sn.nodePod[n] = node.Podname
				mu.Unlock()
			}
		})
		add(func() {
			cert := &coretypes.Node{NodeMeta: coretypes.NodeMeta{Name: n}}
			err := s.LoadNodeCert(ctx, cert)
			set("LoadNodeCert/"+n, errOr(err, []string{cert.Ca, cert.Cert, cert.Key}))
			st, err := s.GetNodeStatus(ctx, n)
			set("GetNodeStatus/"+n, errOr(err, st))
		})
		add(func() {
			ws, err := s.ListNodeWorkloads(ctx, n, nil)
			set("ListNodeWorkloads/"+n, errOr(err, viewWorkloads(ws)))
		})
	}
	for _, p := range append([]string{""}, uniPods...) {
		p := p
		add(func() {
			ns, err := s.GetNodesByPod(ctx, &coretypes.NodeFilter{Podname: p, All: true})
			set("GetNodesByPod/all/"+p, errOr(err, viewNodes(ns)))
		})
	}
	add(func() {
		ns, err := s.GetNodesByPod(ctx, &coretypes.NodeFilter{Podname: "", All: false})
		set("GetNodesByPod/up/", errOr(err, viewNodes(ns)))
	})
	for _, id := range uniIDs {
		id := id
		add(func() {
			w, err := s.GetWorkload(ctx, id)
			if err != nil {
				set("GetWorkload/"+id, "ERR")
			} else {
				set("GetWorkload/"+id, errOr(nil, viewWorkload(w)))
				mu.Lock()
				sn.wl[id] = wlInfo{Name: w.Name, Node: w.Nodename}
				mu.Unlock()
			}
		})
	}
	add(func() {
		ws, err := s.ListWorkloads(ctx, "", "", "", 0, nil)
		set("ListWorkloads/", errOr(err, viewWorkloads(ws)))
	})
	for _, pr := range uniPairs {
		pr := pr
		add(func() {
			ws, err := s.ListWorkloads(ctx, pr[0], pr[1], "", 0, nil)
			set("ListWorkloads/"+pr[0]+"/"+pr[1], errOr(err, viewWorkloads(ws)))
			ds, err := s.GetDeployStatus(ctx, pr[0], pr[1])
			set("GetDeployStatus/"+pr[0]+"/"+pr[1], errOr(err, ds))
		})
	}

	const workers = 6
	ch := make(chan func())
	var wg sync.WaitGroup
	for i := 0; i < workers; i++ {
		wg.Add(1)
		go func() {
			defer wg.Done()
			for f := range ch {
				f()
			}
		}()
	}
	for _, f := range jobs {
		ch <- f
	}
	close(ch)
	wg.Wait()
	return sn
}

// diff returns the differing queries (sorted) between two snapshots.
func (a *snapshot) diff(b *snapshot) []string {
	var out []string
	for k, v := range a.q {
		if b.q[k] != v {
			out = append(out, k)
		}
	}
	sort.Strings(out)
	return out
}

func queryKind(q string) string {
	if i := strings.IndexByte(q, '/'); i >= 0 {
		return q[:i]
	}
	return q
}

func describeDiff(names [2]string, a, b *snapshot, ks []string) string {
	var sb strings.Builder
	for i, k := range ks {
		if i >= 6 {
			fmt.Fprintf(&sb, "  ... %d more\n", len(ks)-i)
			break
		}
		fmt.Fprintf(&sb, "  %s:\n    %s: %s\n    %s: %s\n", k, names[0], clip(a.q[k]), names[1], clip(b.q[k]))
	}
	return sb.String()
}

func clip(s string) string {
	if len(s) > 600 {
		return s[:600] + "…"
	}
	return s
}

// ---------------------------------------------------------------------------------------
// applying a step

type result struct {
	ok   bool
	err  string
	norm string // normalised read result ("" for writes)
	note string // per-backend self-consistency problem (e.g. limit not respected)
}

func certsOf(mask int, who string) (ca, cert, key string) {
	if mask&1 != 0 {
		ca = "CA-" + who
	}
	if mask&2 != 0 {
		cert = "CERT-" + who
	}
	if mask&4 != 0 {
		key = "KEY-" + who
	}
	return
}

func (st Step) workload() *coretypes.Workload {
	return &coretypes.Workload{
		ID: st.ID, Name: utils.MakeWorkloadName(st.App, st.Entry, st.Ident), Podname: st.Pod, Nodename: st.Node,
		Labels: copyLabels(st.Labels), User: st.Val, Image: "img:" + st.App, Env: []string{"A=1"}, CreateTime: 42,
	}
}

func copyLabels(m map[string]string) map[string]string {
	if m == nil {
		return nil
	}
	o := map[string]string{}
	for k, v := range m {
		o[k] = v
	}
	return o
}

func fin(err error) result {
	if err != nil {
		return result{err: err.Error()}
	}
	return result{ok: true}
}

func apply(ctx context.Context, s corestore.Store, st Step) result {
	switch st.Op {
	case opAddPod:
		_, err := s.AddPod(ctx, st.Pod, st.Val)
		return fin(err)
	case opRemovePod:
		return fin(s.RemovePod(ctx, st.Pod))
	case opAddNode:
		ca, cert, key := certsOf(st.Certs, st.Node)
		ep := "mock://" + st.Node
		if !st.Test {
			ep = "none://" + st.Node // unknown scheme: the engine factory caches an error engine, no I/O
		}
		_, err := s.AddNode(ctx, &coretypes.AddNodeOptions{Nodename: st.Node, Endpoint: ep, Podname: st.Pod, Ca: ca, Cert: cert, Key: key, Labels: copyLabels(st.Labels)})
		return fin(err)
	case opRemoveNode:
		// as calcium.RemoveNode: look the node up, then remove that
		node, err := s.GetNode(ctx, st.Node)
		if err != nil {
			return result{err: "get: " + err.Error()}
		}
		return fin(s.RemoveNode(ctx, node))
	case opUpdateNode:
		// as calcium.SetNode
		node, err := s.GetNode(ctx, st.Node)
		if err != nil {
			return result{err: "get: " + err.Error()}
		}
		node.Bypass = st.Flag
		if st.Val != "" {
			node.Endpoint = node.Endpoint + st.Val
		}
		node.Ca, node.Cert, node.Key = certsOf(st.Certs, st.Node+"'")
		if len(st.Labels) != 0 {
			node.Labels = copyLabels(st.Labels)
		}
		return fin(s.UpdateNodes(ctx, node))
	case opSetNodeStatus:
		node := &coretypes.Node{NodeMeta: coretypes.NodeMeta{Name: st.Node, Podname: st.Pod}}
		return fin(s.SetNodeStatus(ctx, node, st.TTL))
	case opAddWorkload:
		var p *coretypes.Processing
		if st.Marker != "" {
			p = &coretypes.Processing{Appname: st.App, Entryname: st.Entry, Nodename: st.Node, Ident: st.Marker}
		}
		return fin(s.AddWorkload(ctx, st.workload(), p))
	case opUpdateWorkload:
		w := st.workload()
		if !st.Raw {
			var err error
			if w, err = s.GetWorkload(ctx, st.ID); err != nil {
				return result{err: "get: " + err.Error()}
			}
			w.User = st.Val
			if len(st.Labels) != 0 {
				w.Labels = copyLabels(st.Labels)
			}
		}
		return fin(s.UpdateWorkload(ctx, w))
	case opRemoveWorkload:
		w := st.workload()
		if !st.Raw {
			var err error
			if w, err = s.GetWorkload(ctx, st.ID); err != nil {
				return result{err: "get: " + err.Error()}
			}
		}
		return fin(s.RemoveWorkload(ctx, w))
	case opSetWorkloadStatus:
		sm := &coretypes.StatusMeta{ID: st.ID, Running: st.Flag, Healthy: st.Flag, Appname: st.App, Entrypoint: st.Entry, Nodename: st.Node}
		if st.Val != "" {
			sm.Extension = []byte(st.Val)
			sm.Networks = map[string]string{"net": st.Val}
		}
		return fin(s.SetWorkloadStatus(ctx, sm, 0))
	case opCreateProcessing:
		return fin(s.CreateProcessing(ctx, &coretypes.Processing{Appname: st.App, Entryname: st.Entry, Nodename: st.Node, Ident: st.Ident}, st.Count))
	case opDeleteProcessing:
		return fin(s.DeleteProcessing(ctx, &coretypes.Processing{Appname: st.App, Entryname: st.Entry, Nodename: st.Node, Ident: st.Ident}))
	case opListWorkloads:
		// the unlimited answer first: it is what is compared across the stores; a limited list is
		// compared by size and checked against it (which elements a limit keeps is unspecified)
		full, err := s.ListWorkloads(ctx, st.App, st.Entry, st.Node, 0, st.Labels)
		if err != nil {
			return result{err: err.Error()}
		}
		if st.Limit <= 0 {
			return result{ok: true, norm: errOr(nil, viewWorkloads(full))}
		}
		res := result{ok: true}
		ws, err := s.ListWorkloads(ctx, st.App, st.Entry, st.Node, st.Limit, st.Labels)
		if err != nil {
			res.note = "the unlimited list succeeded but the limited one failed: " + err.Error()
			return res
		}
		got := viewWorkloads(ws)
		in := map[string]bool{}
		for _, v := range viewWorkloads(full) {
			in[string(v.W)] = true
		}
		for _, v := range got {
			if !in[string(v.W)] {
				res.note = "limited list returned a workload the unlimited list does not: " + string(v.W)
			}
		}
		if int64(len(got)) > st.Limit {
			res.note = fmt.Sprintf("limit %d returned %d workloads", st.Limit, len(got))
		}
		if len(st.Labels) == 0 {
			// without a label filter the size is determined: min(limit, total)
			res.norm = fmt.Sprintf("size=%d", len(got))
			if want := min(int(st.Limit), len(in)); len(got) != want && res.note == "" {
				res.note = fmt.Sprintf("limit %d over %d workloads returned %d", st.Limit, len(in), len(got))
			}
		}
		return res
	case opListNodeWorkloads:
		ws, err := s.ListNodeWorkloads(ctx, st.Node, st.Labels)
		if err != nil {
			return result{err: err.Error()}
		}
		return result{ok: true, norm: errOr(nil, viewWorkloads(ws))}
	case opGetNodesByPod:
		ns, err := s.GetNodesByPod(ctx, &coretypes.NodeFilter{Podname: st.Pod, Labels: st.Labels, All: st.Flag})
		if err != nil {
			return result{err: err.Error()}
		}
		return result{ok: true, norm: errOr(nil, viewNodes(ns))}
	case opGetWorkloads:
		ws, err := s.GetWorkloads(ctx, st.IDs)
		if err != nil {
			return result{err: err.Error()}
		}
		return result{ok: true, norm: errOr(nil, viewWorkloads(ws))}
	case opGetNodes:
		ns, err := s.GetNodes(ctx, st.IDs)
		if err != nil {
			return result{err: err.Error()}
		}
		return result{ok: true, norm: errOr(nil, viewNodes(ns))}
	case opGetDeployStatus:
		ds, err := s.GetDeployStatus(ctx, st.App, st.Entry)
		return result{ok: err == nil, norm: errOr(err, ds), err: fmt.Sprint(err)}
	}
	panic("unknown op " + st.Op)
}

// condition classifies the state a step meets, from the pre-step snapshot (of the etcd store;
// both were equal before the step) and the markers created so far. It only names the class of
// a divergence (finding key / exclusion), it is not part of the oracle.
func condition(st Step, pre *snapshot, markers map[string]bool, placed map[string]wlInfo) string {
	nodeState := func(n string) string {
		if _, ok := pre.nodePod[n]; ok {
			return "node-exists"
		}
		return "node-missing"
	}
	switch st.Op {
	case opAddPod, opRemovePod:
		if !pre.pods[st.Pod] {
			return "pod-missing"
		}
		for _, p := range pre.nodePod {
			if p == st.Pod {
				return "pod-has-nodes"
			}
		}
		return "pod-empty"
	case opAddNode:
		switch p, ok := pre.nodePod[st.Node]; {
		case !pre.pods[st.Pod]:
			return "pod-missing"
		case !ok:
			return "fresh"
		case p == st.Pod:
			return "exists-same-pod"
		default:
			return "exists-other-pod"
		}
	case opRemoveNode, opUpdateNode, opSetNodeStatus:
		c := nodeState(st.Node)
		if st.Op == opSetNodeStatus {
			c += fmt.Sprintf(",ttl=%d", st.TTL)
		}
		return c
	case opAddWorkload:
		// placed (ids added and not cleanly removed so far) rather than the snapshot: a workload
		// whose node is gone cannot be read back but its keys are still there
		c := "fresh"
		if old, ok := placed[st.ID]; ok {
			c = "exists-same-place"
			if old.Node != st.Node || old.Name != utils.MakeWorkloadName(st.App, st.Entry, st.Ident) {
				c = "exists-elsewhere"
			}
		}
		switch {
		case st.Marker == "":
			c += ",no-marker"
		case markers[markerKey(st.App, st.Entry, st.Node, st.Marker)]:
			c += ",marker-present"
		default:
			c += ",marker-missing"
		}
		return c + "," + nodeState(st.Node)
	case opUpdateWorkload, opRemoveWorkload:
		c := "missing"
		if old, ok := pre.wl[st.ID]; ok {
			c = "exists"
			if st.Raw && (old.Node != st.Node || old.Name != utils.MakeWorkloadName(st.App, st.Entry, st.Ident)) {
				c = "exists-elsewhere"
			}
		} else if old, ok := placed[st.ID]; ok && st.Raw && (old.Node != st.Node || old.Name != utils.MakeWorkloadName(st.App, st.Entry, st.Ident)) {
			// recorded on a node that does not exist (cannot be read back), but its keys are there
			c = "exists-elsewhere"
		}
		if st.Raw {
			c += ",raw"
		}
		return c
	case opSetWorkloadStatus:
		old, ok := pre.wl[st.ID]
		switch {
		case !ok:
			return "workload-missing"
		case old.Node != st.Node || !strings.HasPrefix(old.Name, st.App+"_"+st.Entry+"_"):
			return "workload-exists,names-mismatch"
		}
		return "workload-exists"
	case opCreateProcessing, opDeleteProcessing:
		if markers[markerKey(st.App, st.Entry, st.Node, st.Ident)] {
			return "marker-present"
		}
		return "marker-missing"
	case opListWorkloads:
		c := "nolimit"
		if st.Limit > 0 {
			c = "limit"
		}
		if len(st.Labels) > 0 {
			c += ",labels"
		}
		return c
	}
	return "-"
}

func findingKey(st Step, cond string) string { return "op=" + st.Op + " cond=" + cond }

// ---------------------------------------------------------------------------------------
// run

var cur23 *fixture

func runC23(x *vt.Ctx, c Case23) *vt.Finding {
	f := cur23
	f.wipe()
	ctx, cancel := context.WithTimeout(context.Background(), 120*time.Second)
	defer cancel()
	bes := f.backends()
	names := [2]string{bes[0].name, bes[1].name}

	var pre [2]*snapshot
	for i, b := range bes {
		pre[i] = takeSnapshot(ctx, b.s)
	}
	markers := map[string]bool{}
	placed := map[string]wlInfo{}
	failing, executed := 0, 0
	defer func() {
		x.Label("steps=%d", (executed+4)/5*5)
		if failing > 0 {
			x.NonTrivial()
			x.Label("class=has-failing-step")
		} else {
			x.Label("class=all-steps-succeed")
		}
	}()

	for i, st := range c.Steps {
		cond := condition(st, pre[0], markers, placed)
		key := findingKey(st, cond)
		if vt.Exclude("C23", key) {
			continue // region of a listed finding: skip the step, keep exploring behind it
		}
		if st.Op == opAddWorkload && st.Marker != "" && strings.HasPrefix(cond, "exists-elsewhere") {
			// precondition of AddWorkload: workload ids are engine-assigned and unique, an id never
			// reappears under another name or node. With a marker both stores overwrite blindly (etcd's
			// unit test pins that), which for a re-placed id leaves one id under two deploy keys —
			// a corrupt world in which even a single store answers by map-iteration order.
			x.Label("skipped: id re-placed under a marker")
			continue
		}
		if (st.Op == opRemoveWorkload || st.Op == opUpdateWorkload) && strings.HasPrefix(cond, "exists-elsewhere") {
			// precondition of Update/RemoveWorkload: the caller passes the workload as it is recorded
			// (calcium reads it first). A struct whose names or node differ from the record makes both
			// stores delete/rewrite one half of the keys (the id key) and leave the other half (the
			// deploy and status keys of the real names): a corrupt world, same class as above. The thorough
			// tier produced stores-differ findings only downstream of such steps (DESIGN.md §7.2).
			x.Label("skipped: update/remove with names that differ from the recorded workload")
			continue
		}
		executed++
		var res [2]result
		var post [2]*snapshot
		var wg sync.WaitGroup
		for j, b := range bes {
			j, b := j, b
			wg.Add(1)
			go func() {
				defer wg.Done()
				res[j] = apply(ctx, b.s, st)
				post[j] = takeSnapshot(ctx, b.s)
			}()
		}
		wg.Wait()
		stJSON, _ := json.Marshal(st)
		x.Label("op=%s/%s", st.Op, map[bool]string{true: "ok", false: "fail"}[res[0].ok])
		if !res[0].ok || !res[1].ok {
			failing++
			x.Label("fail: %s", key)
		}
		for j := range bes {
			if res[j].note != "" {
				return vt.Failf(key+" self@"+names[j], "step %d %s on %s: %s", i, stJSON, names[j], res[j].note)
			}
		}
		if res[0].ok != res[1].ok {
			return vt.Failf(fmt.Sprintf("%s result:%s=%s,%s=%s", key, names[0], okStr(res[0].ok), names[1], okStr(res[1].ok)),
				"step %d %s [%s]: %s -> %s, %s -> %s", i, stJSON, cond, names[0], outcome(res[0]), names[1], outcome(res[1]))
		}
		if res[0].norm != res[1].norm {
			return vt.Failf(key+" answer-differs", "step %d %s [%s]: answers differ\n  %s: %s\n  %s: %s", i, stJSON, cond,
				names[0], clip(res[0].norm), names[1], clip(res[1].norm))
		}
		if isCreate(st.Op) && !res[0].ok {
			for j := range bes {
				if d := post[j].diff(pre[j]); len(d) > 0 {
					return vt.Failf(key+" failed-create-changed@"+names[j],
						"step %d %s [%s] failed on %s (%s) but changed that store:\n%s", i, stJSON, cond, names[j], res[j].err,
						describeDiff([2]string{"before", "after"}, pre[j], post[j], d))
				}
			}
		}
		if d := post[0].diff(post[1]); len(d) > 0 {
			return vt.Failf(key+" snapshot:"+queryKind(d[0]), "after step %d %s [%s] (%s on both) the stores differ:\n%s", i, stJSON, cond,
				okStr(res[0].ok), describeDiff(names, post[0], post[1], d))
		}
		// bookkeeping for classification only
		if res[0].ok {
			switch st.Op {
			case opAddWorkload:
				placed[st.ID] = wlInfo{Name: utils.MakeWorkloadName(st.App, st.Entry, st.Ident), Node: st.Node}
			case opRemoveWorkload:
				old, ok := placed[st.ID]
				if ok && (!st.Raw || (old.Node == st.Node && old.Name == utils.MakeWorkloadName(st.App, st.Entry, st.Ident))) {
					delete(placed, st.ID)
				}
			case opCreateProcessing:
				markers[markerKey(st.App, st.Entry, st.Node, st.Ident)] = true
			case opDeleteProcessing:
				delete(markers, markerKey(st.App, st.Entry, st.Node, st.Ident))
			}
		}
		pre = post
	}
	return nil
}

func okStr(ok bool) string {
	if ok {
		return "ok"
	}
	return "err"
}

func outcome(r result) string {
	if r.ok {
		return "ok"
	}
	return "error(" + clip(r.err) + ")"
}

var propC23 = vt.Prop[Case23]{ID: "C23", Test: "TestC23", Gen: genC23, Run: runC23}

func TestC23(t *testing.T) {
	cur23 = getFixture(t)
	propC23.Check(t)
}
