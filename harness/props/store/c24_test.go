package store

// C24 — metadata queries are isolated per application, entrypoint and node, for every name the
// API accepts; and a workload name parses back to the application / entrypoint it was made of.
//
// TestC24Law   : the pure law ParseWorkloadName(MakeWorkloadName(a, e, s)) == (a, e, s).
// TestC24Store : both stores, Store API directly. Names come from an alphabet of letters, digits
//                and the separators the key layout / the back ends give meaning to, filtered ONLY
//                by the API's own validation (types.DeployOptions.Validate incl. Entrypoint.Validate,
//                types.AddNodeOptions.Validate — the real functions are called by the generator).
//                Oracle: the harness's own record of what was created under which names.

import (
	"context"
	"encoding/json"
	"fmt"
	"sort"
	"strings"
	"sync"
	"testing"
	"time"

	"pgregory.net/rapid"

	corestore "github.com/projecteru2/core/store"
	coretypes "github.com/projecteru2/core/types"
	"github.com/projecteru2/core/utils"

	"verif/internal/vt"
)

// ---------------------------------------------------------------------------------------
// names

const nameAlphabet = "ab1_/.-*?[]"

func validApp(app string) bool {
	o := &coretypes.DeployOptions{Name: app, Podname: "pod", Image: "img", Count: 1, Entrypoint: &coretypes.Entrypoint{Name: "e"}}
	return o.Validate() == nil
}

func validEntry(entry string) bool {
	o := &coretypes.DeployOptions{Name: "app", Podname: "pod", Image: "img", Count: 1, Entrypoint: &coretypes.Entrypoint{Name: entry}}
	return o.Validate() == nil
}

func validNode(node string) bool {
	o := &coretypes.AddNodeOptions{Nodename: node, Podname: "pod", Endpoint: "mock://x"}
	return o.Validate() == nil
}

const globChars = "*?[]\\"

// nameClass names the most "dangerous" class among the names (for finding keys / exclusion).
func nameClass(names ...string) string {
	slash, leading, dot, glob := false, false, false, false
	for _, n := range names {
		if strings.HasPrefix(n, "/") {
			leading = true
		}
		if strings.Contains(strings.TrimLeft(n, "/"), "/") {
			slash = true
		}
		for _, p := range strings.Split(n, "/") {
			if p == "." || p == ".." {
				dot = true
			}
		}
		if strings.ContainsAny(n, globChars) {
			glob = true
		}
	}
	switch {
	case slash:
		return "slash"
	case leading:
		return "leading-slash"
	case dot:
		return "dot"
	case glob:
		return "glob"
	}
	return "plain"
}

// namePool returns a family of names related by prefix / separator.
func namePool(t *rapid.T, noGlob bool) []string {
	base := rapid.SampledFrom([]string{"a", "b", "ab", "a1"}).Draw(t, "base")
	c := rapid.SampledFrom([]string{"b", "c", "1"}).Draw(t, "ext")
	all := []string{
		base, base + c, c, base + c + c,
		base + "/" + c, base + "_" + c, base + "-" + c, base + "." + c,
		"/" + base, base + "/", base + "//" + c, ".", "..", base + "/..", base + "/.", "./" + base,
		base + "_", "_" + base,
	}
	if !noGlob {
		all = append(all, base+"*", "*", base+"?", "["+base+c+"]", base+"[", "?", "*"+c)
	}
	n := rapid.IntRange(3, 6).Draw(t, "poolSize")
	pool := []string{base}
	for len(pool) < n {
		pool = append(pool, all[rapid.IntRange(0, len(all)-1).Draw(t, "poolName")])
	}
	if vt.Chance(t, "freeform", 30) {
		runes := []rune(nameAlphabet)
		if noGlob {
			runes = []rune("ab1_/.-")
		}
		pool = append(pool, rapid.StringOfN(rapid.SampledFrom(runes), 1, 4, -1).Draw(t, "free"))
	}
	return pool
}

func filterNames(pool []string, ok func(string) bool) []string {
	var out []string
	for _, n := range pool {
		if ok(n) {
			out = append(out, n)
		}
	}
	return out
}

// ---------------------------------------------------------------------------------------
// pure law

// CaseLaw is one (application, entrypoint, suffix).
type CaseLaw struct {
	App    string `json:"app"`
	Entry  string `json:"entry"`
	Suffix string `json:"suffix"`
}

func genLaw(t *rapid.T) CaseLaw {
	var c CaseLaw
	gen := rapid.StringOfN(rapid.SampledFrom([]rune(nameAlphabet)), 1, 6, -1)
	if vt.Chance(t, "fromPool", 50) {
		pool := namePool(t, false)
		c.App = pool[rapid.IntRange(0, len(pool)-1).Draw(t, "app")]
		c.Entry = pool[rapid.IntRange(0, len(pool)-1).Draw(t, "entry")]
	} else {
		c.App, c.Entry = gen.Draw(t, "app"), gen.Draw(t, "entry")
	}
	// only what the API accepts
	if !validApp(c.App) {
		c.App = "a"
	}
	if !validEntry(c.Entry) {
		c.Entry = strings.ReplaceAll(c.Entry, "_", "-")
		if !validEntry(c.Entry) {
			c.Entry = "e"
		}
	}
	// calcium: utils.RandomString(6) — letters only
	c.Suffix = rapid.StringOfN(rapid.SampledFrom([]rune("abcxyzABCXYZ")), 1, 8, -1).Draw(t, "suffix")
	return c
}

func runLaw(x *vt.Ctx, c CaseLaw) *vt.Finding {
	// the property quantifies over names the API accepts (a replayed case may hold others)
	if !validApp(c.App) || !validEntry(c.Entry) {
		x.Label("law: rejected-by-api-validation")
		return nil
	}
	cls := nameClass(c.App, c.Entry)
	x.Label("law: name-class=%s", cls)
	if strings.Contains(c.App, "_") {
		x.Label("law: app-with-underscore")
	}
	if cls != "plain" || strings.Contains(c.App, "_") {
		x.NonTrivial()
	}
	name := utils.MakeWorkloadName(c.App, c.Entry, c.Suffix)
	a, e, s, err := utils.ParseWorkloadName(name)
	if err != nil || a != c.App || e != c.Entry || s != c.Suffix {
		return vt.Failf("law:name-class="+cls, "ParseWorkloadName(MakeWorkloadName(%q, %q, %q) = %q) = (%q, %q, %q, %v)", c.App, c.Entry, c.Suffix, name, a, e, s, err)
	}
	return nil
}

var propC24Law = vt.Prop[CaseLaw]{ID: "C24", Test: "TestC24Law", Gen: genLaw, Run: runLaw}

func TestC24Law(t *testing.T) { propC24Law.Check(t) }

// ---------------------------------------------------------------------------------------
// store part: case

// Triple is (application, entrypoint, node); in a query empty trailing fields mean "any".
type Triple struct {
	App   string `json:"app"`
	Entry string `json:"entry"`
	Node  string `json:"node"`
}

// WL is one workload created under triple T; its id is "id<index>".
type WL struct {
	T      int    `json:"t"`
	Suffix string `json:"suffix"`
	G      string `json:"g"`                // value of label "g"
	Marker bool   `json:"marker,omitempty"` // added "under" the pending processing marker of its triple, if there is one
	Status bool   `json:"status,omitempty"` // a status (TTL 0) is reported for it
	Remove bool   `json:"remove,omitempty"` // removed again before the second round of queries
}

// Pending is a processing marker left pending for triple T.
type Pending struct {
	T     int    `json:"t"`
	Ident string `json:"ident"`
	Count int    `json:"count"`
}

// Case24 is one world plus the queries asked about it.
type Case24 struct {
	Triples   []Triple  `json:"triples"`
	Workloads []WL      `json:"workloads"`
	Pending   []Pending `json:"pending,omitempty"`
	Probes    []Triple  `json:"probes"`            // queried in addition to the triples themselves
	Streams   []Triple  `json:"streams,omitempty"` // WorkloadStatusStream filters (etcd only)
}

func genC24(t *rapid.T) Case24 {
	noGlob := vt.Exclude("C24", "name-class=glob@redis")
	pool := namePool(t, noGlob)
	apps, entries, nodes := filterNames(pool, validApp), filterNames(pool, validEntry), filterNames(pool, validNode)
	sel := func(label string, xs []string) string { return xs[rapid.IntRange(0, len(xs)-1).Draw(t, label)] }

	var c Case24
	nt := rapid.IntRange(2, 5).Draw(t, "ntriples")
	seen := map[Triple]bool{}
	for i := 0; i < nt; i++ {
		tr := Triple{sel("app", apps), sel("entry", entries), sel("node", nodes)}
		if seen[tr] {
			continue
		}
		seen[tr] = true
		c.Triples = append(c.Triples, tr)
	}
	for i := range c.Triples {
		k := rapid.IntRange(1, 3).Draw(t, "nwl")
		for j := 0; j < k; j++ {
			c.Workloads = append(c.Workloads, WL{
				T: i, Suffix: rapid.SampledFrom([]string{"aaaaaa", "bbbbbb", "cccccc"}).Draw(t, "suffix"),
				G: rapid.SampledFrom([]string{"0", "1"}).Draw(t, "g"), Marker: vt.Chance(t, "underMarker", 30),
				Status: vt.Chance(t, "status", 50), Remove: vt.Chance(t, "remove", 25),
			})
		}
		if vt.Chance(t, "pending", 35) {
			c.Pending = append(c.Pending, Pending{T: i, Ident: rapid.SampledFrom([]string{"pa", "pb"}).Draw(t, "ident"), Count: rapid.IntRange(1, 3).Draw(t, "pcount")})
		}
	}
	// extra probes: cross combinations of the names in play and neighbours from the pool
	np := rapid.IntRange(0, 5).Draw(t, "nprobes")
	for i := 0; i < np; i++ {
		c.Probes = append(c.Probes, Triple{sel("papp", apps), sel("pentry", entries), sel("pnode", nodes)})
	}
	if vt.Chance(t, "streams", 35) {
		ns := rapid.IntRange(1, 3).Draw(t, "nstreams")
		for i := 0; i < ns; i++ {
			var f Triple
			if vt.Chance(t, "streamOfTriple", 70) {
				f = c.Triples[rapid.IntRange(0, len(c.Triples)-1).Draw(t, "streamTriple")]
			} else {
				f = Triple{sel("sapp", apps), sel("sentry", entries), sel("snode", nodes)}
			}
			switch rapid.IntRange(0, 3).Draw(t, "streamDepth") {
			case 0:
				f = Triple{}
			case 1:
				f.Entry, f.Node = "", ""
			case 2:
				f.Node = ""
			}
			c.Streams = append(c.Streams, f)
		}
	}
	return c
}

func (c Case24) allNames() []string {
	var ns []string
	for _, l := range [][]Triple{c.Triples, c.Probes, c.Streams} {
		for _, t := range l {
			ns = append(ns, t.App, t.Entry, t.Node)
		}
	}
	return ns
}

// related: a proper-prefix relation between two names in play (the stated non-trivial rule).
func (c Case24) related() bool {
	ns := c.allNames()
	for _, a := range ns {
		for _, b := range ns {
			if a != "" && a != b && strings.HasPrefix(b, a) {
				return true
			}
		}
	}
	return false
}

// ---------------------------------------------------------------------------------------
// expected answers, from the harness's own record

type rec struct {
	id   string
	tr   Triple
	g    string
	gone bool
}

func matches(r rec, q Triple) bool {
	// Store.ListWorkloads: empty app = everything; empty entry ignores node
	if q.App == "" {
		return true
	}
	if r.tr.App != q.App {
		return false
	}
	if q.Entry == "" {
		return true
	}
	if r.tr.Entry != q.Entry {
		return false
	}
	return q.Node == "" || r.tr.Node == q.Node
}

func expectIDs(recs []rec, q Triple, g string) []string {
	out := []string{}
	for _, r := range recs {
		if !r.gone && matches(r, q) && (g == "" || r.g == g) {
			out = append(out, r.id)
		}
	}
	sort.Strings(out)
	return out
}

func idsOf(ws []*coretypes.Workload) []string {
	out := []string{}
	for _, w := range ws {
		out = append(out, w.ID)
	}
	sort.Strings(out)
	return out
}

func sameStrings(a, b []string) bool {
	if len(a) != len(b) {
		return false
	}
	for i := range a {
		if a[i] != b[i] {
			return false
		}
	}
	return true
}

type problem struct {
	what  string // short class: setup / list / deploy / node-list / stream / remove
	names []string
	msg   string
}

// world is one back end being driven through the case.
type world struct {
	name    string
	s       corestore.Store
	c       Case24
	recs    []rec
	pending map[Triple]int // (app, entry, node) -> pending marker count
	ctx     context.Context
}

func (w *world) setup() *problem {
	ctx, s, c := w.ctx, w.s, w.c
	if _, err := s.AddPod(ctx, "pod", ""); err != nil {
		return &problem{"setup", nil, "AddPod: " + err.Error()}
	}
	nodes := map[string]bool{}
	for i, tr := range c.Triples {
		if nodes[tr.Node] {
			continue
		}
		nodes[tr.Node] = true
		if _, err := s.AddNode(ctx, &coretypes.AddNodeOptions{Nodename: tr.Node, Endpoint: fmt.Sprintf("mock://n%d", i), Podname: "pod"}); err != nil {
			return &problem{"setup", []string{tr.Node}, fmt.Sprintf("AddNode(%q): %v", tr.Node, err)}
		}
	}
	w.pending = map[Triple]int{}
	markerOf := map[int]*coretypes.Processing{}
	for _, p := range c.Pending {
		tr := c.Triples[p.T]
		pr := &coretypes.Processing{Appname: tr.App, Entryname: tr.Entry, Nodename: tr.Node, Ident: p.Ident}
		if err := s.CreateProcessing(ctx, pr, p.Count); err != nil {
			return &problem{"setup", []string{tr.App, tr.Entry, tr.Node}, fmt.Sprintf("CreateProcessing(%+v): %v", *pr, err)}
		}
		w.pending[tr] += p.Count
		markerOf[p.T] = pr
	}
	for i, wl := range c.Workloads {
		tr := c.Triples[wl.T]
		id := fmt.Sprintf("id%02d", i)
		wk := &coretypes.Workload{ID: id, Name: utils.MakeWorkloadName(tr.App, tr.Entry, wl.Suffix), Podname: "pod", Nodename: tr.Node, Labels: map[string]string{"g": wl.G}}
		var pr *coretypes.Processing
		if wl.Marker {
			pr = markerOf[wl.T]
		}
		if err := s.AddWorkload(ctx, wk, pr); err != nil {
			return &problem{"setup", []string{tr.App, tr.Entry, tr.Node}, fmt.Sprintf("AddWorkload(%s name %q node %q): %v", id, wk.Name, tr.Node, err)}
		}
		if pr != nil {
			w.pending[tr]--
		}
		w.recs = append(w.recs, rec{id: id, tr: tr, g: wl.G})
		if wl.Status {
			sm := &coretypes.StatusMeta{ID: id, Running: true, Appname: tr.App, Entrypoint: tr.Entry, Nodename: tr.Node}
			if err := s.SetWorkloadStatus(ctx, sm, 0); err != nil {
				return &problem{"setup", []string{tr.App, tr.Entry, tr.Node}, fmt.Sprintf("SetWorkloadStatus(%s): %v", id, err)}
			}
		}
	}
	return nil
}

// queries asks every query combination and compares with the record.
func (w *world) queries(round string) *problem {
	ctx, s := w.ctx, w.s
	asked := map[string]bool{}
	list := func(q Triple, g string) *problem {
		k := fmt.Sprintf("L|%q|%q|%q|%s", q.App, q.Entry, q.Node, g)
		if asked[k] {
			return nil
		}
		asked[k] = true
		var labels map[string]string
		if g != "" {
			labels = map[string]string{"g": g}
		}
		ws, err := s.ListWorkloads(ctx, q.App, q.Entry, q.Node, 0, labels)
		want := expectIDs(w.recs, q, g)
		if err != nil {
			return &problem{"list", []string{q.App, q.Entry, q.Node}, fmt.Sprintf("%s: ListWorkloads(%q, %q, %q, labels %v) failed: %v (expected %v)", round, q.App, q.Entry, q.Node, labels, err, want)}
		}
		if got := idsOf(ws); !sameStrings(got, want) {
			return &problem{"list", append([]string{q.App, q.Entry, q.Node}, w.namesOf(symdiff(got, want))...),
				fmt.Sprintf("%s: ListWorkloads(%q, %q, %q, labels %v) = %v, created under those names: %v", round, q.App, q.Entry, q.Node, labels, got, want)}
		}
		return nil
	}
	deploy := func(q Triple) *problem {
		k := fmt.Sprintf("D|%q|%q", q.App, q.Entry)
		if asked[k] {
			return nil
		}
		asked[k] = true
		want := map[string]int{}
		for _, r := range w.recs {
			if !r.gone && r.tr.App == q.App && r.tr.Entry == q.Entry {
				want[r.tr.Node]++
			}
		}
		for tr, n := range w.pending {
			if tr.App == q.App && tr.Entry == q.Entry {
				want[tr.Node] += n
			}
		}
		got, err := s.GetDeployStatus(ctx, q.App, q.Entry)
		if err != nil {
			return &problem{"deploy", []string{q.App, q.Entry}, fmt.Sprintf("%s: GetDeployStatus(%q, %q) failed: %v", round, q.App, q.Entry, err)}
		}
		if !sameCounts(got, want) {
			names := []string{q.App, q.Entry}
			for _, r := range w.recs {
				names = append(names, r.tr.App, r.tr.Entry, r.tr.Node)
			}
			return &problem{"deploy", names, fmt.Sprintf("%s: GetDeployStatus(%q, %q) = %v, expected %v", round, q.App, q.Entry, got, want)}
		}
		return nil
	}
	if p := list(Triple{}, ""); p != nil {
		return p
	}
	nodesSeen := map[string]bool{}
	for _, q := range append(append([]Triple{}, w.c.Triples...), w.c.Probes...) {
		for _, qq := range []Triple{{App: q.App}, {App: q.App, Entry: q.Entry}, q} {
			if p := list(qq, ""); p != nil {
				return p
			}
		}
		if p := list(Triple{App: q.App, Entry: q.Entry}, "1"); p != nil {
			return p
		}
		if p := list(q, "0"); p != nil {
			return p
		}
		if p := deploy(q); p != nil {
			return p
		}
		if !nodesSeen[q.Node] {
			nodesSeen[q.Node] = true
			want := []string{}
			for _, r := range w.recs {
				if !r.gone && r.tr.Node == q.Node {
					want = append(want, r.id)
				}
			}
			sort.Strings(want)
			ws, err := s.ListNodeWorkloads(ctx, q.Node, nil)
			// a probe may name a node that was never added: then there is nothing to list and an
			// empty answer is right; the store has no reason to fail either
			if err != nil {
				return &problem{"node-list", []string{q.Node}, fmt.Sprintf("%s: ListNodeWorkloads(%q) failed: %v (expected %v)", round, q.Node, err, want)}
			}
			if got := idsOf(ws); !sameStrings(got, want) {
				return &problem{"node-list", append([]string{q.Node}, w.namesOf(symdiff(got, want))...), fmt.Sprintf("%s: ListNodeWorkloads(%q) = %v, created on that node: %v", round, q.Node, got, want)}
			}
		}
	}
	return nil
}

func (w *world) namesOf(ids []string) []string {
	var ns []string
	for _, r := range w.recs {
		for _, id := range ids {
			if r.id == id {
				ns = append(ns, r.tr.App, r.tr.Entry, r.tr.Node)
			}
		}
	}
	return ns
}

func symdiff(a, b []string) []string {
	in := func(x string, l []string) bool {
		for _, y := range l {
			if x == y {
				return true
			}
		}
		return false
	}
	var out []string
	for _, x := range a {
		if !in(x, b) {
			out = append(out, x)
		}
	}
	for _, x := range b {
		if !in(x, a) {
			out = append(out, x)
		}
	}
	return out
}

func sameCounts(got, want map[string]int) bool {
	for k, v := range got {
		if v != 0 && want[k] != v {
			return false
		}
	}
	for k, v := range want {
		if v != 0 && got[k] != v {
			return false
		}
	}
	return true
}

// remove takes the workload away the way calcium does: read it back, then RemoveWorkload.
func (w *world) remove(i int) *problem {
	r := &w.recs[i]
	if r.gone {
		return nil
	}
	wk, err := w.s.GetWorkload(w.ctx, r.id)
	if err != nil {
		return &problem{"remove", []string{r.tr.App, r.tr.Entry, r.tr.Node}, fmt.Sprintf("GetWorkload(%s) failed: %v", r.id, err)}
	}
	if err := w.s.RemoveWorkload(w.ctx, wk); err != nil {
		return &problem{"remove", []string{r.tr.App, r.tr.Entry, r.tr.Node}, fmt.Sprintf("RemoveWorkload(%s) failed: %v", r.id, err)}
	}
	r.gone = true
	return nil
}

// ---------------------------------------------------------------------------------------
// status streams (etcd only: miniredis publishes no keyspace notifications, so Rediaron's
// stream never fires there and nothing can be decided about it)

const streamPatience = 30 * time.Second // liveness only; normal latency is ~1 ms

type streamObs struct {
	filter Triple
	mu     sync.Mutex
	ids    []string // ids in order of arrival
	dels   map[string]bool
	cond   chan struct{}
}

func (o *streamObs) snapshot() ([]string, map[string]bool) {
	o.mu.Lock()
	defer o.mu.Unlock()
	d := map[string]bool{}
	for k := range o.dels {
		d[k] = true
	}
	return append([]string{}, o.ids...), d
}

func (w *world) streams() *problem {
	if len(w.c.Streams) == 0 {
		return nil
	}
	ctx, cancel := context.WithCancel(w.ctx)
	var wg sync.WaitGroup
	defer func() { cancel(); wg.Wait() }()

	var obs []*streamObs
	for _, f := range w.c.Streams {
		o := &streamObs{filter: f, dels: map[string]bool{}, cond: make(chan struct{}, 1)}
		obs = append(obs, o)
		ch := w.s.WorkloadStatusStream(ctx, f.App, f.Entry, f.Node, nil)
		wg.Add(1)
		go func() {
			defer wg.Done()
			for m := range ch {
				o.mu.Lock()
				o.ids = append(o.ids, m.ID)
				if m.Delete {
					o.dels[m.ID] = true
				}
				o.mu.Unlock()
				select {
				case o.cond <- struct{}{}:
				default:
				}
			}
		}()
	}
	seq := 0
	report := func(r rec) *problem {
		seq++
		sm := &coretypes.StatusMeta{ID: r.id, Running: seq%2 == 0, Extension: []byte(fmt.Sprint(seq)), Appname: r.tr.App, Entrypoint: r.tr.Entry, Nodename: r.tr.Node}
		if err := w.s.SetWorkloadStatus(w.ctx, sm, 0); err != nil {
			return &problem{"stream", []string{r.tr.App, r.tr.Entry, r.tr.Node}, fmt.Sprintf("SetWorkloadStatus(%s): %v", r.id, err)}
		}
		return nil
	}
	// 1. prime: a watch is established asynchronously; report on one workload the filter names
	//    until the stream delivers something. (Streams whose filter names nothing cannot be primed.)
	designated := make([]int, len(obs))
	for i, o := range obs {
		designated[i] = -1
		for j, r := range w.recs {
			if !r.gone && matches(r, o.filter) {
				designated[i] = j
				break
			}
		}
		if designated[i] < 0 {
			continue
		}
		deadline := time.Now().Add(streamPatience)
		for {
			if p := report(w.recs[designated[i]]); p != nil {
				return p
			}
			got := false
			select {
			case <-o.cond:
				got = true
			case <-time.After(100 * time.Millisecond):
			}
			if ids, _ := o.snapshot(); got || len(ids) > 0 {
				break
			}
			if time.Now().After(deadline) {
				return &problem{"stream", []string{o.filter.App, o.filter.Entry, o.filter.Node},
					fmt.Sprintf("WorkloadStatusStream(%q, %q, %q) delivered nothing in %v although status of %s (created under those names) was reported repeatedly", o.filter.App, o.filter.Entry, o.filter.Node, streamPatience, w.recs[designated[i]].id)}
			}
		}
	}
	// 2. one status change for every workload
	var live []rec
	for _, r := range w.recs {
		if !r.gone {
			live = append(live, r)
			if p := report(r); p != nil {
				return p
			}
		}
	}
	// 3. end marker per stream: removing the designated workload deletes its status key; a watch
	//    delivers in revision order, so once the stream shows that delete everything earlier is in.
	for i := range obs {
		if designated[i] >= 0 {
			if p := w.remove(designated[i]); p != nil {
				return p
			}
		}
	}
	for i, o := range obs {
		if designated[i] < 0 {
			continue
		}
		id := w.recs[designated[i]].id
		deadline := time.Now().Add(streamPatience)
		for {
			if _, dels := o.snapshot(); dels[id] {
				break
			}
			if time.Now().After(deadline) {
				ids, _ := o.snapshot()
				return &problem{"stream", []string{o.filter.App, o.filter.Entry, o.filter.Node},
					fmt.Sprintf("WorkloadStatusStream(%q, %q, %q) never showed the removal of %s's status within %v (got %v)", o.filter.App, o.filter.Entry, o.filter.Node, id, streamPatience, ids)}
			}
			select {
			case <-o.cond:
			case <-time.After(50 * time.Millisecond):
			}
		}
	}
	// 4. verdict per stream
	for i, o := range obs {
		ids, _ := o.snapshot()
		got := map[string]bool{}
		for _, id := range ids {
			got[id] = true
		}
		var want []string
		for _, r := range live {
			if matches(r, o.filter) {
				want = append(want, r.id)
			}
		}
		for id := range got {
			named := false
			for _, r := range w.recs {
				named = named || (r.id == id && matches(r, o.filter))
			}
			if !named {
				return &problem{"stream", append([]string{o.filter.App, o.filter.Entry, o.filter.Node}, w.namesOf([]string{id})...),
					fmt.Sprintf("WorkloadStatusStream(%q, %q, %q) delivered a status change of %s, which was not created under those names (stream got %v, names %v)", o.filter.App, o.filter.Entry, o.filter.Node, id, ids, want)}
			}
		}
		if designated[i] >= 0 {
			for _, id := range want {
				if !got[id] {
					return &problem{"stream", append([]string{o.filter.App, o.filter.Entry, o.filter.Node}, w.namesOf([]string{id})...),
						fmt.Sprintf("WorkloadStatusStream(%q, %q, %q) did not deliver the status change of %s created under those names (stream got %v, expected %v)", o.filter.App, o.filter.Entry, o.filter.Node, id, ids, want)}
				}
			}
		}
	}
	return nil
}

// ---------------------------------------------------------------------------------------
// run

var cur24 *fixture

func (w *world) run() *problem {
	if p := w.setup(); p != nil {
		return p
	}
	if p := w.queries("after setup"); p != nil {
		return p
	}
	if w.name == beEtcd {
		if p := w.streams(); p != nil {
			return p
		}
	}
	for i, wl := range w.c.Workloads {
		if wl.Remove {
			if p := w.remove(i); p != nil {
				return p
			}
		}
	}
	return w.queries("after removals")
}

func runC24(x *vt.Ctx, c Case24) *vt.Finding {
	f := cur24
	f.wipe()
	ctx, cancel := context.WithTimeout(context.Background(), 5*time.Minute)
	defer cancel()

	// the property quantifies over names the API accepts (a replayed case may hold others)
	for _, tr := range c.Triples {
		if !validApp(tr.App) || !validEntry(tr.Entry) || !validNode(tr.Node) {
			x.Label("store: rejected-by-api-validation")
			return nil
		}
	}
	keep := func(l []Triple) []Triple {
		var out []Triple
		for _, tr := range l {
			if (tr.App == "" || validApp(tr.App)) && (tr.Entry == "" || validEntry(tr.Entry)) && (tr.Node == "" || validNode(tr.Node)) {
				out = append(out, tr)
			}
		}
		return out
	}
	c.Probes, c.Streams = keep(c.Probes), keep(c.Streams)
	cls := nameClass(c.allNames()...)
	x.Label("store: name-class=%s", cls)
	x.Label("store: triples=%d", len(c.Triples))
	if len(c.Streams) > 0 {
		x.Label("store: with-streams")
	}
	for _, tr := range c.Triples {
		if strings.Contains(tr.App, "_") {
			x.Label("store: app-with-underscore")
			break
		}
	}
	if c.related() {
		x.NonTrivial()
		x.Label("store: related-names")
	} else {
		x.Label("store: unrelated-names")
	}

	var probs [2]*problem
	var wg sync.WaitGroup
	for i, b := range f.backends() {
		i, b := i, b
		wg.Add(1)
		go func() {
			defer wg.Done()
			w := &world{name: b.name, s: b.s, c: c, ctx: ctx}
			probs[i] = w.run()
		}()
	}
	wg.Wait()
	var where []string
	var msgs []string
	var involved []string
	var what string
	for i, b := range f.backends() {
		if p := probs[i]; p != nil {
			where = append(where, b.name)
			msgs = append(msgs, b.name+": "+p.msg)
			involved = append(involved, p.names...)
			if what == "" {
				what = p.what
			}
		}
	}
	if len(where) == 0 {
		return nil
	}
	at := where[0]
	if len(where) == 2 {
		at = "both"
	}
	if len(involved) > 0 {
		cls = nameClass(involved...)
	}
	cj, _ := json.Marshal(c.Triples)
	return vt.Failf("name-class="+cls+"@"+at, "[%s] %s\n  triples: %s", what, strings.Join(msgs, "\n  "), cj)
}

var propC24 = vt.Prop[Case24]{ID: "C24", Test: "TestC24Store", Gen: genC24, Run: runC24}

func TestC24Store(t *testing.T) {
	cur24 = getFixture(t)
	propC24.Check(t)
}
