// Property C31 — "Engine settings faithfully enforce allocated resources".
//
// What runs: the real resource manager (cobalt.Manager) with the real cpumem plugin on the
// repo's embedded etcd produces allocations (Alloc / Realloc / Remap, exactly the calls
// cluster/calcium makes); the engine params it returns are handed, unmodified, to the REAL
// docker engine (engine/docker: VirtualizationCreate / VirtualizationUpdateResource, built
// with docker.MakeClient) which talks HTTP to internal/fakedocker. The oracle compares the
// cgroup settings that arrived on the wire with the allocation of record (the plugin's
// WorkloadResource: cpu_request, cpu_limit, memory_limit, cpu_map, numa_node), under the
// documented semantics of the Docker Engine API fields. It never looks at what the engine
// computed in between.
package docker

import (
	"context"
	"encoding/json"
	"errors"
	"fmt"
	"math"
	"os"
	"sort"
	"strconv"
	"strings"
	"sync"
	"sync/atomic"
	"testing"
	"time"

	"github.com/mitchellh/mapstructure"
	"pgregory.net/rapid"

	"github.com/projecteru2/core/engine"
	enginedocker "github.com/projecteru2/core/engine/docker"
	enginetypes "github.com/projecteru2/core/engine/types"
	"github.com/projecteru2/core/resource/cobalt"
	cpumemtypes "github.com/projecteru2/core/resource/plugins/cpumem/types"
	resourcetypes "github.com/projecteru2/core/resource/types"
	coretypes "github.com/projecteru2/core/types"

	"verif/internal/fakedocker"
	"verif/internal/vt"
)

func TestMain(m *testing.M) { vt.Main(m) }

const (
	pluginName = "cpumem"
	shareBase  = 100
	mib        = int64(1) << 20
	gib        = int64(1) << 30
	// Docker Engine API: "CpuPeriod": 0 means the default period of 100 ms.
	dockerDefaultPeriod = 100000
	// a memory value at or above this is "no limit" for the kernel (PAGE_COUNTER_MAX is
	// MaxInt64/4096 pages; cgroup v1 reports 0x7FFFFFFFFFFFF000 for unlimited).
	effectivelyUnlimited = int64(1) << 62
	minDockerMemory      = 4 * mib // engine/docker refuses 0 < memory < 4 MiB
)

// ---------------------------------------------------------------------------------------
// case

// Req is a cpumem workload resource request (alloc) or a delta request (realloc).
// CPU values are in hundredths of a core, the way an operator types them ("1.25").
type Req struct {
	Bind     bool  `json:"bind"`
	KeepBind bool  `json:"keep_bind,omitempty"` // realloc: keep-cpu-bind
	CPUReqC  int   `json:"cpu_request_c"`
	CPULimC  int   `json:"cpu_limit_c"`
	MemReq   int64 `json:"memory_request"`
	MemLim   int64 `json:"memory_limit"`
	// realloc only: replace the generated delta by "minus the current value", so that the new
	// limit is exactly 0 = unlimited
	ZeroCPULim bool `json:"zero_cpu_limit,omitempty"`
	ZeroMemLim bool `json:"zero_memory_limit,omitempty"`
	// realloc only: when false, a negative delta larger than the current value is cut to "minus
	// the current value" (the plugin refuses a realloc that ends below zero, which is legitimate
	// but never reaches the engine); when true the delta is sent as generated
	NoClamp bool `json:"no_clamp,omitempty"`
}

// Op is one step of the script.
type Op struct {
	Kind   string `json:"kind"` // "alloc" | "realloc" | "remap"
	Req    Req    `json:"req"`
	Count  int    `json:"count,omitempty"`  // alloc: deploy count
	Target int    `json:"target,omitempty"` // realloc: index (mod #workloads) of the workload
	// hand the engine params to the engine after a JSON round trip, as they are when they come
	// out of the metadata store (calcium replace path) instead of straight from the plugin
	ViaJSON bool `json:"via_json,omitempty"`
}

// Case is a node plus a script of allocations on it.
type Case struct {
	NCPU   int   `json:"ncpu"`
	NUMA   bool  `json:"numa"` // cores split between NUMA nodes "0" and "1"
	Memory int64 `json:"memory"`
	Ops    []Op  `json:"ops"`
}

var cpuGrid = []int{25, 50, 75, 100, 150, 200, 130, 10, 1, 99, 101, 250, 33, 300}

func genCPU(t *rapid.T, label string) int {
	if vt.Chance(t, label+"Grid", 70) {
		return rapid.SampledFrom(cpuGrid).Draw(t, label)
	}
	return rapid.IntRange(1, 400).Draw(t, label+"Any")
}

func genMemLimit(t *rapid.T) int64 {
	switch k := vt.Pct(t, "memKind"); {
	case k < 20:
		return 0 // unlimited
	case k < 28:
		return rapid.Int64Range(1, minDockerMemory-1).Draw(t, "memBelowMin")
	case k < 34:
		return minDockerMemory
	case k < 44:
		return rapid.Int64Range(minDockerMemory, 8*mib).Draw(t, "memClampRegion")
	case k < 80:
		return rapid.Int64Range(1, 64).Draw(t, "mem64MiB") * 64 * mib
	default:
		return rapid.Int64Range(8*mib, 6*gib).Draw(t, "memAny")
	}
}

func genAllocReq(t *rapid.T, ncpu int) Req {
	var r Req
	r.Bind = vt.Chance(t, "bind", 50)
	if r.Bind {
		r.CPUReqC = genCPU(t, "cpuReq")
		switch k := vt.Pct(t, "boundLimit"); {
		case k < 30:
			r.CPULimC = 0
		case k < 65:
			r.CPULimC = r.CPUReqC
		case k < 85:
			r.CPULimC = r.CPUReqC + genCPU(t, "cpuLimExtra")
		default:
			r.CPULimC = max(1, r.CPUReqC-rapid.IntRange(1, 100).Draw(t, "cpuLimLess"))
		}
		if vt.Chance(t, "bindNoRequest", 15) {
			// request omitted, limit given: the plugin copies the limit into the request
			r.CPULimC, r.CPUReqC = max(r.CPULimC, r.CPUReqC), 0
		}
	} else {
		switch k := vt.Pct(t, "unboundLimit"); {
		case k < 22:
			r.CPULimC = 0
		default:
			r.CPULimC = genCPU(t, "cpuLim")
		}
		switch k := vt.Pct(t, "unboundReq"); {
		case k < 40:
			r.CPUReqC = 0
		case k < 75:
			r.CPUReqC = r.CPULimC
		case k < 90:
			r.CPUReqC = rapid.IntRange(0, max(r.CPULimC, 1)).Draw(t, "cpuReqLess")
		default:
			r.CPUReqC = r.CPULimC + rapid.IntRange(1, 100).Draw(t, "cpuReqMore")
		}
	}
	// mostly requests the node can hold (the plugin refuses cpu requests above the core count)
	if top := ncpu * 100; vt.Chance(t, "fitNode", 90) {
		if r.CPUReqC > top {
			r.CPUReqC = 1 + r.CPUReqC%top
		}
		if r.Bind && r.CPUReqC == 0 && r.CPULimC > top {
			r.CPULimC = 1 + r.CPULimC%top
		}
	}
	r.MemLim = genMemLimit(t)
	switch k := vt.Pct(t, "memReq"); {
	case k < 40:
		r.MemReq = 0
	case k < 75:
		r.MemReq = r.MemLim
	case k < 90:
		r.MemReq = rapid.Int64Range(0, max(r.MemLim, 1)).Draw(t, "memReqLess")
	default:
		r.MemReq = r.MemLim + rapid.Int64Range(1, 64*mib).Draw(t, "memReqMore")
	}
	return r
}

var cpuDeltaGrid = []int{0, 0, 25, 50, 100, -25, -50, -100, 1, -1, 75, 130, 200}

func genReallocReq(t *rapid.T) Req {
	var r Req
	r.KeepBind = vt.Chance(t, "keepBind", 65)
	r.Bind = vt.Chance(t, "reBind", 50)
	r.CPUReqC = rapid.SampledFrom(cpuDeltaGrid).Draw(t, "dCPUReq")
	if vt.Chance(t, "sameDelta", 50) {
		r.CPULimC = r.CPUReqC
	} else {
		r.CPULimC = rapid.SampledFrom(cpuDeltaGrid).Draw(t, "dCPULim")
	}
	switch k := vt.Pct(t, "dMem"); {
	case k < 35:
	case k < 70:
		r.MemLim = rapid.Int64Range(1, 32).Draw(t, "dMemUp") * 16 * mib
		r.MemReq = r.MemLim
	case k < 90:
		r.MemLim = -rapid.Int64Range(1, 32).Draw(t, "dMemDown") * 16 * mib
		r.MemReq = r.MemLim
	default:
		r.MemLim = rapid.Int64Range(-8*mib, 8*mib).Draw(t, "dMemSmall")
	}
	r.ZeroCPULim = vt.Chance(t, "zeroCPULim", 12)
	r.ZeroMemLim = vt.Chance(t, "zeroMemLim", 12)
	r.NoClamp = vt.Chance(t, "noClamp", 10)
	return r
}

func genCase(t *rapid.T) Case {
	var c Case
	c.NCPU = rapid.IntRange(1, 8).Draw(t, "ncpu")
	if vt.Chance(t, "moreCores", 50) {
		c.NCPU = rapid.IntRange(4, 8).Draw(t, "ncpu2")
	}
	c.NUMA = c.NCPU >= 2 && vt.Chance(t, "numa", 45)
	// small nodes run out of memory during the script (refusals, NUMA nodes filling up and plans
	// going cross-NUMA); large ones never do
	c.Memory = rapid.SampledFrom([]int64{8, 16, 32, 64, 256, 1024}).Draw(t, "memGiB") * gib
	n := rapid.IntRange(2, 5).Draw(t, "nops")
	for i := 0; i < n; i++ {
		var op Op
		switch k := vt.Pct(t, "opKind"); {
		case i == 0 || k < 30:
			op.Kind = "alloc"
			op.Req = genAllocReq(t, c.NCPU)
			op.Count = 1
			if vt.Chance(t, "multi", 30) {
				op.Count = rapid.IntRange(2, 3).Draw(t, "count")
			}
		case k < 72:
			op.Kind = "realloc"
			op.Req = genReallocReq(t)
			op.Target = rapid.IntRange(0, 5).Draw(t, "target")
		default:
			op.Kind = "remap"
		}
		op.ViaJSON = vt.Chance(t, "viaJSON", 25)
		c.Ops = append(c.Ops, op)
	}
	return c
}

// ---------------------------------------------------------------------------------------
// fixture: one plugin manager + one fake daemon + one engine per process

type fixture struct {
	mgr    *cobalt.Manager
	daemon *fakedocker.Daemon
	eng    engine.API
	cfg    coretypes.Config
}

var (
	fixOnce sync.Once
	fix     *fixture
	fixErr  error
	theT    *testing.T // the enclosing test: owner of the embedded etcd
	nodeSeq atomic.Int64
)

func getFixture() (*fixture, error) {
	fixOnce.Do(func() {
		cfg := coretypes.Config{
			GlobalTimeout: 5 * time.Minute,
			Etcd:          coretypes.EtcdConfig{Prefix: "/c31"},
			Scheduler:     coretypes.SchedulerConfig{MaxShare: -1, ShareBase: shareBase, MaxDeployCount: 10000},
			Docker:        coretypes.DockerConfig{APIVersion: "1.32", NetworkMode: "host"},
		}
		f := &fixture{cfg: cfg}
		ctx := context.Background()
		if f.mgr, fixErr = cobalt.New(cfg); fixErr != nil {
			return
		}
		if fixErr = f.mgr.LoadPlugins(ctx, theT); fixErr != nil {
			return
		}
		f.daemon = fakedocker.New()
		theT.Cleanup(f.daemon.Close)
		f.eng, fixErr = enginedocker.MakeClient(ctx, cfg, "fake-node", f.daemon.Endpoint(), "", "", "")
		fix = f
	})
	return fix, fixErr
}

// ---------------------------------------------------------------------------------------
// allocation of record

type alloc struct {
	bound    bool
	cores    []string // allocated cores (keys of cpu_map with pieces > 0), sorted
	numaNode string
	cpuReq   float64
	cpuLimit float64
	memLimit int64
	memReq   int64
}

func parseAlloc(raw resourcetypes.RawParams) (alloc, error) {
	wr := &cpumemtypes.WorkloadResource{}
	if err := wr.Parse(raw); err != nil {
		return alloc{}, err
	}
	a := alloc{numaNode: wr.NUMANode, cpuReq: wr.CPURequest, cpuLimit: wr.CPULimit, memLimit: wr.MemoryLimit, memReq: wr.MemoryRequest}
	for id, pieces := range wr.CPUMap {
		if pieces > 0 {
			a.cores = append(a.cores, id)
		}
	}
	sort.Strings(a.cores)
	a.bound = len(a.cores) > 0
	return a, nil
}

func (a alloc) class() string {
	switch {
	case a.bound && a.cpuLimit == 0:
		return "bound-cpu-limit-0"
	case a.bound:
		return "bound"
	case a.cpuLimit == 0:
		return "unbound-unlimited"
	default:
		return "unbound"
	}
}

func frac(x float64) float64 {
	// fractional part on the operator's 0.01 grid (1.3 is 1.3, not 1.30000000000000004)
	h := math.Round(x * 100)
	return (h - 100*math.Floor(h/100)) / 100
}

// parseCpuset parses a Docker cpuset list ("0,2,5" or "0-2,7") into a sorted id list.
func parseCpuset(s string) ([]string, error) {
	if s == "" {
		return nil, nil
	}
	set := map[int]struct{}{}
	for _, part := range strings.Split(s, ",") {
		lo, hi, isRange := strings.Cut(part, "-")
		a, err := strconv.Atoi(lo)
		if err != nil || a < 0 {
			return nil, fmt.Errorf("bad cpuset element %q", part)
		}
		b := a
		if isRange {
			if b, err = strconv.Atoi(hi); err != nil || b < a {
				return nil, fmt.Errorf("bad cpuset range %q", part)
			}
		}
		for i := a; i <= b; i++ {
			set[i] = struct{}{}
		}
	}
	var out []string
	for i := range set {
		out = append(out, strconv.Itoa(i))
	}
	sort.Strings(out)
	return out, nil
}

func sameSet(a, b []string) bool {
	if len(a) != len(b) {
		return false
	}
	for i := range a {
		if a[i] != b[i] {
			return false
		}
	}
	return true
}

func allCores(n int) []string {
	var out []string
	for i := 0; i < n; i++ {
		out = append(out, strconv.Itoa(i))
	}
	sort.Strings(out)
	return out
}

// ---------------------------------------------------------------------------------------
// oracle

// application is one set of cgroup settings the engine applied for one allocation.
type application struct {
	path  string   // "create" | "realloc" | "remap"
	a     alloc    // the allocation of record
	pool  []string // remap: the shared pool the plugin assigned (cpu_map of the remap params)
	ncpu  int      // cores of the host
	res   fakedocker.Resources
	extra string
}

// Docker Engine API semantics used below.
//
//	create: Memory 0 = no limit; MemorySwap 0 = "unset" (the daemon then allows swap up to
//	        2 x Memory), -1 = unlimited swap, n = memory+swap cap; CpuQuota 0 or -1 = no quota;
//	        CpuPeriod 0 = 100000; CpusetCpus/CpusetMems "" = all.
//	update: every zero/empty field means "leave as it is"; -1 lifts the quota / swap cap.
func judge(x *vt.Ctx, ap application) *vt.Finding {
	a, r := ap.a, ap.res
	update := ap.path != "create"
	cls := a.class()
	key := func(what string) string { return ap.path + ":" + cls + ":" + what }
	desc := fmt.Sprintf("%s of %s workload {cpu_request %v cpu_limit %v cores %v numa %q memory_limit %d}%s: applied %+v",
		ap.path, cls, a.cpuReq, a.cpuLimit, a.cores, a.numaNode, a.memLimit, ap.extra, r)

	// ---- memory
	if a.memLimit > 0 {
		if r.Memory != a.memLimit {
			return vt.Failf(key("memory"), "%s; expected Memory = %d", desc, a.memLimit)
		}
		if r.MemorySwap != a.memLimit {
			return vt.Failf(key("memory-swap"), "%s; expected MemorySwap (memory+swap cap) = %d", desc, a.memLimit)
		}
	} else {
		memOK := r.Memory == -1 || r.Memory >= effectivelyUnlimited || (!update && r.Memory == 0)
		swapOK := r.MemorySwap == -1 || r.MemorySwap >= effectivelyUnlimited || (!update && r.MemorySwap == 0)
		if !memOK {
			return vt.Failf(key("memory-not-unlimited"), "%s; memory limit 0 means unlimited", desc)
		}
		if !swapOK {
			return vt.Failf(key("memory-swap-not-unlimited"), "%s; memory limit 0 means unlimited", desc)
		}
	}

	// ---- cpu
	period := r.CPUPeriod
	if period == 0 {
		period = dockerDefaultPeriod
	}
	unrestricted := r.CPUQuota == -1 || (!update && r.CPUQuota == 0)
	cpuset, err := parseCpuset(r.CpusetCpus)
	if err != nil {
		return vt.Failf(key("cpuset-syntax"), "%s; %v", desc, err)
	}
	if r.NanoCPUs != 0 {
		return vt.Failf(key("nano-cpus"), "%s; NanoCpus would override the quota", desc)
	}

	if a.bound {
		if !sameSet(cpuset, a.cores) {
			return vt.Failf(key("cpuset"), "%s; expected CpusetCpus = exactly the allocated cores %v", desc, a.cores)
		}
		if r.CpusetMems != a.numaNode {
			return vt.Failf(key("cpuset-mems"), "%s; expected CpusetMems = %q", desc, a.numaNode)
		}
		if !unrestricted {
			return vt.Failf(key("quota-restricted"), "%s; a bound workload must have an unrestricted quota", desc)
		}
		want := int64(1024)
		if f := frac(a.cpuReq); f > 0 {
			want = int64(math.Round(1024 * f))
		}
		if d := r.CPUShares - want; d < -1 || d > 1 {
			return vt.Failf(key("shares"), "%s; expected CpuShares = %d (1024 x fractional core %v)", desc, want, frac(a.cpuReq))
		}
		return nil
	}

	// unbound
	if a.cpuLimit > 0 {
		want := a.cpuLimit * float64(period)
		if math.Abs(float64(r.CPUQuota)-want) >= 1 {
			if ap.path == "realloc" && (r.CPUQuota == -1 || r.CPUQuota == 0) {
				return vt.Failf("update:unbound-loses-quota", "%s; expected CpuQuota = cpu_limit x CpuPeriod = %v", desc, want)
			}
			return vt.Failf(key("quota"), "%s; expected CpuQuota = cpu_limit x CpuPeriod = %v", desc, want)
		}
	} else if !unrestricted {
		return vt.Failf(key("quota-restricted"), "%s; cpu limit 0 means no quota", desc)
	}
	switch ap.path {
	case "create":
		if len(cpuset) != 0 && !sameSet(cpuset, allCores(ap.ncpu)) {
			return vt.Failf(key("cpuset"), "%s; an unbound workload must not be pinned at creation", desc)
		}
	case "realloc":
		// the docker update API cannot clear a cpuset, so "all cores of the host" is the
		// only other way to say "not pinned"
		if len(cpuset) != 0 && !sameSet(cpuset, allCores(ap.ncpu)) {
			return vt.Failf(key("cpuset"), "%s; an unbound workload must not be pinned to a subset %v of the %d cores by a realloc", desc, cpuset, ap.ncpu)
		}
	case "remap":
		if !sameSet(cpuset, ap.pool) {
			return vt.Failf(key("cpuset"), "%s; expected CpusetCpus = the shared pool %v", desc, ap.pool)
		}
	}
	return nil
}

func (ap application) label(x *vt.Ctx) {
	a := ap.a
	sub := ""
	switch {
	case a.bound && frac(a.cpuReq) > 0:
		sub = "-frac"
		x.NonTrivial()
	case a.bound:
		sub = "-whole"
	case a.cpuLimit > 0:
		x.NonTrivial()
	}
	x.Label("%s:%s%s", ap.path, a.class(), sub)
	if a.bound && a.numaNode != "" {
		x.Label("%s:bound-numa-node", ap.path)
	}
	switch {
	case a.memLimit == 0:
		x.Label("%s:mem-unlimited", ap.path)
	case a.memLimit < 8*mib:
		x.Label("%s:mem-4..8MiB", ap.path)
	default:
		x.Label("%s:mem-limited", ap.path)
	}
	if ap.path == "remap" && len(ap.pool) < ap.ncpu {
		x.Label("remap:pool-strict-subset")
	}
}

// ---------------------------------------------------------------------------------------
// run

type workload struct {
	id  string
	res resourcetypes.Resources
}

func viaJSON(p resourcetypes.Resources) resourcetypes.Resources {
	b, err := json.Marshal(p)
	if err != nil {
		panic(err)
	}
	out := resourcetypes.Resources{}
	if err := json.Unmarshal(b, &out); err != nil {
		panic(err)
	}
	return out
}

func (r Req) raw() resourcetypes.RawParams {
	return resourcetypes.RawParams{
		"cpu-bind":       r.Bind,
		"keep-cpu-bind":  r.KeepBind,
		"cpu-request":    float64(r.CPUReqC) / 100,
		"cpu-limit":      float64(r.CPULimC) / 100,
		"memory-request": r.MemReq,
		"memory-limit":   r.MemLim,
	}
}

func poolOf(params resourcetypes.Resources) []string {
	ep := &cpumemtypes.EngineParams{}
	_ = mapstructure.Decode(params[pluginName], ep)
	var out []string
	for id := range ep.CPUMap {
		out = append(out, id)
	}
	sort.Strings(out)
	return out
}

func run(x *vt.Ctx, c Case) *vt.Finding {
	f, err := getFixture()
	if err != nil {
		panic("fixture: " + err.Error())
	}
	ctx := context.Background()
	node := fmt.Sprintf("n%d", nodeSeq.Add(1))
	nodeReq := resourcetypes.RawParams{"cpu": int64(c.NCPU), "share": int64(shareBase), "memory": c.Memory}
	if c.NUMA {
		half := c.NCPU / 2
		nodeReq["numa-cpu"] = []string{strings.Join(allCoresNumeric(0, half), ","), strings.Join(allCoresNumeric(half, c.NCPU), ",")}
		nodeReq["numa-memory"] = []string{strconv.FormatInt(c.Memory/2, 10), strconv.FormatInt(c.Memory/2, 10)}
	}
	if _, err := f.mgr.AddNode(ctx, node, resourcetypes.Resources{pluginName: nodeReq}, nil); err != nil {
		panic("AddNode: " + err.Error())
	}
	defer func() { _ = f.mgr.RemoveNode(ctx, node) }()
	f.daemon.SetHost(c.NCPU, c.Memory)
	f.daemon.Reset()
	x.Label("numa=%v", c.NUMA)

	var wls []*workload

	// takeOne fetches the single state-changing request the engine call must have produced
	takeOne := func(kind, id string) (fakedocker.Request, *vt.Finding) {
		reqs, other := f.daemon.Take()
		if len(other) > 0 {
			panic(fmt.Sprintf("fakedocker: engine used unimplemented endpoints %v", other))
		}
		if len(reqs) != 1 || reqs[0].Kind != kind || (id != "" && reqs[0].ID != id) {
			return fakedocker.Request{}, vt.Failf(kind+":request-count", "expected exactly one %s request for %q, daemon saw %+v", kind, id, reqs)
		}
		return reqs[0], nil
	}

	for i, op := range c.Ops {
		switch op.Kind {
		case "alloc":
			wparams, eparams, err := f.mgr.Alloc(ctx, node, op.Count, resourcetypes.Resources{pluginName: op.Req.raw()})
			if err != nil {
				x.Label("alloc:refused-by-plugin:%s", errClass(err))
				continue
			}
			for j := 0; j < op.Count; j++ {
				a, err := parseAlloc(wparams[j][pluginName])
				if err != nil {
					panic(err)
				}
				ep := eparams[j]
				if op.ViaJSON {
					ep = viaJSON(ep)
					x.Label("create:params-via-json")
				}
				created, err := f.eng.VirtualizationCreate(ctx, &enginetypes.VirtualizationCreateOptions{
					EngineParams: ep,
					Name:         fmt.Sprintf("%s_w%d_%d", node, i, j),
					Image:        "img",
					Cmd:          []string{"sleep", "1"},
					Env:          []string{"A=b"},
					Labels:       map[string]string{"ERU": "1"},
				})
				if err != nil {
					_, _ = f.daemon.Take()
					if errors.Is(err, coretypes.ErrInvaildMemory) && a.memLimit > 0 && a.memLimit < minDockerMemory {
						// refusing to create is not a wrong setting: nothing was applied
						x.Label("create:refused-memory-below-4MiB")
						if err := f.mgr.RollbackAlloc(ctx, node, []resourcetypes.Resources{wparams[j]}); err != nil {
							panic(err)
						}
						continue
					}
					return vt.Failf("create:engine-error", "VirtualizationCreate failed for plugin-made params %+v: %v", ep, err)
				}
				rq, fnd := takeOne("create", created.ID)
				if fnd != nil {
					return fnd
				}
				ap := application{path: "create", a: a, ncpu: c.NCPU, res: rq.Res}
				ap.label(x)
				if fnd := judge(x, ap); fnd != nil {
					x.Logf("engine params: %+v\nbody: %s", ep, rq.Raw)
					return fnd
				}
				wls = append(wls, &workload{id: created.ID, res: wparams[j]})
			}

		case "realloc":
			if len(wls) == 0 {
				x.Label("realloc:no-workload")
				continue
			}
			w := wls[op.Target%len(wls)]
			before, err := parseAlloc(w.res[pluginName])
			if err != nil {
				panic(err)
			}
			raw := op.Req.raw()
			if !op.Req.NoClamp {
				raw["cpu-request"] = math.Max(raw.Float64("cpu-request"), -before.cpuReq)
				raw["cpu-limit"] = math.Max(raw.Float64("cpu-limit"), -before.cpuLimit)
				raw["memory-request"] = max(op.Req.MemReq, -before.memReq)
				raw["memory-limit"] = max(op.Req.MemLim, -before.memLimit)
			}
			if op.Req.ZeroCPULim {
				raw["cpu-limit"] = -before.cpuLimit
			}
			if op.Req.ZeroMemLim {
				raw["memory-limit"] = -before.memLimit
				raw["memory-request"] = int64(0)
			}
			eparams, delta, newRes, err := f.mgr.Realloc(ctx, node, w.res, resourcetypes.Resources{pluginName: raw})
			if err != nil {
				x.Label("realloc:refused-by-plugin:%s", errClass(err))
				continue
			}
			a, err := parseAlloc(newRes[pluginName])
			if err != nil {
				panic(err)
			}
			oldRes := w.res
			w.res = newRes
			if before.bound != a.bound {
				x.Label("realloc:bind-switched")
			}
			if before.numaNode != "" && a.numaNode == "" {
				// observation only (outside the statement): the update then carries CpusetMems "",
				// which the docker update API reads as "leave as it is"
				x.Label("realloc:numa-node-given-up")
			}
			ep := eparams
			if op.ViaJSON {
				ep = viaJSON(ep)
				x.Label("realloc:params-via-json")
			}
			if err := f.eng.VirtualizationUpdateResource(ctx, w.id, ep); err != nil {
				_, _ = f.daemon.Take()
				if errors.Is(err, coretypes.ErrInvaildMemory) && a.memLimit > 0 && a.memLimit < minDockerMemory {
					x.Label("realloc:refused-memory-below-4MiB")
					// calcium rolls the realloc back; so do we (keeps plugin state = engine state)
					if err := f.mgr.RollbackRealloc(ctx, node, delta); err != nil {
						panic(err)
					}
					w.res = oldRes
					continue
				}
				return vt.Failf("realloc:engine-error", "VirtualizationUpdateResource failed for plugin-made params %+v: %v", ep, err)
			}
			rq, fnd := takeOne("update", w.id)
			if fnd != nil {
				return fnd
			}
			ap := application{path: "realloc", a: a, ncpu: c.NCPU, res: rq.Res}
			ap.label(x)
			if fnd := judge(x, ap); fnd != nil {
				x.Logf("engine params: %+v\nbody: %s", ep, rq.Raw)
				return fnd
			}

		case "remap":
			if len(wls) == 0 {
				x.Label("remap:no-workload")
				continue
			}
			var ws []*coretypes.Workload
			byID := map[string]*workload{}
			for _, w := range wls {
				ws = append(ws, &coretypes.Workload{ID: w.id, Resources: w.res})
				byID[w.id] = w
			}
			pm, err := f.mgr.Remap(ctx, node, ws)
			if err != nil {
				panic("Remap: " + err.Error())
			}
			ids := make([]string, 0, len(pm))
			for id := range pm {
				ids = append(ids, id)
			}
			sort.Strings(ids)
			if len(ids) == 0 {
				x.Label("remap:nothing-to-remap")
			}
			for _, id := range ids {
				w := byID[id]
				a, err := parseAlloc(w.res[pluginName])
				if err != nil {
					panic(err)
				}
				ep := pm[id]
				if op.ViaJSON {
					ep = viaJSON(ep)
				}
				if err := f.eng.VirtualizationUpdateResource(ctx, id, ep); err != nil {
					_, _ = f.daemon.Take()
					if errors.Is(err, coretypes.ErrInvaildMemory) && a.memLimit > 0 && a.memLimit < minDockerMemory {
						x.Label("remap:refused-memory-below-4MiB")
						continue
					}
					return vt.Failf("remap:engine-error", "VirtualizationUpdateResource failed for plugin-made remap params %+v: %v", ep, err)
				}
				rq, fnd := takeOne("update", id)
				if fnd != nil {
					return fnd
				}
				ap := application{path: "remap", a: a, pool: poolOf(pm[id]), ncpu: c.NCPU, res: rq.Res}
				ap.extra = fmt.Sprintf(" pool %v", ap.pool)
				ap.label(x)
				if fnd := judge(x, ap); fnd != nil {
					x.Logf("engine params: %+v\nbody: %s", ep, rq.Raw)
					return fnd
				}
			}
		}
	}
	return nil
}

// errClass shortens a plugin refusal to its cause for the class histogram.
func errClass(err error) string {
	msg := err.Error()
	for _, k := range []string{"limit or request less than 0", "unlimited request with bind", "not enough resource", "no enough resource", "insufficient", "capacity"} {
		if strings.Contains(strings.ToLower(msg), k) {
			return strings.ReplaceAll(k, " ", "-")
		}
	}
	if len(msg) > 40 {
		msg = msg[:40]
	}
	return msg
}

func allCoresNumeric(lo, hi int) []string {
	var out []string
	for i := lo; i < hi; i++ {
		out = append(out, strconv.Itoa(i))
	}
	return out
}

var propC31 = vt.Prop[Case]{ID: "C31", Test: "TestC31", Gen: genCase, Run: run}

func TestC31(t *testing.T) {
	theT = t
	// the embedded etcd's test framework chdir()s into a temp dir; vt reads testdata/ and
	// rapid writes testdata/rapid relative to the package dir, so start it first and come back
	wd, err := os.Getwd()
	if err != nil {
		t.Fatal(err)
	}
	if _, err := getFixture(); err != nil {
		t.Fatalf("fixture: %v", err)
	}
	if err := os.Chdir(wd); err != nil {
		t.Fatal(err)
	}
	propC31.Check(t)
}
