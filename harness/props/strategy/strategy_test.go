// Properties C01 (plan validity), C02 (refusal iff infeasible), C03 (balancing rules)
// for github.com/projecteru2/core/strategy, decided on generated candidate sets against
// reference predicates written here from the property statements.
package strategy

import (
	"context"
	"errors"
	"fmt"
	"math"
	"testing"

	"pgregory.net/rapid"

	corestrategy "github.com/projecteru2/core/strategy"
	coretypes "github.com/projecteru2/core/types"

	"verif/internal/vt"
)

func TestMain(m *testing.M) { vt.Main(m) }

// Node is one candidate as the cluster would hand it to the strategy.
type Node struct {
	Name  string  `json:"name"`
	Cap   int     `json:"cap"` // math.MaxInt = unlimited
	Count int     `json:"count"`
	Usage float64 `json:"usage"`
	Rate  float64 `json:"rate"`
}

// Case is one call of strategy.Deploy.
type Case struct {
	Strategy string `json:"strategy"`
	Count    int    `json:"count"`
	Limit    int    `json:"limit"`
	Nodes    []Node `json:"nodes"`
}

const unlimited = math.MaxInt

var strategies = []string{corestrategy.Auto, corestrategy.Fill, corestrategy.Each, corestrategy.Global, corestrategy.Drained}

func satAdd(a, b int) int {
	if a > math.MaxInt-b {
		return math.MaxInt
	}
	return a + b
}

func (c Case) total() int {
	t := 0
	for _, n := range c.Nodes {
		t = satAdd(t, n.Cap)
	}
	return t
}

func (c Case) hasUnlimited() bool {
	for _, n := range c.Nodes {
		if n.Cap == unlimited {
			return true
		}
	}
	return false
}

func genCase(t *rapid.T) Case {
	var c Case
	c.Strategy = rapid.SampledFrom(strategies).Draw(t, "strategy")
	if vt.Chance(t, "weird", 3) {
		c.Strategy = rapid.SampledFrom([]string{"", "auto", "DUMMY", "Auto ", "FILLL"}).Draw(t, "badstrategy")
	}
	n := rapid.IntRange(0, 8).Draw(t, "n")
	if n == 0 && !vt.Chance(t, "allowEmpty", 10) {
		n = 1 + rapid.IntRange(0, 7).Draw(t, "n2")
	}
	smallCaps := rapid.Bool().Draw(t, "smallCaps")
	for i := 0; i < n; i++ {
		var nd Node
		nd.Name = fmt.Sprintf("n%d", i)
		switch k := vt.Pct(t, "capKind") / 5; {
		case k < 3 && !smallCaps:
			nd.Cap = unlimited
		case k < 5:
			nd.Cap = rapid.IntRange(math.MaxInt/2, math.MaxInt-1).Draw(t, "hugeCap")
			if smallCaps {
				nd.Cap = rapid.IntRange(1, 4).Draw(t, "cap")
			}
		case smallCaps:
			nd.Cap = rapid.IntRange(1, 4).Draw(t, "cap")
		default:
			nd.Cap = rapid.IntRange(1, 20).Draw(t, "cap")
		}
		nd.Count = rapid.IntRange(0, 10).Draw(t, "count")
		if rapid.Bool().Draw(t, "tieCount") {
			nd.Count = rapid.IntRange(0, 2).Draw(t, "count2")
		}
		// usage / rate on a coarse grid half of the time so that ties in the sort keys happen
		if rapid.Bool().Draw(t, "grid") {
			nd.Usage = float64(rapid.IntRange(0, 15).Draw(t, "usage10")) / 10
			nd.Rate = float64(rapid.IntRange(0, 5).Draw(t, "rate10")) / 10
		} else {
			nd.Usage = rapid.Float64Range(0, 1.5).Draw(t, "usage")
			nd.Rate = rapid.Float64Range(0, 0.5).Draw(t, "rate")
		}
		c.Nodes = append(c.Nodes, nd)
	}
	// requested count: near the feasibility threshold most of the time
	finite := 0
	for _, nd := range c.Nodes {
		if nd.Cap < math.MaxInt/2 {
			finite += nd.Cap
		}
	}
	switch k := vt.Pct(t, "countKind") / 10; {
	case k == 0:
		c.Count = rapid.IntRange(-2, 0).Draw(t, "badCount")
	case k < 4:
		c.Count = rapid.IntRange(1, 6).Draw(t, "count")
	case k < 8:
		c.Count = max(1, finite+rapid.IntRange(-6, 3).Draw(t, "countNearTotal"))
	default:
		if c.hasUnlimited() {
			c.Count = rapid.IntRange(1, 3000).Draw(t, "bigCount")
		} else {
			c.Count = rapid.IntRange(1, 60).Draw(t, "count60")
		}
	}
	if vt.Chance(t, "limit0", 35) {
		c.Limit = 0
	} else {
		c.Limit = rapid.IntRange(1, 12).Draw(t, "limit")
	}
	return c
}

func (c Case) infos() []corestrategy.Info {
	infos := make([]corestrategy.Info, 0, len(c.Nodes))
	for _, n := range c.Nodes {
		infos = append(infos, corestrategy.Info{Nodename: n.Name, Usage: n.Usage, Rate: n.Rate, Capacity: n.Cap, Count: n.Count})
	}
	return infos
}

func (c Case) deploy() (map[string]int, error) {
	return corestrategy.Deploy(context.Background(), c.Strategy, c.Count, c.Limit, c.infos(), c.total())
}

func (c Case) byName() map[string]Node {
	m := map[string]Node{}
	for _, n := range c.Nodes {
		m[n.Name] = n
	}
	return m
}

func knownStrategy(s string) bool {
	for _, k := range strategies {
		if k == s {
			return true
		}
	}
	return false
}

func (c Case) effLimit() int { // EACH / FILL: number of nodes to select
	if c.Limit == 0 {
		return len(c.Nodes)
	}
	return c.Limit
}

func (c Case) classify(x *vt.Ctx) {
	x.Label("strategy=%s", c.Strategy)
	if c.hasUnlimited() {
		x.Label("unlimited-present")
	}
	if c.Limit > 0 {
		x.Label("limit>0")
	}
}

// ------------------------------------------------------------------------------- C01

func runC01(x *vt.Ctx, c Case) *vt.Finding {
	c.classify(x)
	plan, err := c.deploy()
	if !knownStrategy(c.Strategy) || c.Count <= 0 {
		x.Label("invalid-request")
		if err == nil {
			return vt.Failf("invalid-request-accepted", "strategy %q count %d accepted: %v", c.Strategy, c.Count, plan)
		}
		return nil
	}
	if err != nil {
		x.Label("refused")
		return nil
	}
	x.Label("plan")
	nodes := c.byName()
	if len(c.Nodes) >= 2 {
		x.NonTrivial()
	}
	sum := 0
	for name, k := range plan {
		nd, ok := nodes[name]
		if !ok {
			return vt.Failf(c.Strategy+":non-candidate", "plan names %q which is not a candidate", name)
		}
		if k < 0 {
			return vt.Failf(c.Strategy+":negative", "plan gives %s %d instances", name, k)
		}
		if k > nd.Cap {
			return vt.Failf(c.Strategy+":over-capacity", "plan gives %s %d instances, capacity %d", name, k, nd.Cap)
		}
		sum += k
	}
	switch c.Strategy {
	case corestrategy.Auto, corestrategy.Global, corestrategy.Drained:
		if sum != c.Count {
			return vt.Failf(c.Strategy+":wrong-total", "plan places %d, requested %d: %v", sum, c.Count, plan)
		}
		if c.Strategy == corestrategy.Auto && c.Limit > 0 {
			for name, k := range plan {
				if k > 0 && nodes[name].Count+k > c.Limit {
					return vt.Failf("AUTO:over-limit", "node %s ends with %d+%d instances, limit %d", name, nodes[name].Count, k, c.Limit)
				}
				if k > 0 && nodes[name].Count+k == c.Limit {
					x.Label("AUTO:limit-binds")
				}
			}
		}
	case corestrategy.Each:
		L := c.effLimit()
		if len(plan) != L {
			return vt.Failf("EACH:wrong-node-count", "plan uses %d nodes, want %d: %v", len(plan), L, plan)
		}
		for name, k := range plan {
			if k != c.Count {
				return vt.Failf("EACH:wrong-per-node", "node %s gets %d, want %d", name, k, c.Count)
			}
		}
	case corestrategy.Fill:
		L := c.effLimit()
		if len(plan) != L {
			return vt.Failf("FILL:wrong-node-count", "plan selects %d nodes, want %d: %v", len(plan), L, plan)
		}
		for name, k := range plan {
			want := max(c.Count-nodes[name].Count, 0)
			if k != want {
				return vt.Failf("FILL:wrong-top-up", "node %s (existing %d) gets %d, want %d", name, nodes[name].Count, k, want)
			}
		}
	}
	return nil
}

var propC01 = vt.Prop[Case]{ID: "C01", Test: "TestC01", Gen: genCase, Run: runC01, PanicKey: ""}

func TestC01(t *testing.T) { propC01.Check(t) }

// ------------------------------------------------------------------------------- C02

// feasible is the reference: does a plan under the strategy's rule exist?
func (c Case) feasible() bool {
	n := len(c.Nodes)
	switch c.Strategy {
	case corestrategy.Auto:
		sum := 0
		for _, nd := range c.Nodes {
			room := nd.Cap
			if c.Limit > 0 {
				room = min(nd.Cap, max(c.Limit-nd.Count, 0))
			}
			sum = satAdd(sum, room)
		}
		return sum >= c.Count
	case corestrategy.Global, corestrategy.Drained:
		return c.total() >= c.Count
	case corestrategy.Each:
		L := c.effLimit()
		if L < 1 || n < L {
			return false
		}
		ok := 0
		for _, nd := range c.Nodes {
			if nd.Cap >= c.Count {
				ok++
			}
		}
		return ok >= L
	case corestrategy.Fill:
		L := c.effLimit()
		if L < 1 || n < L {
			return false
		}
		ok := 0
		for _, nd := range c.Nodes {
			if nd.Count >= c.Count || nd.Cap >= c.Count-nd.Count {
				ok++
			}
		}
		return ok >= L
	}
	return false
}

func isInsufficient(err error) bool {
	return errors.Is(err, coretypes.ErrInsufficientResource) || errors.Is(err, coretypes.ErrInsufficientCapacity)
}

func runC02(x *vt.Ctx, c Case) *vt.Finding {
	c.classify(x)
	if !knownStrategy(c.Strategy) || c.Count <= 0 {
		x.Label("invalid-request")
		return nil
	}
	if c.Strategy == corestrategy.Fill && c.hasFillOverflow() && vt.Exclude("C02", "FILL:feasible-refused:count+capacity-overflow") {
		return nil
	}
	plan, err := c.deploy()
	feas := c.feasible()
	x.NonTrivial()
	if feas {
		x.Label("feasible")
		if c.Strategy == corestrategy.Auto && c.Limit > 0 {
			x.Label("AUTO:feasible-with-limit")
		}
		if err != nil && isInsufficient(err) {
			key := c.Strategy + ":feasible-refused"
			if c.Strategy == corestrategy.Fill && c.hasFillOverflow() {
				key += ":count+capacity-overflow"
			}
			return vt.Failf(key, "a plan exists but the request was refused: %v", err)
		}
		if err != nil && !errors.Is(err, coretypes.ErrAlreadyFilled) {
			return vt.Failf(c.Strategy+":feasible-other-error", "a plan exists but the call failed: %v", err)
		}
		if errors.Is(err, coretypes.ErrAlreadyFilled) {
			x.Label("FILL:already-filled")
			// legitimate only if FILL and every selected node is already at the level
			if c.Strategy != corestrategy.Fill {
				return vt.Failf(c.Strategy+":already-filled", "ErrAlreadyFilled from %s", c.Strategy)
			}
			for name, k := range plan {
				if k != 0 {
					return vt.Failf("FILL:already-filled-but-plans", "ErrAlreadyFilled but node %s gets %d", name, k)
				}
			}
		}
		return nil
	}
	x.Label("infeasible")
	if c.Strategy == corestrategy.Auto && c.total() >= c.Count {
		x.Label("AUTO:infeasible-only-by-limit")
	}
	if err == nil {
		return vt.Failf(c.Strategy+":infeasible-planned", "no plan exists under the rule but got %v", plan)
	}
	if !isInsufficient(err) {
		return vt.Failf(c.Strategy+":infeasible-wrong-error", "no plan exists; expected an insufficient-resource error, got %v", err)
	}
	return nil
}

// hasFillOverflow: some node has existing+capacity overflowing int (unlimited capacity with
// existing instances) — the region of known finding C02 FILL overflow, if listed.
func (c Case) hasFillOverflow() bool {
	for _, nd := range c.Nodes {
		if nd.Count > 0 && nd.Cap > math.MaxInt-nd.Count {
			return true
		}
	}
	return false
}

var propC02 = vt.Prop[Case]{ID: "C02", Test: "TestC02", Gen: genCase, Run: runC02}

func TestC02(t *testing.T) { propC02.Check(t) }

// ------------------------------------------------------------------------------- C03

func runC03(x *vt.Ctx, c Case) *vt.Finding {
	c.classify(x)
	if !knownStrategy(c.Strategy) || c.Count <= 0 {
		return nil
	}
	plan, err := c.deploy()
	if err != nil {
		x.Label("no-plan")
		return nil
	}
	nodes := c.byName()
	used := 0
	for _, k := range plan {
		if k > 0 {
			used++
		}
	}
	if len(c.Nodes) >= 3 && used < len(c.Nodes) {
		x.NonTrivial()
	}
	switch c.Strategy {
	case corestrategy.Auto:
		for a, ka := range plan {
			if ka == 0 {
				continue
			}
			A := nodes[a]
			for _, B := range c.Nodes {
				if B.Name == a {
					continue
				}
				kb := plan[B.Name]
				if B.Cap-kb <= 0 || (c.Limit > 0 && B.Count+kb >= c.Limit) {
					continue // B could not take one more
				}
				if A.Count+ka > B.Count+kb+1 {
					return vt.Failf("AUTO:uneven", "node %s ends at %d+%d while %s, which could still take one, ends at %d+%d", a, A.Count, ka, B.Name, B.Count, kb)
				}
			}
		}
	case corestrategy.Global:
		final := map[string]float64{}
		for _, nd := range c.Nodes {
			u := nd.Usage
			for i := 0; i < plan[nd.Name]; i++ {
				u += nd.Rate
			}
			final[nd.Name] = u
		}
		for a, ka := range plan {
			if ka == 0 {
				continue
			}
			for _, B := range c.Nodes {
				if B.Name == a || B.Cap-plan[B.Name] <= 0 {
					continue
				}
				if final[a] > final[B.Name]+B.Rate {
					return vt.Failf("GLOBAL:unbalanced", "node %s ends at usage %v while %s with spare capacity ends at %v (+rate %v)", a, final[a], B.Name, final[B.Name], B.Rate)
				}
			}
		}
	case corestrategy.Drained:
		for b, kb := range plan {
			if kb == 0 {
				continue
			}
			for _, A := range c.Nodes {
				if A.Cap < nodes[b].Cap && plan[A.Name] != A.Cap {
					return vt.Failf("DRAINED:smaller-not-filled", "node %s (capacity %d) received %d while smaller node %s (capacity %d) holds only %d", b, nodes[b].Cap, kb, A.Name, A.Cap, plan[A.Name])
				}
			}
		}
	case corestrategy.Each:
		minChosen := math.MaxInt
		for name := range plan {
			minChosen = min(minChosen, nodes[name].Cap)
		}
		for _, nd := range c.Nodes {
			if _, ok := plan[nd.Name]; !ok && nd.Cap > minChosen {
				return vt.Failf("EACH:not-most-capacity", "unchosen node %s has capacity %d > chosen minimum %d", nd.Name, nd.Cap, minChosen)
			}
		}
	case corestrategy.Fill:
		minChosen := math.MaxInt
		for name := range plan {
			minChosen = min(minChosen, nodes[name].Count)
		}
		for _, nd := range c.Nodes {
			able := nd.Count >= c.Count || nd.Cap >= c.Count-nd.Count
			if _, ok := plan[nd.Name]; !ok && able && nd.Count > minChosen {
				return vt.Failf("FILL:not-most-instances", "unchosen able node %s runs %d > chosen minimum %d", nd.Name, nd.Count, minChosen)
			}
		}
	}
	return nil
}

var propC03 = vt.Prop[Case]{ID: "C03", Test: "TestC03", Gen: genCase, Run: runC03}

func TestC03(t *testing.T) { propC03.Check(t) }
