// Package cpumem holds the checks for properties C04 (no overcommit), C05 (bound instances get
// exactly the requested CPU), C06 (CPU planning terminates, never panics) and C33 (an unchanged
// realloc keeps the cores) of github.com/projecteru2/core/resource/plugins/cpumem.
//
// Two kinds of tests: "plugin" tests drive the real cpumem.Plugin on the embedded etcd the
// repo's own tests use (one cluster per Test function, a fresh node name per case), "pure" tests
// call schedule.GetCPUPlans directly for high case counts.
package cpumem

import (
	"context"
	"encoding/json"
	"fmt"
	"math"
	"sort"
	"strconv"
	"testing"

	clientv3 "go.etcd.io/etcd/client/v3"
	"pgregory.net/rapid"

	corecpumem "github.com/projecteru2/core/resource/plugins/cpumem"
	cpumemtypes "github.com/projecteru2/core/resource/plugins/cpumem/types"
	plugintypes "github.com/projecteru2/core/resource/plugins/types"
	"github.com/projecteru2/core/store/etcdv3/embedded"
	coretypes "github.com/projecteru2/core/types"

	"verif/internal/vt"
)

func TestMain(m *testing.M) { vt.Main(m) }

// ---------------------------------------------------------------------------------------
// case building blocks (all JSON-serialisable)

// Sched is the scheduler configuration of the plugin.
type Sched struct {
	ShareBase int `json:"share_base"`
	MaxShare  int `json:"max_share"` // -1 = unlimited, else >= 1
}

// Core is one core of a node; its id is its index in Node.Cores.
type Core struct {
	Cap  int `json:"cap"`  // capacity in pieces
	Used int `json:"used"` // used pieces, 0 <= Used <= Cap
	NUMA int `json:"numa"` // NUMA node index (ignored when the node has no NUMA topology)
}

// Node is a node state as the plugin stores it.
type Node struct {
	Cores       []Core  `json:"cores"`
	NUMA        bool    `json:"numa"`
	NUMAMemCap  []int64 `json:"numa_mem_cap,omitempty"`  // per NUMA node
	NUMAMemUsed []int64 `json:"numa_mem_used,omitempty"` // per NUMA node, <= cap
	MemCap      int64   `json:"mem_cap"`
	MemUsed     int64   `json:"mem_used"`
	// UsageNoNUMA: the usage half of the record carries no core-to-NUMA-node table (the capacity half
	// is the authority; usage records rewritten by the resource repair, or written before the
	// topology was configured through set-node, have none)
	UsageNoNUMA bool `json:"usage_no_numa,omitempty"`
}

func id(i int) string { return strconv.Itoa(i) }

func (n Node) free(i int) int { return n.Cores[i].Cap - n.Cores[i].Used }

func (n Node) freeMem() int64 { return n.MemCap - n.MemUsed }

func (n Node) freeNUMAMem(k int) int64 { return n.NUMAMemCap[k] - n.NUMAMemUsed[k] }

func (n Node) numaOf(core string) (int, bool) {
	i, err := strconv.Atoi(core)
	if err != nil || i < 0 || i >= len(n.Cores) || !n.NUMA {
		return 0, false
	}
	return n.Cores[i].NUMA, true
}

func (n Node) resources(sb int) (capacity, usage *cpumemtypes.NodeResource) {
	capacity = &cpumemtypes.NodeResource{CPU: float64(len(n.Cores)), CPUMap: cpumemtypes.CPUMap{}, Memory: n.MemCap,
		NUMAMemory: cpumemtypes.NUMAMemory{}, NUMA: cpumemtypes.NUMA{}}
	usage = &cpumemtypes.NodeResource{CPUMap: cpumemtypes.CPUMap{}, Memory: n.MemUsed,
		NUMAMemory: cpumemtypes.NUMAMemory{}, NUMA: cpumemtypes.NUMA{}}
	used := 0
	for i, c := range n.Cores {
		capacity.CPUMap[id(i)] = c.Cap
		usage.CPUMap[id(i)] = c.Used
		used += c.Used
		if n.NUMA {
			capacity.NUMA[id(i)] = id(c.NUMA)
			if !n.UsageNoNUMA {
				usage.NUMA[id(i)] = id(c.NUMA)
			}
		}
	}
	usage.CPU = float64(used) / float64(sb)
	if n.NUMA {
		for k := range n.NUMAMemCap {
			capacity.NUMAMemory[id(k)] = n.NUMAMemCap[k]
			usage.NUMAMemory[id(k)] = n.NUMAMemUsed[k]
		}
	}
	return capacity, usage
}

// info is the typed node record (for the pure tests). It is passed through the plugin's own
// Validate, exactly as every write of the plugin does.
func (n Node) info(sb int) (*cpumemtypes.NodeResourceInfo, error) {
	c, u := n.resources(sb)
	inf := &cpumemtypes.NodeResourceInfo{Capacity: c, Usage: u}
	return inf, inf.Validate()
}

func toRaw(v any) map[string]any {
	b, err := json.Marshal(v)
	if err != nil {
		panic(err)
	}
	m := map[string]any{}
	if err := json.Unmarshal(b, &m); err != nil {
		panic(err)
	}
	return m
}

// raw returns capacity and usage the way calcium hands them to the plugin (JSON-shaped maps).
func (n Node) raw(sb int) (plugintypes.NodeResource, plugintypes.NodeResource) {
	c, u := n.resources(sb)
	return toRaw(c), toRaw(u)
}

// Req is a workload resource request.
type Req struct {
	Bind   bool    `json:"bind"`
	CPUReq float64 `json:"cpu_req"`
	CPULim float64 `json:"cpu_lim"`
	MemReq int64   `json:"mem_req"`
	MemLim int64   `json:"mem_lim"`
}

func (r Req) raw() plugintypes.WorkloadResourceRequest {
	return plugintypes.WorkloadResourceRequest{
		"cpu-bind": r.Bind, "cpu-request": r.CPUReq, "cpu-limit": r.CPULim,
		"memory-request": r.MemReq, "memory-limit": r.MemLim,
	}
}

func (r Req) typed() *cpumemtypes.WorkloadResourceRequest {
	return &cpumemtypes.WorkloadResourceRequest{CPUBind: r.Bind, CPURequest: r.CPUReq, CPULimit: r.CPULim, MemRequest: r.MemReq, MemLimit: r.MemLim}
}

// WL is a workload resource record as the plugin returns it (parsed by the harness from the raw map).
type WL struct {
	CPURequest    float64          `json:"cpu_request"`
	CPULimit      float64          `json:"cpu_limit"`
	MemoryRequest int64            `json:"memory_request"`
	MemoryLimit   int64            `json:"memory_limit"`
	CPUMap        map[string]int   `json:"cpu_map"`
	NUMAMemory    map[string]int64 `json:"numa_memory"`
	NUMANode      string           `json:"numa_node"`
}

func parseWL(raw map[string]any) (WL, error) {
	var w WL
	b, err := json.Marshal(raw)
	if err != nil {
		return w, err
	}
	return w, json.Unmarshal(b, &w)
}

func (w WL) pieces() int {
	s := 0
	for _, p := range w.CPUMap {
		s += p
	}
	return s
}

func (w WL) cores() []string {
	var ids []string
	for c, p := range w.CPUMap {
		if p != 0 {
			ids = append(ids, c)
		}
	}
	sort.Strings(ids)
	return ids
}

// Record is the raw node record of the plugin in etcd.
type Record struct {
	Capacity RecRes `json:"capacity"`
	Usage    RecRes `json:"usage"`
}

// RecRes is one side (capacity / usage) of the raw record.
type RecRes struct {
	CPU        float64           `json:"cpu"`
	CPUMap     map[string]int    `json:"cpu_map"`
	Memory     int64             `json:"memory"`
	NUMAMemory map[string]int64  `json:"numa_memory"`
	NUMA       map[string]string `json:"numa"`
}

// ---------------------------------------------------------------------------------------
// fixture: the real plugin on the embedded etcd

const etcdPrefix = "/verif-cpumem"

type fixture struct {
	t       *testing.T
	plugins map[Sched]*corecpumem.Plugin
	cli     *clientv3.Client
	seq     int
}

var fx *fixture

// setup binds the fixture to the running Test function (the embedded cluster is keyed by t.Name()
// inside the repo's embedded.NewCluster and is terminated by t.Cleanup).
func setup(t *testing.T) {
	fx = &fixture{t: t, plugins: map[Sched]*corecpumem.Plugin{}}
}

var ctx = context.Background()

func (f *fixture) plugin(s Sched) *corecpumem.Plugin {
	if p, ok := f.plugins[s]; ok {
		return p
	}
	cfg := coretypes.Config{
		Etcd:      coretypes.EtcdConfig{Prefix: etcdPrefix},
		Scheduler: coretypes.SchedulerConfig{MaxShare: s.MaxShare, ShareBase: s.ShareBase},
	}
	p, err := corecpumem.NewPlugin(ctx, cfg, f.t)
	if err != nil {
		f.t.Fatalf("harness: NewPlugin: %v", err)
	}
	f.plugins[s] = p
	if f.cli == nil {
		f.cli = embedded.NewCluster(f.t, etcdPrefix).RandClient()
	}
	return p
}

// newNode writes the node state under a fresh name through the plugin's own API (so only states
// its Validate accepts exist) and returns the name.
func (f *fixture) newNode(p *corecpumem.Plugin, s Sched, n Node) (string, error) {
	f.seq++
	name := fmt.Sprintf("node%d", f.seq)
	c, u := n.raw(s.ShareBase)
	_, err := p.SetNodeResourceInfo(ctx, name, c, u)
	return name, err
}

// record reads the raw plugin record straight from etcd (not through the plugin).
func (f *fixture) record(name string) (Record, error) {
	var r Record
	resp, err := f.cli.Get(ctx, "/resource/cpumem/"+name)
	if err != nil {
		return r, err
	}
	if len(resp.Kvs) != 1 {
		return r, fmt.Errorf("record %s: %d keys", name, len(resp.Kvs))
	}
	return r, json.Unmarshal(resp.Kvs[0].Value, &r)
}

// validRecord is the harness's own validity predicate: usage within capacity in every dimension.
func validRecord(r Record) error {
	for c, u := range r.Usage.CPUMap {
		capa, ok := r.Capacity.CPUMap[c]
		if !ok {
			return fmt.Errorf("usage on unknown core %s", c)
		}
		if u < 0 || u > capa {
			return fmt.Errorf("core %s: used %d of %d pieces", c, u, capa)
		}
	}
	for k, u := range r.Usage.NUMAMemory {
		if u < 0 || u > r.Capacity.NUMAMemory[k] {
			return fmt.Errorf("NUMA node %s: memory used %d of %d", k, u, r.Capacity.NUMAMemory[k])
		}
	}
	if r.Usage.Memory < 0 || r.Usage.Memory > r.Capacity.Memory {
		return fmt.Errorf("memory used %d of %d", r.Usage.Memory, r.Capacity.Memory)
	}
	return nil
}

// ---------------------------------------------------------------------------------------
// generators

// uni draws an (approximately) uniform int in [lo, hi] (rapid.IntRange is biased to small values).
func uni(t *rapid.T, label string, lo, hi int) int {
	if hi <= lo {
		return lo
	}
	span := hi - lo + 1
	if span <= 100 {
		return lo + vt.Pct(t, label)*span/100
	}
	return lo + (vt.Pct(t, label+"H")*100+vt.Pct(t, label+"L"))%span
}

func genSched(t *rapid.T, wide bool) Sched {
	var s Sched
	switch p := vt.Pct(t, "shareBaseKind"); {
	case p < 50:
		s.ShareBase = 100
	case p < 64:
		s.ShareBase = 10
	case p < 76:
		s.ShareBase = 1000
	case p < 88:
		s.ShareBase = 7
	case p < 93:
		s.ShareBase = 1
	default:
		s.ShareBase = rapid.IntRange(2, 64).Draw(t, "shareBase")
	}
	switch p := vt.Pct(t, "maxShareKind"); {
	case p < 45:
		s.MaxShare = -1
	case p < 90 || !wide:
		s.MaxShare = uni(t, "maxShare", 1, 4)
	default:
		s.MaxShare = uni(t, "maxShareWide", 5, 16)
	}
	return s
}

type nodeOpts struct {
	maxCores   int
	wholeCores bool // every capacity a multiple of shareBase (C33)
	memOver    bool // memory usage may exceed capacity (C06: reachable after a capacity shrink)
}

func genNode(t *rapid.T, sb int, o nodeOpts) Node {
	var n Node
	nc := uni(t, "ncores", 1, o.maxCores)
	capKind := vt.Pct(t, "capKind")
	share := uni(t, "share", 1, 3*sb) // a node added with a non-default share
	useKind := vt.Pct(t, "useKind")
	n.NUMA = vt.Chance(t, "numa", 45)
	n.UsageNoNUMA = n.NUMA && vt.Chance(t, "usageNoNUMA", 25)
	numaNodes := 2
	if n.NUMA && vt.Chance(t, "numa3", 15) {
		numaNodes = 3
	}
	contiguous := rapid.Bool().Draw(t, "numaContiguous")
	for i := 0; i < nc; i++ {
		var c Core
		switch {
		case capKind < 50 || (o.wholeCores && capKind < 75):
			c.Cap = sb
		case capKind < 60 || o.wholeCores && capKind < 85:
			c.Cap = 2 * sb
		case capKind < 75 || o.wholeCores:
			c.Cap = sb * rapid.IntRange(1, 2).Draw(t, "capMul")
		case capKind < 87:
			c.Cap = share
		default:
			c.Cap = rapid.IntRange(0, 3*sb).Draw(t, "capAny")
		}
		switch p := vt.Pct(t, "coreUse"); {
		case useKind < 15: // idle node
			c.Used = 0
		case useKind < 25 && p < 70: // mostly whole cores taken
			c.Used = min(c.Cap, sb*rapid.IntRange(0, 2).Draw(t, "usedMul"))
		case p < 30:
			c.Used = 0
		case p < 40:
			c.Used = c.Cap
		case p < 55 && sb >= 10:
			c.Used = min(c.Cap, (sb/10)*rapid.IntRange(0, 10).Draw(t, "usedTenth"))
		default:
			c.Used = rapid.IntRange(0, c.Cap).Draw(t, "used")
		}
		if n.NUMA {
			if contiguous {
				c.NUMA = i * numaNodes / nc
			} else {
				c.NUMA = rapid.IntRange(0, numaNodes-1).Draw(t, "numaOf")
			}
		}
		n.Cores = append(n.Cores, c)
	}
	// memory: small numbers so that the memory bound and the CPU bound are of the same order
	switch p := vt.Pct(t, "memCapKind"); {
	case p < 10:
		n.MemCap = int64(rapid.IntRange(0, 8).Draw(t, "memCapTiny"))
	case p < 75:
		n.MemCap = int64(uni(t, "memCap", 20, 200))
	default:
		n.MemCap = int64(uni(t, "memCapBig", 200, 5000))
	}
	sumNUMAUsed := int64(0)
	if n.NUMA {
		n.NUMAMemCap = make([]int64, numaNodes)
		n.NUMAMemUsed = make([]int64, numaNodes)
		kind := vt.Pct(t, "numaMemKind")
		for k := 0; k < numaNodes; k++ {
			switch {
			case kind < 55: // what AddNode does with an even split
				n.NUMAMemCap[k] = n.MemCap / int64(numaNodes)
			case kind < 88: // uneven, but within the node's memory in total
				rest := n.MemCap
				for j := 0; j < k; j++ {
					rest -= n.NUMAMemCap[j]
				}
				n.NUMAMemCap[k] = int64(rapid.IntRange(0, int(max(rest, 0))).Draw(t, "numaMemCap"))
			default: // explicit numa-memory that is not tied to the node memory at all
				n.NUMAMemCap[k] = int64(rapid.IntRange(0, int(n.MemCap)+20).Draw(t, "numaMemCapFree"))
			}
			switch p := vt.Pct(t, "numaMemUse"); {
			case p < 35:
				n.NUMAMemUsed[k] = 0
			case p < 45:
				n.NUMAMemUsed[k] = n.NUMAMemCap[k]
			default:
				n.NUMAMemUsed[k] = int64(rapid.IntRange(0, int(n.NUMAMemCap[k])).Draw(t, "numaMemUsed"))
			}
			sumNUMAUsed += n.NUMAMemUsed[k]
		}
	}
	// memory usage = NUMA-bound usage + usage of unbound workloads (which use no NUMA memory)
	lo := min(sumNUMAUsed, n.MemCap)
	switch p := vt.Pct(t, "memUseKind"); {
	case p < 25:
		n.MemUsed = lo
	case p < 35:
		n.MemUsed = n.MemCap
	case p < 50: // nearly full
		n.MemUsed = max(lo, n.MemCap-int64(rapid.IntRange(0, 30).Draw(t, "memLeft")))
	case p < 58 && o.memOver:
		n.MemUsed = n.MemCap + int64(rapid.IntRange(1, 100).Draw(t, "memOver"))
	default:
		n.MemUsed = int64(rapid.IntRange(int(lo), int(n.MemCap)).Draw(t, "memUsed"))
	}
	return n
}

// genCPU draws a CPU amount: mostly on the 1/shareBase grid (k pieces), sometimes off it.
// It returns the float and, when on the grid, the number of pieces (else -1).
func genCPU(t *rapid.T, label string, sb, maxCores int) (float64, int) {
	k := 0
	switch p := vt.Pct(t, label+"Kind"); {
	case p < 30 && sb > 1: // below one core
		k = uni(t, label+"Frag", 1, sb-1)
	case p < 55: // whole cores
		k = sb * uni(t, label+"Full", 1, max(1, maxCores/2))
	case p < 90: // cores plus a fraction
		k = uni(t, label+"K", 1, max(1, maxCores*sb/2))
	default:
		f := rapid.Float64Range(0.0001, float64(maxCores)).Draw(t, label+"Float")
		return f, -1
	}
	return float64(k) / float64(sb), k
}

func genMem(t *rapid.T, label string, n Node) int64 {
	switch p := vt.Pct(t, label+"Kind"); {
	case p < 4:
		// amounts whose product with a small instance count no longer fits in an int64
		return rapid.SampledFrom([]int64{1 << 61, 1 << 62, math.MaxInt64 / 3, math.MaxInt64/2 + 1, 1 << 60}).Draw(t, label+"Huge")
	case p < 22:
		return 0
	case p < 60:
		return int64(rapid.IntRange(1, 40).Draw(t, label))
	case p < 85:
		return int64(rapid.IntRange(1, int(max(n.MemCap, 1))).Draw(t, label+"ToCap"))
	default:
		return int64(uni(t, label+"Any", 1, 300))
	}
}

// classifyNode labels the structural class of the node for the evidence histogram.
func classifyNode(x *vt.Ctx, s Sched, n Node) {
	switch s.ShareBase {
	case 1, 7, 10, 100, 1000:
		x.Label("shareBase=%d", s.ShareBase)
	default:
		x.Label("shareBase=other")
	}
	if s.MaxShare == -1 {
		x.Label("maxShare=unlimited")
	} else {
		x.Label("maxShare=limited")
	}
	if n.NUMA {
		x.Label("node:numa")
	} else {
		x.Label("node:no-numa")
	}
	frag, nonDefault := 0, false
	for i, c := range n.Cores {
		if f := n.free(i); f > 0 && f%s.ShareBase != 0 {
			frag++
		}
		if c.Cap != s.ShareBase {
			nonDefault = true
		}
	}
	if frag > 0 {
		x.Label("node:has-partially-used-core")
	}
	if nonDefault {
		x.Label("node:non-default-share")
	}
	x.Label("cores=%d", len(n.Cores))
}
