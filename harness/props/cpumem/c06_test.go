package cpumem

import (
	"encoding/json"
	"fmt"
	"os"
	"regexp"
	"runtime"
	"runtime/debug"
	"strings"
	"testing"
	"time"

	"pgregory.net/rapid"

	"github.com/projecteru2/core/resource/plugins/cpumem/schedule"
	plugintypes "github.com/projecteru2/core/resource/plugins/types"

	"verif/internal/stats"
	"verif/internal/vt"
)

// C06 — CPU planning always terminates without crashing.
//
// Oracle: the call returns (value or error) without panic. "Returns in bounded time" is the
// property itself, so this is the one place with a wall-clock bound: a planning call over at
// most 12 cores normally takes microseconds; a call that has not returned after hangAfter
// (or that has driven the heap above hangHeap: the known non-terminating loop allocates
// without bound) is reported as a hang. A hung goroutine cannot be killed, so the violation is
// recorded, the stats are flushed and the process exits with status 1.

const (
	hangAfter = 5 * time.Second
	hangHeap  = 2 << 30 // bytes
)

// Origin is an existing workload (for the realloc / affinity path).
type Origin struct {
	CPUMap  map[string]int `json:"cpu_map"`
	MemReq  int64          `json:"mem_req"`
	NUMA    string         `json:"numa"`
	KeepCPU bool           `json:"keep"`
}

// C06Case is one planning call.
type C06Case struct {
	Sched  Sched   `json:"sched"`
	Node   Node    `json:"node"`
	Req    Req     `json:"req"`
	Origin *Origin `json:"origin,omitempty"`
	Count  int     `json:"count"`
}

func genC06(t *rapid.T) C06Case {
	var c C06Case
	c.Sched = genSched(t, true)
	sb := c.Sched.ShareBase
	c.Node = genNode(t, sb, nodeOpts{maxCores: 12, memOver: true})
	nc := len(c.Node.Cores)
	// over-fragmented nodes: more partially used cores than max-share allows
	if c.Sched.MaxShare > 0 && sb > 1 && vt.Chance(t, "overFragment", 35) {
		for i := range c.Node.Cores {
			if cp := c.Node.Cores[i].Cap; cp >= 2 && vt.Chance(t, "fragCore", 70) {
				c.Node.Cores[i].Used = rapid.IntRange(1, cp-1).Draw(t, "fragUsed")
			}
		}
	}
	c.Req.Bind = true
	switch p := vt.Pct(t, "reqKind"); {
	case p < 12: // below one piece
		c.Req.CPUReq = rapid.Float64Range(1e-9, 1).Draw(t, "subPiece") / float64(sb)
	case p < 18: // huge
		c.Req.CPUReq = rapid.SampledFrom([]float64{1e3, 1e6, 92233720368547758, 1e17, 1e19, 1e30, 1e300}).Draw(t, "huge")
	case p < 24: // just around the node size
		c.Req.CPUReq = float64(nc) + float64(rapid.IntRange(-sb, sb).Draw(t, "aroundAll"))/float64(sb)
		if c.Req.CPUReq <= 0 {
			c.Req.CPUReq = float64(nc)
		}
	default:
		c.Req.CPUReq, _ = genCPU(t, "cpuReq", sb, nc)
	}
	switch p := vt.Pct(t, "cpuLimKind"); {
	case p < 50:
		c.Req.CPULim = c.Req.CPUReq
	case p < 80:
		c.Req.CPULim = 0
	default:
		c.Req.CPULim, _ = genCPU(t, "cpuLim", sb, nc)
	}
	c.Req.MemReq = genMem(t, "memReq", c.Node)
	c.Req.MemLim = c.Req.MemReq
	if vt.Chance(t, "origin", 40) {
		o := &Origin{CPUMap: map[string]int{}, KeepCPU: rapid.Bool().Draw(t, "keep")}
		// the origin holds pieces that are part of the node's usage
		for i, core := range c.Node.Cores {
			if core.Used > 0 && vt.Chance(t, "originCore", 45) {
				switch p := vt.Pct(t, "originPieces"); {
				case p < 50:
					o.CPUMap[id(i)] = core.Used
				case p < 75 && core.Used >= sb:
					o.CPUMap[id(i)] = sb
				default:
					o.CPUMap[id(i)] = rapid.IntRange(1, core.Used).Draw(t, "originUsed")
				}
			}
		}
		o.MemReq = int64(rapid.IntRange(0, int(max(c.Node.MemUsed, 0))).Draw(t, "originMem"))
		if c.Node.NUMA && rapid.Bool().Draw(t, "originNUMA") {
			k := rapid.IntRange(0, len(c.Node.NUMAMemCap)-1).Draw(t, "originNUMANode")
			o.NUMA = id(k)
			o.MemReq = min(o.MemReq, c.Node.NUMAMemUsed[k])
		}
		c.Origin = o
	}
	c.Count = rapid.IntRange(1, 4).Draw(t, "count")
	return c
}

// outsideUnitTests is the non-trivial rule: the case lies outside the domain the repo's own
// tests use (max-share -1, share base 100, requests >= 0.3 cores, default shares, no
// over-fragmentation, memory usage within capacity).
func (c C06Case) classify(x *vt.Ctx) bool {
	classifyNode(x, c.Sched, c.Node)
	nt := false
	sb := c.Sched.ShareBase
	if c.Sched.MaxShare != -1 {
		nt = true
		frag := 0
		for i := range c.Node.Cores {
			if f := c.Node.free(i); f > 0 && f%sb != 0 {
				frag++
			}
		}
		if frag > c.Sched.MaxShare {
			x.Label("node:over-fragmented")
		}
	}
	if c.Req.CPUReq*float64(sb) < 1 {
		x.Label("req:sub-piece")
		nt = true
	} else if c.Req.CPUReq < 0.3 {
		nt = true
	}
	if c.Req.CPUReq > float64(len(c.Node.Cores)) {
		x.Label("req:more-than-node")
		nt = true
	}
	if c.Node.MemUsed > c.Node.MemCap {
		x.Label("node:memory-over-capacity")
		nt = true
	}
	for _, core := range c.Node.Cores {
		if core.Cap%sb != 0 {
			nt = true
		}
	}
	if sb != 100 {
		nt = true
	}
	if c.Origin != nil {
		x.Label("with-origin")
	}
	return nt
}

var digits = regexp.MustCompile(`-?[0-9]+`)

// rootFrame returns the innermost function of the code under test in a stack dump.
func rootFrame(stack string) string {
	for _, l := range strings.Split(stack, "\n") {
		l = strings.TrimSpace(l)
		if i := strings.Index(l, "projecteru2/core/"); i >= 0 && !strings.HasPrefix(l, "/") && strings.Contains(l, "(") {
			fn := l[i+len("projecteru2/core/"):]
			if j := strings.LastIndex(fn, "("); j > 0 {
				fn = fn[:j]
			}
			return fn
		}
	}
	return "?"
}

// guarded runs f on its own goroutine under the watchdog.
func guarded(test string, c any, f func()) *vt.Finding {
	done := make(chan *vt.Finding, 1)
	go func() {
		defer func() {
			if r := recover(); r != nil {
				st := string(debug.Stack())
				msg := digits.ReplaceAllString(fmt.Sprint(r), "N")
				done <- vt.Failf("panic:"+rootFrame(st)+":"+msg, "panic: %v\n%s", r, trimFrames(st))
			}
		}()
		f()
		done <- nil
	}()
	start := time.Now()
	tick := time.NewTimer(200 * time.Millisecond)
	defer tick.Stop()
	for {
		select {
		case fd := <-done:
			return fd
		case <-tick.C:
			var ms runtime.MemStats
			runtime.ReadMemStats(&ms)
			grown := int64(ms.HeapAlloc)
			if time.Since(start) < hangAfter && grown < hangHeap {
				tick.Reset(100 * time.Millisecond)
				continue
			}
			buf := make([]byte, 1<<20)
			buf = buf[:runtime.Stack(buf, true)]
			frame := "?"
			for _, g := range strings.Split(string(buf), "\n\n") {
				if strings.Contains(g, "cpumem.guarded.func1") {
					frame = rootFrame(g)
				}
			}
			key := "hang:" + frame
			msg := fmt.Sprintf("call did not return after %v (heap now %d MB); innermost frame of the code under test: %s", time.Since(start).Round(time.Millisecond), grown>>20, frame)
			stats.Eval()
			stats.RecordViolation(test, key, msg, c)
			stats.Flush()
			b, _ := json.Marshal(c)
			fmt.Printf("VIOLATION C06 key=%s: %s\ncase: %s\n", key, msg, b)
			os.Exit(1)
		}
	}
}

func trimFrames(st string) string {
	var keep []string
	for _, l := range strings.Split(st, "\n") {
		if strings.Contains(l, "projecteru2/core") {
			keep = append(keep, strings.TrimSpace(l))
		}
		if len(keep) >= 10 {
			break
		}
	}
	return strings.Join(keep, "\n")
}

// ------------------------------------------------------------------------------------ pure

func runC06Pure(x *vt.Ctx, c C06Case) *vt.Finding {
	if c.classify(x) {
		x.NonTrivial()
	}
	sb := c.Sched.ShareBase
	info, err := c.Node.info(sb)
	if err != nil {
		panic(fmt.Sprintf("harness: generated node rejected by Validate: %v", err))
	}
	req := c.Req.typed()
	if err := req.Validate(); err != nil {
		x.Label("invalid-request")
		return nil
	}
	var origin map[string]int
	if c.Origin != nil {
		origin = c.Origin.CPUMap
		// what CalculateRealloc does first: the origin goes back into the pool
		for cid, p := range origin {
			info.Usage.CPUMap[cid] -= p
		}
		info.Usage.Memory -= c.Origin.MemReq
		if c.Origin.NUMA != "" {
			info.Usage.NUMAMemory[c.Origin.NUMA] -= c.Origin.MemReq
		}
	}
	n := 0
	f := guarded("TestC06Pure", c, func() {
		n = len(schedule.GetCPUPlans(info, origin, sb, c.Sched.MaxShare, req))
	})
	if f == nil {
		if n > 0 {
			x.Label("plans>0")
		} else {
			x.Label("plans=0")
		}
	}
	return f
}

var propC06Pure = vt.Prop[C06Case]{ID: "C06", Test: "TestC06Pure", Gen: genC06, Run: runC06Pure}

func TestC06Pure(t *testing.T) { propC06Pure.Check(t) }

// ---------------------------------------------------------------------------------- plugin

func runC06Plugin(x *vt.Ctx, c C06Case) *vt.Finding {
	if c.classify(x) {
		x.NonTrivial()
	}
	sb := c.Sched.ShareBase
	p := fx.plugin(c.Sched)
	name, err := fx.newNode(p, c.Sched, c.Node)
	if err != nil {
		panic(fmt.Sprintf("harness: generated node rejected by the plugin: %v", err))
	}
	var f *vt.Finding
	if f = guarded("TestC06Plugin", c, func() {
		if _, err := p.GetNodesDeployCapacity(ctx, []string{name}, c.Req.raw()); err != nil {
			x.Label("capacity:error")
		}
	}); f != nil {
		f.Msg = "GetNodesDeployCapacity: " + f.Msg
		return f
	}
	if f = guarded("TestC06Plugin", c, func() {
		if _, err := p.CalculateDeploy(ctx, name, c.Count, c.Req.raw()); err != nil {
			x.Label("deploy:error")
		} else {
			x.Label("deploy:ok")
		}
	}); f != nil {
		f.Msg = "CalculateDeploy: " + f.Msg
		return f
	}
	if c.Origin == nil {
		return nil
	}
	o := c.Origin
	pieces := 0
	for _, v := range o.CPUMap {
		pieces += v
	}
	origin := plugintypes.WorkloadResource(toRaw(WL{CPURequest: float64(pieces) / float64(sb), CPULimit: float64(pieces) / float64(sb),
		MemoryRequest: o.MemReq, MemoryLimit: o.MemReq, CPUMap: o.CPUMap, NUMANode: o.NUMA}))
	if o.NUMA != "" {
		origin["numa_memory"] = map[string]any{o.NUMA: o.MemReq}
	}
	// the request is the delta: new amount = origin + delta; draw the delta from the case's request
	// so that the sum is sometimes tiny, zero or negative (rejected by Validate, which is a return)
	rreq := c.Req.raw()
	delete(rreq, "cpu-bind")
	if o.KeepCPU {
		rreq["keep-cpu-bind"] = true
	} else {
		rreq["cpu-bind"] = true
	}
	if c.Count%2 == 0 { // shrink instead of grow
		rreq["cpu-request"] = -c.Req.CPUReq
		rreq["cpu-limit"] = -c.Req.CPULim
	}
	if f = guarded("TestC06Plugin", c, func() {
		if _, err := p.CalculateRealloc(ctx, name, origin, rreq); err != nil {
			x.Label("realloc:error")
		} else {
			x.Label("realloc:ok")
		}
	}); f != nil {
		f.Msg = "CalculateRealloc: " + f.Msg
		return f
	}
	return nil
}

var propC06Plugin = vt.Prop[C06Case]{ID: "C06", Test: "TestC06Plugin", Gen: genC06, Run: runC06Plugin}

func TestC06Plugin(t *testing.T) { setup(t); propC06Plugin.Check(t) }
