package cpumem

import (
	"fmt"
	"math"
	"testing"

	"pgregory.net/rapid"

	"github.com/projecteru2/core/resource/plugins/cpumem/schedule"
	plugintypes "github.com/projecteru2/core/resource/plugins/types"

	"verif/internal/vt"
)

// C05 — CPU-bound instances receive exactly the CPU amount requested.

// C05Case is a bound deployment of K pieces (cpu-request = K/shareBase), optionally followed by a
// realloc of the first instance by DK pieces.
type C05Case struct {
	Sched  Sched `json:"sched"`
	Node   Node  `json:"node"`
	K      int   `json:"k"`     // requested pieces, >= 1
	LimK   int   `json:"lim_k"` // cpu-limit in pieces, 0 = not given
	MemReq int64 `json:"mem_req"`
	Count  int   `json:"count"`

	Realloc bool  `json:"realloc"`
	Keep    bool  `json:"keep"`  // realloc asks keep-cpu-bind (else cpu-bind)
	DK      int   `json:"dk"`    // delta of cpu-request in pieces (any sign)
	DLimK   int   `json:"dlimk"` // delta of cpu-limit in pieces
	DMem    int64 `json:"dmem"`
}

func genC05(t *rapid.T) C05Case {
	var c C05Case
	c.Sched = genSched(t, false)
	sb := c.Sched.ShareBase
	c.Node = genNode(t, sb, nodeOpts{maxCores: 8})
	// mostly roomy nodes ("all node states with enough free cores"): free some cores
	if vt.Chance(t, "roomy", 80) {
		for i := range c.Node.Cores {
			if vt.Chance(t, "freeCore", 75) {
				c.Node.Cores[i].Used = 0
			}
		}
		c.Node.MemCap = max(c.Node.MemCap, 60)
		c.Node.MemUsed = min(c.Node.MemUsed, c.Node.MemCap/4)
		for k := range c.Node.NUMAMemUsed {
			c.Node.NUMAMemUsed[k] = min(c.Node.NUMAMemUsed[k], c.Node.NUMAMemCap[k]/2, c.Node.MemUsed)
		}
	}
	nc := len(c.Node.Cores)
	// k uniform over the grid up to about half the node, so 0.29, 0.57, 1.15 ... are hit constantly
	c.K = uni(t, "k", 1, max(1, min(8, nc)*sb*5/8))
	if sb > 1 && vt.Chance(t, "kBelowOneCore", 25) {
		c.K = uni(t, "kFrag", 1, sb-1)
	}
	switch p := vt.Pct(t, "limKind"); {
	case p < 50:
		c.LimK = c.K
	case p < 75:
		c.LimK = 0
	case p < 88:
		c.LimK = c.K + rapid.IntRange(1, sb).Draw(t, "limAbove")
	default:
		c.LimK = max(1, c.K-rapid.IntRange(1, sb).Draw(t, "limBelow"))
	}
	if vt.Chance(t, "mem0", 40) {
		c.MemReq = 0
	} else {
		c.MemReq = int64(rapid.IntRange(1, 12).Draw(t, "memReq"))
	}
	c.Count = rapid.IntRange(1, 3).Draw(t, "count")
	c.Realloc = vt.Chance(t, "realloc", 45)
	if c.Realloc {
		c.Keep = rapid.Bool().Draw(t, "keep")
		k0 := max(c.K, c.LimK)
		switch p := vt.Pct(t, "dkKind"); {
		case p < 15:
			c.DK = 0
		case p < 55: // shrink, staying >= 1 piece
			c.DK = -uni(t, "dkDown", 1, max(1, k0-1))
		default:
			c.DK = uni(t, "dkUp", 1, 2*sb)
		}
		switch p := vt.Pct(t, "dlimKind"); {
		case c.LimK == 0 && p < 80:
			c.DLimK = 0
		case p < 80:
			c.DLimK = c.DK
		default:
			c.DLimK = uni(t, "dlimAny", -sb, sb)
		}
		c.DMem = int64(rapid.IntRange(-5, 10).Draw(t, "dmem"))
		if vt.Chance(t, "limitOnly", 12) {
			// only the limit changes: for a bound workload the request follows the limit upwards
			c.DK, c.DMem = 0, 0
			c.DLimK = uni(t, "dlimOnly", 1, 2*sb)
		}
	}
	return c
}

// checkExact: the instance holds exactly want pieces, as whole cores at a full share plus at
// most one core carrying the fractional remainder, and the recorded CPU amount agrees.
func checkExact(where string, sb, want int, w WL) *vt.Finding {
	got := w.pieces()
	if got != want {
		kind := "too-few"
		if got > want {
			kind = "too-many"
		}
		return vt.Failf(where+":pieces:"+kind, "requested %d pieces (%v cores at share base %d), instance holds %d: %v", want, float64(want)/float64(sb), sb, got, w.CPUMap)
	}
	full, frag := 0, 0
	for c, p := range w.CPUMap {
		switch {
		case p == sb:
			full++
		case p == want%sb && p > 0:
			frag++
		default:
			return vt.Failf(where+":shape", "core %s carries %d pieces, neither a full share (%d) nor the remainder (%d): %v", c, p, sb, want%sb, w.CPUMap)
		}
	}
	wantFrag := 0
	if want%sb != 0 {
		wantFrag = 1
	}
	if full != want/sb || frag != wantFrag {
		return vt.Failf(where+":shape", "%d pieces given as %d full cores and %d fragment cores, expected %d and %d: %v", want, full, frag, want/sb, wantFrag, w.CPUMap)
	}
	if rec := int(math.Round(w.CPURequest * float64(sb))); rec != got {
		return vt.Failf(where+":recorded-amount", "workload records cpu_request %v (= %d pieces) but holds %d pieces", w.CPURequest, rec, got)
	}
	return nil
}

func cpuOf(k, sb int) float64 { return float64(k) / float64(sb) }

func runC05(x *vt.Ctx, c C05Case) *vt.Finding {
	classifyNode(x, c.Sched, c.Node)
	sb := c.Sched.ShareBase
	p := fx.plugin(c.Sched)
	name, err := fx.newNode(p, c.Sched, c.Node)
	if err != nil {
		panic(fmt.Sprintf("harness: generated node rejected by the plugin: %v", err))
	}
	req := plugintypes.WorkloadResourceRequest{"cpu-bind": true, "cpu-request": cpuOf(c.K, sb), "cpu-limit": cpuOf(c.LimK, sb),
		"memory-request": c.MemReq, "memory-limit": c.MemReq}
	// a bound request is raised to its limit ("set cpu request=limit"); a limit below the request is raised
	k0 := max(c.K, c.LimK)
	lim0 := 0
	if c.LimK > 0 {
		lim0 = k0
	}
	if k0%sb != 0 {
		x.Label("deploy:fractional")
	} else {
		x.Label("deploy:whole")
	}
	resp, err := p.CalculateDeploy(ctx, name, c.Count, req)
	if err != nil {
		x.Label("deploy:refused")
		return nil
	}
	x.Label("deploy:ok")
	if k0%sb != 0 {
		x.NonTrivial()
	}
	var first WL
	for i, raw := range resp.WorkloadsResource {
		w, err := parseWL(raw)
		if err != nil {
			return vt.Failf("unparsable-workload-resource", "instance %d: %v", i, err)
		}
		if f := checkExact("deploy", sb, k0, w); f != nil {
			return f
		}
		if i == 0 {
			first = w
		}
	}
	if !c.Realloc || len(resp.WorkloadsResource) == 0 {
		return nil
	}
	wraw := append([]plugintypes.WorkloadResource{}, resp.WorkloadsResource...)
	if _, err := p.SetNodeResourceUsage(ctx, name, nil, nil, wraw, true, true); err != nil {
		x.Label("commit-rejected") // C04's business
		return nil
	}
	bindKey := "cpu-bind"
	if c.Keep {
		bindKey = "keep-cpu-bind"
	}
	rreq := plugintypes.WorkloadResourceRequest{bindKey: true, "cpu-request": cpuOf(c.DK, sb), "cpu-limit": cpuOf(c.DLimK, sb),
		"memory-request": c.DMem, "memory-limit": c.DMem}
	// expected effective request after the documented normalisation of request/limit
	k1, lim1 := k0+c.DK, lim0+c.DLimK
	want := 0
	switch {
	case k1 < 0 || lim1 < 0 || first.MemoryRequest+c.DMem < 0:
		want = -1 // invalid
	case k1 == 0 && lim1 == 0:
		want = -1 // bound with unlimited request: invalid
	case k1 == 0:
		want = lim1
	default:
		want = max(k1, lim1)
	}
	rr, err := p.CalculateRealloc(ctx, name, resp.WorkloadsResource[0], rreq)
	if err != nil {
		x.Label("realloc:refused")
		return nil
	}
	if want < 0 {
		return vt.Failf("realloc:invalid-accepted", "realloc to request %d / limit %d pieces, memory %d was accepted", k1, lim1, first.MemoryRequest+c.DMem)
	}
	x.Label("realloc:ok")
	if want%sb != 0 {
		x.Label("realloc:fractional")
		x.NonTrivial()
	}
	w, err := parseWL(rr.WorkloadResource)
	if err != nil {
		return vt.Failf("unparsable-workload-resource", "realloc: %v", err)
	}
	return checkExact("realloc", sb, want, w)
}

var propC05 = vt.Prop[C05Case]{ID: "C05", Test: "TestC05", Gen: genC05, Run: runC05}

func TestC05(t *testing.T) { setup(t); propC05.Check(t) }

// ------------------------------------------------------------------------------------ pure

// runC05Pure: every plan of schedule.GetCPUPlans for a request of K pieces holds exactly K pieces
// in the stated shape (deploy part only, no etcd; with an origin map when Realloc is set so that
// the affinity path is covered too).
func runC05Pure(x *vt.Ctx, c C05Case) *vt.Finding {
	classifyNode(x, c.Sched, c.Node)
	sb := c.Sched.ShareBase
	info, err := c.Node.info(sb)
	if err != nil {
		panic(fmt.Sprintf("harness: generated node rejected by Validate: %v", err))
	}
	req := Req{Bind: true, CPUReq: cpuOf(c.K, sb), CPULim: cpuOf(c.LimK, sb), MemReq: c.MemReq, MemLim: c.MemReq}.typed()
	if err := req.Validate(); err != nil {
		panic("harness: request rejected: " + err.Error())
	}
	k0 := max(c.K, c.LimK)
	var origin map[string]int
	if c.Realloc { // an origin map over the first cores: exercises the affinity planner
		origin = map[string]int{}
		left := k0
		for i := 0; i < len(c.Node.Cores) && left > 0; i++ {
			origin[id(i)] = min(left, sb)
			left -= min(left, sb)
		}
		x.Label("with-affinity")
	}
	plans := schedule.GetCPUPlans(info, origin, sb, c.Sched.MaxShare, req)
	if len(plans) == 0 {
		x.Label("deploy:refused")
		return nil
	}
	x.Label("deploy:ok")
	if k0%sb != 0 {
		x.Label("deploy:fractional")
		x.NonTrivial()
	} else {
		x.Label("deploy:whole")
	}
	for _, pl := range plans {
		if f := checkExact("plan", sb, k0, WL{CPUMap: pl.CPUMap, CPURequest: req.CPURequest}); f != nil {
			return f
		}
	}
	return nil
}

var propC05Pure = vt.Prop[C05Case]{ID: "C05", Test: "TestC05Pure", Gen: genC05, Run: runC05Pure}

func TestC05Pure(t *testing.T) { propC05Pure.Check(t) }
