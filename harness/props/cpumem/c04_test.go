package cpumem

import (
	"fmt"
	"math"
	"testing"

	"pgregory.net/rapid"

	"github.com/projecteru2/core/resource/plugins/cpumem/schedule"
	plugintypes "github.com/projecteru2/core/resource/plugins/types"

	"verif/internal/vt"
)

// C04 — allocations never overcommit a node's CPU cores or memory.

// C04Case is one allocation on one node.
type C04Case struct {
	Sched Sched `json:"sched"`
	Node  Node  `json:"node"`
	Req   Req   `json:"req"`
	// Count is the number of instances asked for; 0 = "as many as the plugin reports as capacity".
	Count int `json:"count"`
}

func genC04(t *rapid.T) C04Case {
	var c C04Case
	c.Sched = genSched(t, false)
	c.Node = genNode(t, c.Sched.ShareBase, nodeOpts{maxCores: 8})
	if vt.Chance(t, "roomy", 40) { // more room, so that several instances fit
		for i := range c.Node.Cores {
			if vt.Chance(t, "freeCore", 60) {
				c.Node.Cores[i].Used = 0
			}
		}
		c.Node.MemUsed = min(c.Node.MemUsed, c.Node.MemCap/2)
		for k := range c.Node.NUMAMemUsed {
			c.Node.NUMAMemUsed[k] = min(c.Node.NUMAMemUsed[k], c.Node.MemUsed/int64(len(c.Node.NUMAMemUsed)))
		}
	}
	c.Req.Bind = vt.Chance(t, "bind", 80)
	c.Req.CPUReq, _ = genCPU(t, "cpuReq", c.Sched.ShareBase, len(c.Node.Cores))
	if !c.Req.Bind && vt.Chance(t, "cpuReq0", 30) {
		c.Req.CPUReq = 0
	}
	switch p := vt.Pct(t, "cpuLimKind"); {
	case p < 40:
		c.Req.CPULim = c.Req.CPUReq
	case p < 70:
		c.Req.CPULim = 0
	default:
		c.Req.CPULim, _ = genCPU(t, "cpuLim", c.Sched.ShareBase, len(c.Node.Cores))
	}
	c.Req.MemReq = genMem(t, "memReq", c.Node)
	switch p := vt.Pct(t, "memLimKind"); {
	case p < 50:
		c.Req.MemLim = c.Req.MemReq
	case p < 75:
		c.Req.MemLim = 0
	default:
		c.Req.MemLim = genMem(t, "memLim", c.Node)
	}
	if vt.Chance(t, "countCap", 45) {
		c.Count = 0
	} else {
		c.Count = rapid.IntRange(1, 6).Draw(t, "count")
	}
	return c
}

// checkFit is the oracle shared by the plugin and the pure variant: the workloads fit
// simultaneously into the node's free resources. (where = "" for no NUMA node.)
type placed struct {
	cpuMap map[string]int
	numa   string
	mem    int64
}

func checkFit(x *vt.Ctx, s Sched, n Node, ws []placed) *vt.Finding {
	perCore := map[string]int{}
	perNUMA := map[string]int64{}
	total := int64(0)
	anyNUMA, anyCross, anyMix, fragOnUsed := false, false, false, false
	for i, w := range ws {
		full, frag := 0, 0
		for c, p := range w.cpuMap {
			if p < 0 {
				return vt.Failf("negative-pieces", "instance %d gets %d pieces on core %s", i, p, c)
			}
			perCore[c] += p
			if p == s.ShareBase {
				full++
			} else if p > 0 {
				frag++
				if idx, ok := coreIndex(n, c); ok && n.Cores[idx].Used > 0 {
					fragOnUsed = true
				}
			}
			if w.numa != "" {
				k, ok := n.numaOf(c)
				if !ok || id(k) != w.numa {
					return vt.Failf("numa:foreign-core", "instance %d is placed on NUMA node %s but uses core %s of NUMA node %d (%v)", i, w.numa, c, k, w.cpuMap)
				}
			}
		}
		if full > 0 && frag > 0 {
			anyMix = true
		}
		if w.numa != "" {
			anyNUMA = true
			perNUMA[w.numa] = satAdd64(perNUMA[w.numa], w.mem)
		} else if n.NUMA && len(w.cpuMap) > 0 {
			anyCross = true
		}
		total = satAdd64(total, w.mem)
	}
	for c, p := range perCore {
		idx, ok := coreIndex(n, c)
		if !ok {
			return vt.Failf("unknown-core", "core %s does not exist on the node", c)
		}
		if p > n.free(idx) {
			return vt.Failf("core-overcommit", "core %s: %d pieces allocated, %d free (capacity %d, used %d)", c, p, n.free(idx), n.Cores[idx].Cap, n.Cores[idx].Used)
		}
	}
	for k, m := range perNUMA {
		idx := -1
		fmt.Sscanf(k, "%d", &idx)
		if idx < 0 || idx >= len(n.NUMAMemCap) {
			return vt.Failf("numa:unknown-node", "NUMA node %q does not exist", k)
		}
		if m > n.freeNUMAMem(idx) {
			return vt.Failf("numa:memory-overcommit", "NUMA node %s: %d memory allocated, %d free", k, m, n.freeNUMAMem(idx))
		}
	}
	if total > 0 && total > n.freeMem() {
		key := "memory-overcommit"
		if anyNUMA {
			key = "memory-overcommit:numa-plans"
		}
		return vt.Failf(key, "%d instances request %d memory in total, node has %d free (capacity %d, used %d)", len(ws), total, n.freeMem(), n.MemCap, n.MemUsed)
	}
	if anyNUMA {
		x.Label("alloc:numa-plan")
	}
	if anyCross {
		x.Label("alloc:cross-numa-plan")
	}
	if anyMix {
		x.Label("alloc:full+fragment")
	}
	if fragOnUsed {
		x.Label("alloc:fragment-on-partially-used-core")
	}
	return nil
}

func coreIndex(n Node, c string) (int, bool) {
	var i int
	if _, err := fmt.Sscanf(c, "%d", &i); err != nil || i < 0 || i >= len(n.Cores) || id(i) != c {
		return 0, false
	}
	return i, true
}

func runC04(x *vt.Ctx, c C04Case) *vt.Finding {
	classifyNode(x, c.Sched, c.Node)
	p := fx.plugin(c.Sched)
	name, err := fx.newNode(p, c.Sched, c.Node)
	if err != nil {
		panic(fmt.Sprintf("harness: generated node rejected by the plugin: %v", err))
	}
	count := c.Count
	if count == 0 {
		x.Label("count=capacity")
		r, err := p.GetNodesDeployCapacity(ctx, []string{name}, c.Req.raw())
		if err != nil {
			x.Label("invalid-request")
			return nil
		}
		if nc := r.NodeDeployCapacityMap[name]; nc != nil {
			count = nc.Capacity
		}
		if count == 0 {
			x.Label("capacity=0")
			return nil
		}
		if count == math.MaxInt {
			count = 50
		}
		count = min(count, 400)
	}
	if c.Req.Bind {
		x.Label("req:bound")
	} else {
		x.Label("req:unbound")
	}
	resp, err := p.CalculateDeploy(ctx, name, count, c.Req.raw())
	if err != nil {
		x.Label("refused")
		return nil
	}
	x.Label("allocated")
	x.NonTrivial()
	if len(resp.WorkloadsResource) != count || len(resp.EnginesParams) != count {
		return vt.Failf("wrong-instance-count", "asked for %d instances, got %d workload resources and %d engine params", count, len(resp.WorkloadsResource), len(resp.EnginesParams))
	}
	var ws []placed
	for i, raw := range resp.WorkloadsResource {
		w, err := parseWL(raw)
		if err != nil {
			return vt.Failf("unparsable-workload-resource", "instance %d: %v", i, err)
		}
		if c.Req.Bind && len(w.CPUMap) == 0 {
			return vt.Failf("bound-without-cores", "instance %d of a bound request has no cores", i)
		}
		if w.NUMANode != "" && w.NUMAMemory[w.NUMANode] != w.MemoryRequest {
			return vt.Failf("numa:memory-record", "instance %d on NUMA node %s requests %d memory but records numa_memory %v", i, w.NUMANode, w.MemoryRequest, w.NUMAMemory)
		}
		ws = append(ws, placed{cpuMap: w.CPUMap, numa: w.NUMANode, mem: w.MemoryRequest})
	}
	if f := checkFit(x, c.Sched, c.Node, ws); f != nil {
		return f
	}
	// committing the allocation must leave a state the plugin accepts, and that is valid by
	// the harness's own predicate
	wraw := make([]plugintypes.WorkloadResource, len(resp.WorkloadsResource))
	copy(wraw, resp.WorkloadsResource)
	if _, err := p.SetNodeResourceUsage(ctx, name, nil, nil, wraw, true, true); err != nil {
		return vt.Failf("commit-rejected", "SetNodeResourceUsage of the returned allocation failed: %v", err)
	}
	rec, err := fx.record(name)
	if err != nil {
		panic("harness: " + err.Error())
	}
	if err := validRecord(rec); err != nil {
		return vt.Failf("commit-invalid-state", "node record after commit is invalid: %v", err)
	}
	return nil
}

var propC04 = vt.Prop[C04Case]{ID: "C04", Test: "TestC04", Gen: genC04, Run: runC04}

func TestC04(t *testing.T) { setup(t); propC04.Check(t) }

// ------------------------------------------------------------------------------------ pure

// runC04Pure: all plans schedule.GetCPUPlans returns for a bound request fit simultaneously
// (the plugin reports len(plans) as capacity and hands out any prefix of them).
func runC04Pure(x *vt.Ctx, c C04Case) *vt.Finding {
	classifyNode(x, c.Sched, c.Node)
	info, err := c.Node.info(c.Sched.ShareBase)
	if err != nil {
		panic(fmt.Sprintf("harness: generated node rejected by Validate: %v", err))
	}
	req := c.Req.typed()
	req.CPUBind = true
	if err := req.Validate(); err != nil {
		x.Label("invalid-request")
		return nil
	}
	plans := schedule.GetCPUPlans(info, nil, c.Sched.ShareBase, c.Sched.MaxShare, req)
	if len(plans) == 0 {
		x.Label("capacity=0")
		return nil
	}
	x.Label("allocated")
	x.NonTrivial()
	if len(plans) >= 2 {
		x.Label("plans>=2")
	}
	var ws []placed
	for _, pl := range plans {
		ws = append(ws, placed{cpuMap: pl.CPUMap, numa: pl.NUMANode, mem: req.MemRequest})
	}
	return checkFit(x, c.Sched, c.Node, ws)
}

var propC04Pure = vt.Prop[C04Case]{ID: "C04", Test: "TestC04Pure", Gen: genC04, Run: runC04Pure}

func TestC04Pure(t *testing.T) { propC04Pure.Check(t) }

// satAdd64 adds non-negative memory amounts without wrapping (requests close to 2^63 are generated).
func satAdd64(a, b int64) int64 {
	if b > 0 && a > math.MaxInt64-b {
		return math.MaxInt64
	}
	return a + b
}
