package cpumem

import (
	"fmt"
	"strings"
	"testing"

	"pgregory.net/rapid"

	plugintypes "github.com/projecteru2/core/resource/plugins/types"

	"verif/internal/vt"
)

// C33 — re-allocating a bound workload without CPU change keeps its cores (and NUMA node).

// W is one bound workload to place before the realloc.
type W struct {
	K   int   `json:"k"`   // pieces
	Mem int64 `json:"mem"` // memory request (= limit)
}

// C33Case: a node with whole-core shares, bound workloads placed one after the other through
// CalculateDeploy + commit, then a realloc of workload Target with keep-cpu-bind, zero CPU delta
// and a memory delta derived from MemPct, repeated Reps times.
type C33Case struct {
	Sched     Sched `json:"sched"`
	Node      Node  `json:"node"`
	Workloads []W   `json:"workloads"`
	Target    int   `json:"target"` // index into the successfully placed workloads (mod their number)
	// Release: workloads (indices mod the number placed, the target is skipped) that are removed
	// again before the realloc, so that cores the planner would prefer on an empty history are free
	Release []int `json:"release,omitempty"`
	// MemPct: > 0 grow by that percentage of the memory that is free for the workload (node and own
	// NUMA node); < 0 shrink by that percentage of its own memory; 0 no change.
	MemPct int `json:"mem_pct"`
	Reps   int `json:"reps"`
}

func genC33(t *rapid.T) C33Case {
	var c C33Case
	c.Sched = genSched(t, false)
	sb := c.Sched.ShareBase
	c.Node = genNode(t, sb, nodeOpts{maxCores: 8, wholeCores: true})
	if vt.Chance(t, "idleNode", 50) {
		for i := range c.Node.Cores {
			c.Node.Cores[i].Used = 0
		}
	}
	// room for memory
	c.Node.MemUsed = min(c.Node.MemUsed, c.Node.MemCap/3)
	for k := range c.Node.NUMAMemUsed {
		c.Node.NUMAMemUsed[k] = min(c.Node.NUMAMemUsed[k], c.Node.NUMAMemCap[k]/3, c.Node.MemUsed)
	}
	nw := rapid.IntRange(1, 5).Draw(t, "nWorkloads")
	for i := 0; i < nw; i++ {
		var w W
		switch p := vt.Pct(t, "wKind"); {
		case p < 35:
			w.K = sb * rapid.IntRange(1, 3).Draw(t, "wFull")
		case p < 60 && sb > 1:
			w.K = uni(t, "wFrag", 1, sb-1)
		default:
			w.K = uni(t, "wK", 1, 3*sb)
		}
		if vt.Chance(t, "wMem0", 25) {
			w.Mem = 0
		} else {
			w.Mem = int64(rapid.IntRange(1, int(max(c.Node.MemCap/4, 1))).Draw(t, "wMem"))
		}
		c.Workloads = append(c.Workloads, w)
	}
	c.Target = rapid.IntRange(0, nw-1).Draw(t, "target")
	// steer away from the region of a known finding: while workloads holding a fragment core are
	// listed as known to move, the target is mostly a whole-core workload (the others keep their
	// fragments, so shared and partially used cores still surround it)
	if vt.Known("C33", "moved:fractional") && vt.Chance(t, "targetWhole", 80) {
		c.Workloads[c.Target].K = sb * rapid.IntRange(1, 3).Draw(t, "targetFull")
	}
	if nw > 1 && vt.Chance(t, "release", 60) {
		for i := 0; i < nw; i++ {
			if vt.Chance(t, "releaseThis", 45) {
				c.Release = append(c.Release, i)
			}
		}
	}
	switch p := vt.Pct(t, "memPctKind"); {
	case p < 30:
		c.MemPct = 0
	case p < 65:
		c.MemPct = uni(t, "memUp", 1, 100)
	default:
		c.MemPct = -uni(t, "memDown", 1, 100)
	}
	c.Reps = 8
	return c
}

func runC33(x *vt.Ctx, c C33Case) *vt.Finding {
	classifyNode(x, c.Sched, c.Node)
	sb := c.Sched.ShareBase
	p := fx.plugin(c.Sched)
	name, err := fx.newNode(p, c.Sched, c.Node)
	if err != nil {
		panic(fmt.Sprintf("harness: generated node rejected by the plugin: %v", err))
	}
	// harness-side bookkeeping of free memory
	freeMem := c.Node.freeMem()
	freeNUMA := map[string]int64{}
	for k := range c.Node.NUMAMemCap {
		freeNUMA[id(k)] = c.Node.freeNUMAMem(k)
	}
	type placedW struct {
		raw plugintypes.WorkloadResource
		wl  WL
	}
	var placedWs []placedW
	usedNow := map[string]int{} // harness-side bookkeeping of used pieces per core
	for i, core := range c.Node.Cores {
		usedNow[id(i)] = core.Used
	}
	for _, w := range c.Workloads {
		req := plugintypes.WorkloadResourceRequest{"cpu-bind": true, "cpu-request": cpuOf(w.K, sb), "cpu-limit": cpuOf(w.K, sb),
			"memory-request": w.Mem, "memory-limit": w.Mem}
		resp, err := p.CalculateDeploy(ctx, name, 1, req)
		if err != nil || len(resp.WorkloadsResource) != 1 {
			continue
		}
		if _, err := p.SetNodeResourceUsage(ctx, name, nil, nil, []plugintypes.WorkloadResource{resp.WorkloadsResource[0]}, true, true); err != nil {
			continue // C04's business
		}
		wl, err := parseWL(resp.WorkloadsResource[0])
		if err != nil {
			panic("harness: " + err.Error())
		}
		freeMem -= wl.MemoryRequest
		if wl.NUMANode != "" {
			freeNUMA[wl.NUMANode] -= wl.MemoryRequest
		}
		for cid, pc := range wl.CPUMap {
			usedNow[cid] += pc
		}
		placedWs = append(placedWs, placedW{resp.WorkloadsResource[0], wl})
	}
	if len(placedWs) == 0 {
		x.Label("nothing-placed")
		return nil
	}
	ti := c.Target % len(placedWs)
	tgt := placedWs[ti]
	o := tgt.wl
	released := map[int]bool{}
	for _, r := range c.Release {
		ri := r % len(placedWs)
		if ri == ti || released[ri] {
			continue
		}
		released[ri] = true
		// what removing a workload does: its resources are subtracted from the node's usage
		if _, err := p.SetNodeResourceUsage(ctx, name, nil, nil, []plugintypes.WorkloadResource{placedWs[ri].raw}, true, false); err != nil {
			panic("harness: release rejected: " + err.Error())
		}
		rw := placedWs[ri].wl
		freeMem += rw.MemoryRequest
		if rw.NUMANode != "" {
			freeNUMA[rw.NUMANode] += rw.MemoryRequest
		}
		for cid, pc := range rw.CPUMap {
			usedNow[cid] -= pc
		}
	}
	if len(released) > 0 {
		x.Label("released>0")
	}
	// memory delta so that the new memory still fits the node and the workload's own NUMA node
	var delta int64
	switch {
	case c.MemPct > 0:
		room := max(freeMem, 0)
		if o.NUMANode != "" {
			room = min(room, max(freeNUMA[o.NUMANode], 0))
		}
		delta = room * int64(c.MemPct) / 100
	case c.MemPct < 0:
		delta = -(o.MemoryRequest * int64(-c.MemPct) / 100)
	}
	switch {
	case delta > 0:
		x.Label("mem:grow")
	case delta < 0:
		x.Label("mem:shrink")
	default:
		x.Label("mem:same")
	}
	// class of the origin workload: names the mechanism a move would come from
	class := "whole-cores"
	sharedCore := false
	for cid := range o.CPUMap {
		if idx, ok := coreIndex(c.Node, cid); ok {
			// pieces free on the core once the workload's own pieces are given back
			if freeAfter := c.Node.Cores[idx].Cap - usedNow[cid] + o.CPUMap[cid]; freeAfter%sb != 0 {
				sharedCore = true
			}
		}
	}
	switch {
	case o.pieces()%sb != 0:
		class = "fractional"
	case sharedCore:
		class = "whole-cores-shared-with-fragments"
	case c.Node.NUMA && o.NUMANode == "":
		class = "whole-cores-cross-numa"
	}
	x.Label("origin:%s", class)
	if o.NUMANode != "" {
		x.Label("origin:on-numa-node")
	}
	moved := "moved:" + class
	// (only the search steers around known findings; the replay tier re-runs their reproductions)
	if vt.Mode() == "search" && vt.Exclude("C33", moved) {
		x.Label("excluded-known-region")
		return nil
	}
	if c.Node.NUMA || class != "whole-cores" || len(released) > 0 {
		x.NonTrivial()
	}
	x.Label("placed=%d", len(placedWs))
	rreq := plugintypes.WorkloadResourceRequest{"keep-cpu-bind": true, "cpu-request": 0.0, "cpu-limit": 0.0,
		"memory-request": delta, "memory-limit": delta}
	wantCores := strings.Join(o.cores(), ",")
	for rep := 0; rep < c.Reps; rep++ {
		rr, err := p.CalculateRealloc(ctx, name, tgt.raw, rreq)
		if err != nil {
			// the statement does not promise that the realloc is granted; a refusal moves nothing
			x.Label("realloc:refused")
			x.Logf("rep %d refused: %v", rep, err)
			return nil
		}
		w, err := parseWL(rr.WorkloadResource)
		if err != nil {
			return vt.Failf("unparsable-workload-resource", "realloc: %v", err)
		}
		if w.NUMANode != o.NUMANode {
			return vt.Failf(moved, "rep %d: workload on NUMA node %q with cores %v came back on NUMA node %q with cores %v", rep, o.NUMANode, o.CPUMap, w.NUMANode, w.CPUMap)
		}
		if got := strings.Join(w.cores(), ","); got != wantCores {
			return vt.Failf(moved, "rep %d: workload on cores %v (NUMA node %q) came back on %v", rep, o.CPUMap, o.NUMANode, w.CPUMap)
		}
		if w.pieces() != o.pieces() {
			return vt.Failf("pieces-changed:"+class, "rep %d: workload held %d pieces %v, now %d %v", rep, o.pieces(), o.CPUMap, w.pieces(), w.CPUMap)
		}
		same := true
		for cid, pc := range o.CPUMap {
			if w.CPUMap[cid] != pc {
				same = false
			}
		}
		if !same {
			x.Label("same-cores-pieces-swapped")
		}
	}
	x.Label("realloc:kept")
	return nil
}

var propC33 = vt.Prop[C33Case]{ID: "C33", Test: "TestC33", Gen: genC33, Run: runC33}

func TestC33(t *testing.T) { setup(t); propC33.Check(t) }
