// Package discovery decides C27 (service discovery subscribers converge to the registered set;
// unsubscribing always completes and closes the channel) for the real helium.Helium on the real
// etcd store (embedded etcd, the one the repo's own tests use).
//
// A case is a SCRIPT: addresses registered before / while helium runs (Store.RegisterService and
// the deregister function it returns), 1..4 subscribers that subscribe, read fast / slowly, stop
// reading, unsubscribe (raw Unsubscribe, or the way Calcium.WatchServiceStatus does it: cancel the
// context and call Unsubscribe from a goroutine), with generated pauses between the steps.
package discovery

import (
	"context"
	"fmt"
	"os"
	"sort"
	"strings"
	"sync"
	"testing"
	"time"

	"github.com/google/uuid"
	clientv3 "go.etcd.io/etcd/client/v3"
	"pgregory.net/rapid"

	"github.com/projecteru2/core/discovery/helium"
	"github.com/projecteru2/core/store/etcdv3"
	"github.com/projecteru2/core/store/etcdv3/embedded"
	coretypes "github.com/projecteru2/core/types"

	"verif/internal/stats"
	"verif/internal/vt"
)

func TestMain(m *testing.M) { vt.Main(m) }

const (
	pushInterval = time.Second // below 1 s helium silently uses 15 s
	// real-time bounds: generous, retried once before they count (DESIGN.md §2.7)
	convergeSlack   = 6 * time.Second  // on top of one push interval; normal latency is a few ms
	unsubWatchdog   = 10 * time.Second // Unsubscribe returns + channel closed; normal latency is µs..EveryMs
	registerTimeout = 20 * time.Second

	opReg   = "reg"
	opDereg = "dereg"
	// opRegTxn: two registration events reach the watcher in ONE watch response — a new address
	// and a re-announcement of an address that is registered already (what a slow watcher sees when
	// several core instances (re-)register within one batch), written in one etcd transaction
	opRegTxn = "regtxn"
	opSub    = "sub"
	opUnsub  = "unsub"
	opStall  = "stall" // the subscriber stops reading (it stays subscribed, its context stays live)

	modeFast = "fast"
	modeSlow = "slow"

	pathRaw = "raw" // Subscribe ... Unsubscribe(id)
	pathCtx = "ctx" // Calcium.WatchServiceStatus style: go func(){ <-ctx.Done(); Unsubscribe(id) }()

	// region of the known design-level finding (head-of-line blocking of the single dispatch loop)
	keyStalledHeld = "stalled-subscriber-blocks-dispatch"
)

// DSub is one subscriber.
type DSub struct {
	Mode    string `json:"mode"`
	EveryMs int    `json:"every_ms,omitempty"` // slow: pause before each read
	Path    string `json:"path"`
}

// DStep is one step of the churn; WaitMs is slept before it.
type DStep struct {
	WaitMs int    `json:"wait_ms"`
	Op     string `json:"op"`
	Addr   int    `json:"addr,omitempty"`
	Sub    int    `json:"sub,omitempty"`
}

// DCase is the script.
type DCase struct {
	Addrs []string `json:"addrs"`
	Pre   []int    `json:"pre,omitempty"` // addresses registered before helium starts
	Subs  []DSub   `json:"subs"`
	Steps []DStep  `json:"steps"`
	// HoldStalled: subscribers that stopped reading are NOT unsubscribed before the convergence check
	HoldStalled bool `json:"hold_stalled,omitempty"`
}

// ---------------------------------------------------------------------------------------
// generator

var waits = []int{0, 0, 0, 2, 10, 30, 60, 120}

func genDCase(t *rapid.T) DCase {
	var c DCase
	nAddr := 1 + vt.Pct(t, "nAddr")%4
	for i := 0; i < nAddr; i++ {
		c.Addrs = append(c.Addrs, fmt.Sprintf("10.0.%d.%d:%d", i, 1+rapid.IntRange(0, 200).Draw(t, "ip"), 5001+i))
	}
	nSub := 1 + vt.Pct(t, "nSub")%4
	if nSub == 1 && vt.Chance(t, "moreSubs", 70) {
		nSub = 2 + vt.Pct(t, "nSub2")%3
	}
	for i := 0; i < nSub; i++ {
		s := DSub{Mode: modeFast, Path: pathRaw}
		if vt.Chance(t, "slow", 40) {
			s.Mode = modeSlow
			s.EveryMs = rapid.SampledFrom([]int{5, 20, 50, 120, 250}).Draw(t, "everyMs")
		}
		if vt.Chance(t, "ctxPath", 40) {
			s.Path = pathCtx
		}
		c.Subs = append(c.Subs, s)
	}
	registered := map[int]bool{}
	for i := 0; i < nAddr; i++ {
		if vt.Chance(t, "pre", 30) {
			c.Pre = append(c.Pre, i)
			registered[i] = true
		}
	}
	const (
		unborn = iota
		reading
		stalled
		gone
	)
	state := make([]int, nSub)
	nSteps := 4 + vt.Pct(t, "nSteps")%9
	live := func(want int) []int {
		var out []int
		for i, s := range state {
			if s == want {
				out = append(out, i)
			}
		}
		return out
	}
	for len(c.Steps) < nSteps {
		st := DStep{WaitMs: rapid.SampledFrom(waits).Draw(t, "waitMs")}
		k := vt.Pct(t, "op")
		var unreg, reg []int
		for i := 0; i < nAddr; i++ {
			if registered[i] {
				reg = append(reg, i)
			} else {
				unreg = append(unreg, i)
			}
		}
		if len(c.Steps) < 2 && len(live(unborn)) > 0 && k < 70 {
			k = 50 // most scripts bring subscribers up early, so that changes happen while they watch
		}
		switch {
		case k < 25 && len(unreg) > 0:
			st.Op, st.Addr = opReg, rapid.SampledFrom(unreg).Draw(t, "addr")
			if vt.Chance(t, "regTxn", 25) {
				st.Op = opRegTxn
			}
			registered[st.Addr] = true
		case k < 45 && len(reg) > 0:
			st.Op, st.Addr = opDereg, rapid.SampledFrom(reg).Draw(t, "addr")
			delete(registered, st.Addr)
		case k >= 45 && k < 75 && len(live(unborn)) > 0:
			st.Op, st.Sub = opSub, live(unborn)[0]
			state[st.Sub] = reading
		case k >= 75 && k < 84 && len(live(reading)) > 0:
			st.Op, st.Sub = opStall, rapid.SampledFrom(live(reading)).Draw(t, "sub")
			state[st.Sub] = stalled
		case k >= 84 && k < 94 && len(live(reading))+len(live(stalled)) > 0:
			cand := append(live(reading), live(stalled)...)
			sort.Ints(cand)
			st.Op, st.Sub = opUnsub, rapid.SampledFrom(cand).Draw(t, "sub")
			state[st.Sub] = gone
		default:
			if len(unreg) > 0 && (len(reg) == 0 || k%2 == 0) {
				st.Op, st.Addr = opReg, rapid.SampledFrom(unreg).Draw(t, "addr")
				registered[st.Addr] = true
			} else {
				st.Op, st.Addr = opDereg, rapid.SampledFrom(reg).Draw(t, "addr")
				delete(registered, st.Addr)
			}
		}
		c.Steps = append(c.Steps, st)
	}
	// sometimes the LAST change is a batched registration (new address + re-announcement in one watch
	// response): nothing later re-publishes the set, so the subscribers must have got it from this one
	{
		var unreg []int
		for i := 0; i < nAddr; i++ {
			if !registered[i] {
				unreg = append(unreg, i)
			}
		}
		if len(unreg) > 0 && len(unreg) < nAddr && vt.Chance(t, "finalRegTxn", 30) {
			a := rapid.SampledFrom(unreg).Draw(t, "addr")
			c.Steps = append(c.Steps, DStep{WaitMs: rapid.SampledFrom(waits).Draw(t, "waitMs"), Op: opRegTxn, Addr: a})
			registered[a] = true
		}
	}
	// subscribers that never came up subscribe now (late joiners: they must be served by the periodic push)
	for _, i := range live(unborn) {
		if vt.Chance(t, "lateJoin", 80) {
			c.Steps = append(c.Steps, DStep{WaitMs: rapid.SampledFrom(waits).Draw(t, "waitMs"), Op: opSub, Sub: i})
			state[i] = reading
		}
	}
	// the known finding: a subscriber that stopped reading and stays subscribed starves every other subscriber
	if len(live(stalled)) > 0 && vt.Chance(t, "holdStalled", 15) && !vt.Exclude("C27", keyStalledHeld) {
		c.HoldStalled = true
	}
	if !c.HoldStalled {
		for _, i := range live(stalled) {
			c.Steps = append(c.Steps, DStep{WaitMs: rapid.SampledFrom(waits).Draw(t, "waitMs"), Op: opUnsub, Sub: i})
			state[i] = gone
		}
	}
	return c
}

// ---------------------------------------------------------------------------------------
// fixture

var (
	theT      *testing.T
	storeOnce sync.Once
	theStore  *etcdv3.Mercury
)

func getStore() *etcdv3.Mercury {
	storeOnce.Do(func() {
		wd, _ := os.Getwd()
		cfg := coretypes.Config{MaxConcurrency: 100000, LockTimeout: 10 * time.Second, GlobalTimeout: 30 * time.Second}
		cfg.Etcd = coretypes.EtcdConfig{Machines: []string{"127.0.0.1:2379"}, Prefix: "/verif-c27", LockPrefix: "/verif-c27-lock"}
		m, err := etcdv3.New(cfg, theT)
		if err != nil {
			panic("harness: embedded etcd store: " + err.Error())
		}
		_ = os.Chdir(wd) // the embedded cluster helper changes the working directory
		theStore = m
		stats.Note("store: etcdv3.Mercury on the embedded etcd of the repo's tests; Redis back end not covered (miniredis emits no keyspace notifications)")
	})
	return theStore
}

type rec struct {
	at       time.Time
	addrs    []string
	interval time.Duration
}

type subscriber struct {
	spec     DSub
	id       uuid.UUID
	ch       <-chan coretypes.ServiceStatus
	cancel   context.CancelFunc
	subAt    time.Time
	stallC   chan struct{}
	readerWG sync.WaitGroup

	mu          sync.Mutex
	msgs        []rec
	closedSeen  bool
	stalled     bool
	unsubIssued bool
	unsubDone   chan struct{} // closed when Unsubscribe returned
}

func (s *subscriber) reader() {
	defer s.readerWG.Done()
	for {
		if s.spec.Mode == modeSlow {
			select {
			case <-time.After(time.Duration(s.spec.EveryMs) * time.Millisecond):
			case <-s.stallC:
				return
			}
		}
		select {
		case m, ok := <-s.ch:
			s.mu.Lock()
			if !ok {
				s.closedSeen = true
				s.mu.Unlock()
				return
			}
			s.msgs = append(s.msgs, rec{at: time.Now(), addrs: append([]string(nil), m.Addresses...), interval: m.Interval})
			s.mu.Unlock()
		case <-s.stallC:
			return
		}
	}
}

func setOf(a []string) string {
	b := append([]string(nil), a...)
	sort.Strings(b)
	return "{" + strings.Join(b, ",") + "}"
}

type dFinding struct {
	f      *vt.Finding
	timing bool
}

func waitEmptyServices(ctx context.Context, st *etcdv3.Mercury) {
	deadline := time.Now().Add(15 * time.Second)
	for {
		resp, err := st.Get(ctx, "/services/", clientv3.WithPrefix())
		if err == nil && len(resp.Kvs) == 0 {
			return
		}
		if time.Now().After(deadline) {
			// leftovers of an earlier (failed) case: remove them, they would poison this one
			if err == nil {
				for _, kv := range resp.Kvs {
					_, _ = st.Delete(ctx, string(kv.Key))
				}
				deadline = time.Now().Add(15 * time.Second)
				continue
			}
			panic(fmt.Sprintf("harness: cannot read /services/: %v", err))
		}
		time.Sleep(20 * time.Millisecond)
	}
}

func attemptDCase(x *vt.Ctx, c DCase, label bool) dFinding {
	st := getStore()
	ctx, cancelAll := context.WithCancel(context.Background())
	defer cancelAll()
	waitEmptyServices(ctx, st)

	dereg := map[int]func(){}
	registered := map[int]bool{}
	var deregWG sync.WaitGroup
	defer func() { // leave etcd clean for the next case, whatever happened
		for _, f := range dereg {
			deregWG.Add(1)
			go func(f func()) { defer deregWG.Done(); f() }(f)
		}
		done := make(chan struct{})
		go func() { deregWG.Wait(); close(done) }()
		select {
		case <-done:
		case <-time.After(registerTimeout):
		}
	}()
	// RegisterService ties the heartbeat to the context it is given: use the case context for that
	register := func(i int) {
		_, f, err := st.RegisterService(ctx, c.Addrs[i], 30*time.Second)
		if err != nil {
			panic(fmt.Sprintf("harness: RegisterService(%s): %v", c.Addrs[i], err))
		}
		dereg[i], registered[i] = f, true
	}
	for _, i := range c.Pre {
		register(i)
	}

	h := helium.New(ctx, coretypes.GRPCConfig{ServiceDiscoveryPushInterval: pushInterval}, st)

	subs := make([]*subscriber, len(c.Subs))
	changesWhileSubscribed := 0
	maxConcurrentSubs := 0
	issueUnsub := func(s *subscriber) {
		s.mu.Lock()
		if s.unsubIssued {
			s.mu.Unlock()
			return
		}
		s.unsubIssued = true
		s.mu.Unlock()
		if s.spec.Path == pathCtx {
			s.cancel() // the goroutine started at subscribe time calls Unsubscribe
			return
		}
		go func() {
			h.Unsubscribe(s.id)
			close(s.unsubDone)
		}()
	}
	liveCount := func() int {
		n := 0
		for _, s := range subs {
			if s != nil && !s.unsubIssued {
				n++
			}
		}
		return n
	}
	for _, stp := range c.Steps {
		if stp.WaitMs > 0 {
			time.Sleep(time.Duration(stp.WaitMs) * time.Millisecond)
		}
		switch stp.Op {
		case opReg:
			if registered[stp.Addr] {
				continue
			}
			register(stp.Addr)
			if liveCount() >= 2 {
				changesWhileSubscribed++
			}
		case opRegTxn:
			if registered[stp.Addr] {
				continue
			}
			raw := embedded.NewCluster(theT, "/verif-c27").RandClient()
			key := "/services/" + c.Addrs[stp.Addr]
			ops := []clientv3.Op{clientv3.OpPut(key, "")}
			for j := range c.Addrs { // re-announce one address that is registered already, as the LAST event
				if registered[j] && j != stp.Addr {
					ops = append(ops, clientv3.OpPut("/services/"+c.Addrs[j], "", clientv3.WithIgnoreLease()))
					break
				}
			}
			if _, err := raw.Txn(ctx).Then(ops...).Commit(); err != nil {
				panic(fmt.Sprintf("harness: registration txn: %v", err))
			}
			registered[stp.Addr] = true
			dereg[stp.Addr] = func() { _, _ = raw.Delete(context.Background(), key) }
			if liveCount() >= 2 {
				changesWhileSubscribed++
			}
		case opDereg:
			if !registered[stp.Addr] {
				continue
			}
			dereg[stp.Addr]()
			delete(dereg, stp.Addr)
			delete(registered, stp.Addr)
			if liveCount() >= 2 {
				changesWhileSubscribed++
			}
		case opSub:
			if stp.Sub >= len(subs) || subs[stp.Sub] != nil {
				continue
			}
			s := &subscriber{spec: c.Subs[stp.Sub], stallC: make(chan struct{}), unsubDone: make(chan struct{})}
			sctx, cancel := context.WithCancel(ctx)
			s.cancel = cancel
			s.id, s.ch = h.Subscribe(sctx)
			s.subAt = time.Now()
			if s.spec.Path == pathCtx {
				go func() { // cluster/calcium/service.go: WatchServiceStatus
					<-sctx.Done()
					h.Unsubscribe(s.id)
					close(s.unsubDone)
				}()
			}
			s.readerWG.Add(1)
			go s.reader()
			subs[stp.Sub] = s
			if n := liveCount(); n > maxConcurrentSubs {
				maxConcurrentSubs = n
			}
		case opStall:
			if stp.Sub >= len(subs) || subs[stp.Sub] == nil || subs[stp.Sub].stalled || subs[stp.Sub].unsubIssued {
				continue
			}
			s := subs[stp.Sub]
			s.stalled = true
			close(s.stallC)
			s.readerWG.Wait()
		case opUnsub:
			if stp.Sub >= len(subs) || subs[stp.Sub] == nil {
				continue
			}
			issueUnsub(subs[stp.Sub])
		}
	}
	churnEnd := time.Now()

	want := []string{}
	for i := range c.Addrs {
		if registered[i] {
			want = append(want, c.Addrs[i])
		}
	}
	wantSet := setOf(want)

	heldStalled := false
	for _, s := range subs {
		if s != nil && s.stalled && !s.unsubIssued {
			heldStalled = true
		}
	}

	// ---- convergence: every live (subscribed, reading) subscriber gets a push after the churn ended,
	// and the latest status it holds is exactly the registered set with Interval = 2 x push interval.
	type view struct {
		pushes int
		latest *rec
		all    int
	}
	look := func(s *subscriber) view {
		s.mu.Lock()
		defer s.mu.Unlock()
		v := view{all: len(s.msgs)}
		for i := range s.msgs {
			if s.msgs[i].at.After(churnEnd) {
				v.pushes++
			}
		}
		if len(s.msgs) > 0 {
			r := s.msgs[len(s.msgs)-1]
			v.latest = &r
		}
		return v
	}
	converged := func(v view) bool {
		return v.pushes >= 1 && v.latest != nil && setOf(v.latest.addrs) == wantSet && v.latest.interval == 2*pushInterval
	}
	var liveSubs []int
	for i, s := range subs {
		if s != nil && !s.stalled && !s.unsubIssued {
			liveSubs = append(liveSubs, i)
		}
	}
	deadline := churnEnd.Add(pushInterval + convergeSlack)
	var res dFinding
	for {
		ok := true
		for _, i := range liveSubs {
			if !converged(look(subs[i])) {
				ok = false
			}
		}
		if ok {
			break
		}
		if time.Now().After(deadline) {
			for _, i := range liveSubs {
				v := look(subs[i])
				if converged(v) {
					continue
				}
				switch {
				case heldStalled:
					got := "nothing"
					if v.latest != nil {
						got = setOf(v.latest.addrs)
					}
					res = dFinding{timing: true, f: vt.Failf(keyStalledHeld, "subscriber #%d (%+v) holds %s and received %d pushes within %v after the churn ended (%d messages in all) while another subscriber that stopped reading is still subscribed; registered set %s",
						i, c.Subs[i], got, v.pushes, pushInterval+convergeSlack, v.all, wantSet)}
				case v.pushes == 0:
					res = dFinding{timing: true, f: vt.Failf("convergence:no-push", "subscriber #%d (%+v) received no push within %v after the churn ended (%d messages before); registered set %s",
						i, c.Subs[i], pushInterval+convergeSlack, v.all, wantSet)}
				case setOf(v.latest.addrs) != wantSet:
					res = dFinding{timing: true, f: vt.Failf("convergence:wrong-set:"+diffWord(v.latest.addrs, want), "subscriber #%d (%+v): latest status %s (received %v after the churn ended, %d pushes since), registered set %s",
						i, c.Subs[i], setOf(v.latest.addrs), v.latest.at.Sub(churnEnd).Round(time.Millisecond), v.pushes, wantSet)}
				default:
					res = dFinding{timing: true, f: vt.Failf("convergence:interval", "subscriber #%d: latest status carries Interval %v, documented 2 x push interval = %v", i, v.latest.interval, 2*pushInterval)}
				}
				break
			}
			break
		}
		time.Sleep(10 * time.Millisecond)
	}
	convergedAfter := time.Since(churnEnd)

	// ---- teardown: unsubscribe everybody (stalled ones first so that nobody waits behind them),
	// every Unsubscribe must return and every channel must be closed.
	for _, s := range subs {
		if s != nil && s.stalled {
			issueUnsub(s)
		}
	}
	for _, s := range subs {
		if s != nil {
			issueUnsub(s)
		}
	}
	wd := time.NewTimer(unsubWatchdog)
	defer wd.Stop()
	for i, s := range subs {
		if s == nil || res.f != nil {
			continue
		}
		what := fmt.Sprintf("%s:%s", s.spec.Path, map[bool]string{true: "not-reading", false: "reading"}[s.stalled])
		select {
		case <-s.unsubDone:
		case <-wd.C:
			res = dFinding{timing: true, f: vt.Failf("unsubscribe:hang:"+what, "Unsubscribe of subscriber #%d (%+v, stopped reading: %v) did not return within %v after every subscriber had been asked to unsubscribe",
				i, c.Subs[i], s.stalled, unsubWatchdog)}
			continue
		}
		if s.stalled {
			// nobody reads this channel: after Unsubscribe returned it must turn out closed. Statuses that
			// were already handed over (a buffered channel may still hold some) are read off first: the
			// property asks for a closed channel, not for an empty one.
			leftovers := 0
		drain:
			for {
				select {
				case _, ok := <-s.ch:
					if !ok {
						break drain
					}
					leftovers++
					if leftovers > 64 {
						res = dFinding{f: vt.Failf("unsubscribe:messages-keep-coming", "subscriber #%d: %d statuses received after Unsubscribe had returned and the channel is still open", i, leftovers)}
						break drain
					}
				case <-wd.C:
					res = dFinding{timing: true, f: vt.Failf("unsubscribe:channel-not-closed:"+what, "subscriber #%d (%+v): channel still open %v after Unsubscribe was requested", i, c.Subs[i], unsubWatchdog)}
					break drain
				}
			}
			continue
		}
		done := make(chan struct{})
		go func() { s.readerWG.Wait(); close(done) }()
		select {
		case <-done:
			if !s.closedSeen {
				res = dFinding{f: vt.Failf("unsubscribe:channel-not-closed:"+what, "subscriber #%d: reader ended without seeing the channel closed", i)}
			}
		case <-wd.C:
			res = dFinding{timing: true, f: vt.Failf("unsubscribe:channel-not-closed:"+what, "subscriber #%d (%+v): channel not closed %v after Unsubscribe was requested (Unsubscribe itself returned)", i, c.Subs[i], unsubWatchdog)}
		}
	}
	if res.f != nil {
		// unblock whatever still hangs: cancelling the case context cancels every subscriber context
		cancelAll()
		for _, s := range subs {
			if s != nil && !s.stalled {
				select {
				case <-s.stallC:
				default:
					close(s.stallC)
				}
			}
		}
		return res
	}

	if label {
		x.Label("subs=%d", len(liveSubs))
		if c.HoldStalled {
			x.Label("a-subscriber-that-stopped-reading-stays-subscribed")
		}
		x.Label("registered=%d", len(want))
		for _, i := range liveSubs {
			x.Label("live:%s/%s", c.Subs[i].Mode, c.Subs[i].Path)
		}
		for i, s := range subs {
			if s != nil && s.stalled {
				x.Label("stalled-then-unsubscribed:%s", c.Subs[i].Path)
			}
		}
		switch {
		case len(liveSubs) == 0:
			x.Label("converged=no-live-subscriber")
		case convergedAfter < 300*time.Millisecond:
			x.Label("converged<300ms")
		case convergedAfter < pushInterval+200*time.Millisecond:
			x.Label("converged<=interval")
		default:
			x.Label("converged>interval(slack used)")
		}
		if maxConcurrentSubs >= 2 && changesWhileSubscribed >= 1 {
			x.NonTrivial()
			x.Label("nontrivial")
		}
	}
	return dFinding{}
}

func diffWord(got, want []string) string {
	g, w := map[string]bool{}, map[string]bool{}
	for _, a := range got {
		g[a] = true
	}
	for _, a := range want {
		w[a] = true
	}
	missing, extra := false, false
	for a := range w {
		if !g[a] {
			missing = true
		}
	}
	for a := range g {
		if !w[a] {
			extra = true
		}
	}
	switch {
	case missing && extra:
		return "missing+extra"
	case missing:
		return "missing"
	case extra:
		return "extra"
	}
	return "duplicates"
}

func runDCase(x *vt.Ctx, c DCase) *vt.Finding {
	if len(c.Addrs) == 0 || len(c.Subs) == 0 {
		return nil
	}
	r := attemptDCase(x, c, true)
	if r.f != nil && r.timing {
		stats.Inconclusive()
		stats.Note("a first attempt hit a real-time bound and was retried: " + r.f.Key)
		x.Logf("first attempt hit a real-time bound (retried): %s: %s", r.f.Key, r.f.Msg)
		r = attemptDCase(x, c, false)
	}
	return r.f
}

var propC27 = vt.Prop[DCase]{ID: "C27", Test: "TestC27", Gen: genDCase, Run: runDCase}

func TestC27(t *testing.T) {
	theT = t
	propC27.Check(t)
}
