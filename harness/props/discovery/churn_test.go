package discovery

import (
	"context"
	"fmt"
	"sort"
	"strings"
	"sync"
	"testing"
	"time"

	"github.com/google/uuid"
	"github.com/stretchr/testify/mock"
	"pgregory.net/rapid"

	"github.com/projecteru2/core/discovery/helium"
	storemocks "github.com/projecteru2/core/store/mocks"
	coretypes "github.com/projecteru2/core/types"

	"verif/internal/vt"
)

// TestC27Churn — the subscriber table under churn. The real helium on a stub registration stream
// (the store is the repo's mock returning a channel the harness feeds): rounds in which some
// subscribers unsubscribe WHILE others subscribe, each followed by a change of the registered
// set. Oracle after every round: every live subscriber (old and new) receives exactly the new set
// within the watchdog of 5 push intervals (normal latency: microseconds — the change is dispatched at
// once; one push interval when the subscriber's one-slot channel still held the previous status),
// and the channels of the unsubscribed ones get closed. A round normally costs milliseconds, so a
// case runs dozens of them.

type ChurnRound struct {
	Leave int `json:"leave"` // how many of the live subscribers unsubscribe (capped by the number live)
	Join  int `json:"join"`  // how many new subscribers subscribe at the same time
}

type ChurnCase struct {
	Start  int          `json:"start"` // subscribers present before the first round
	Rounds []ChurnRound `json:"rounds"`
}

func genChurn(t *rapid.T) ChurnCase {
	c := ChurnCase{Start: rapid.IntRange(0, 4).Draw(t, "start")}
	n := rapid.IntRange(4, 24).Draw(t, "rounds")
	for i := 0; i < n; i++ {
		c.Rounds = append(c.Rounds, ChurnRound{Leave: rapid.IntRange(0, 3).Draw(t, "leave"), Join: rapid.IntRange(0, 3).Draw(t, "join")})
	}
	return c
}

type churnSub struct {
	id     uuid.UUID
	ch     <-chan coretypes.ServiceStatus
	cancel context.CancelFunc
	n      int // serial number, for messages
}

const churnWatchdog = 5 * time.Second

func runChurn(x *vt.Ctx, c ChurnCase) *vt.Finding {
	feed := make(chan []string)
	st := &storemocks.Store{}
	st.On("ServiceStatusStream", mock.Anything).Return(feed, nil)
	hctx, hcancel := context.WithCancel(context.Background())
	defer hcancel()
	h := helium.New(hctx, coretypes.GRPCConfig{ServiceDiscoveryPushInterval: time.Second}, st) // a subscriber whose one-slot channel still holds the previous status gets the new one with the next push
	serial := 0
	subscribe := func() *churnSub {
		ctx, cancel := context.WithCancel(context.Background())
		id, ch := h.Subscribe(ctx)
		serial++
		return &churnSub{id: id, ch: ch, cancel: cancel, n: serial}
	}
	var live []*churnSub
	for i := 0; i < c.Start; i++ {
		live = append(live, subscribe())
	}
	concurrentRounds := 0
	defer func() {
		for _, s := range live {
			s.cancel()
		}
	}()
	for ri, r := range c.Rounds {
		leave := min(r.Leave, len(live))
		leaving, staying := live[:leave], live[leave:]
		var wg sync.WaitGroup
		joined := make([]*churnSub, r.Join)
		unsubDone := make(chan struct{})
		go func() {
			var uw sync.WaitGroup
			for _, s := range leaving {
				uw.Add(1)
				go func(s *churnSub) { defer uw.Done(); h.Unsubscribe(s.id) }(s)
			}
			uw.Wait()
			close(unsubDone)
		}()
		var mu sync.Mutex
		for j := 0; j < r.Join; j++ {
			wg.Add(1)
			go func(j int) {
				defer wg.Done()
				mu.Lock()
				s := subscribe()
				mu.Unlock()
				joined[j] = s
			}(j)
		}
		wg.Wait()
		select {
		case <-unsubDone:
		case <-time.After(churnWatchdog):
			return vt.Failf("churn:unsubscribe-hang", "round %d: Unsubscribe of %d subscribers did not return within %v while %d others subscribed", ri, leave, churnWatchdog, r.Join)
		}
		if leave > 0 && r.Join > 0 {
			concurrentRounds++
		}
		live = append(append([]*churnSub{}, staying...), joined...)
		// every live subscriber reads what is pending (the dispatch that follows an unsubscribe pushed the
		// previous status): with an empty slot the change below reaches it at once, not a push interval later
		time.Sleep(300 * time.Microsecond)
		for _, s := range live {
			select {
			case <-s.ch:
			default:
			}
		}
		// the registered set changes: everybody live must get exactly this set
		want := []string{fmt.Sprintf("10.0.%d.1:5001", ri%250), fmt.Sprintf("10.1.%d.1:5001", ri%250)}
		select {
		case feed <- want:
		case <-time.After(churnWatchdog):
			return vt.Failf("churn:dispatcher-stuck", "round %d: helium did not take the next registration change within %v", ri, churnWatchdog)
		}
		wantS := strings.Join(want, ",")
		for _, s := range live {
			deadline := time.After(churnWatchdog)
			got := ""
		recv:
			for {
				select {
				case m, ok := <-s.ch:
					if !ok {
						return vt.Failf("churn:live-channel-closed", "round %d: channel of live subscriber #%d is closed", ri, s.n)
					}
					a := append([]string{}, m.Addresses...)
					sort.Strings(a)
					got = strings.Join(a, ",")
					if got == wantS {
						break recv
					}
				case <-deadline:
					cls := "subscribed-earlier"
					for _, j := range joined {
						if j == s {
							cls = "subscribed-this-round"
						}
					}
					return vt.Failf("churn:no-push:"+cls, "round %d (%d left, %d joined at the same time): live subscriber #%d did not receive the new set {%s} within %v (last received {%s})",
						ri, leave, r.Join, s.n, wantS, churnWatchdog, got)
				}
			}
		}
		for _, s := range leaving {
			deadline := time.After(churnWatchdog)
		drain:
			for {
				select {
				case _, ok := <-s.ch:
					if !ok {
						break drain
					}
				case <-deadline:
					return vt.Failf("churn:channel-not-closed", "round %d: channel of unsubscribed subscriber #%d still open after %v", ri, s.n, churnWatchdog)
				}
			}
			s.cancel()
		}
	}
	x.Label("rounds=%d", (len(c.Rounds)+9)/10*10)
	if concurrentRounds >= 3 {
		x.NonTrivial()
	}
	return nil
}

var propC27Churn = vt.Prop[ChurnCase]{ID: "C27", Test: "TestC27Churn", Gen: genChurn, Run: runChurn,
	Retry: func(f *vt.Finding) bool { return true }}

func TestC27Churn(t *testing.T) { propC27Churn.Check(t) }
