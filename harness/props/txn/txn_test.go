// Property C17: utils.Txn / utils.PCR roll back exactly when a step failed.
//
// A case is one call of the helper with scripted steps. The steps are harness closures that
// record the order of calls, what their context looked like, the failureByCond flag, and that
// cancel the caller's context at the scripted point. The oracle is a reference semantics written
// from the property statement over that call log (it never looks at Txn's code paths): it is
// computed from what the steps *actually returned*, so "honouring" steps (which return
// ctx.Err() when they find their context cancelled) are decided correctly too.
//
// The finite part of the domain (outcome vector x cancellation point x honouring x form) is
// enumerated completely on every search run; rapid adds ttl, tracing values, parent-context
// shapes and wrapped errors on top.
package txn

import (
	"context"
	"errors"
	"fmt"
	"testing"
	"time"

	"pgregory.net/rapid"

	coretypes "github.com/projecteru2/core/types"
	coreutils "github.com/projecteru2/core/utils"

	"verif/internal/stats"
	"verif/internal/vt"
)

func TestMain(m *testing.M) { vt.Main(m) }

// step outcomes
const (
	ok     = 0
	fail   = 1
	absent = 2
)

// cancellation points of the caller's context
const (
	cancelNever      = 0
	cancelBefore     = 1 // before the helper is called
	cancelDuringCond = 2 // in the middle of the condition step
	cancelBetween    = 3 // as the very last thing the condition step does (it saw a live ctx)
	cancelDuringThen = 4 // in the middle of the follow-up step
	cancelDuringRB   = 5 // in the middle of the rollback
	nCancel          = 6
)

var cancelNames = []string{"never", "before", "during-cond", "between", "during-then", "during-rollback"}
var outNames = []string{"ok", "fail", "absent"}

// Case is one call of utils.Txn or utils.PCR.
type Case struct {
	Form     string `json:"form"`     // "txn" | "pcr"
	Cond     int    `json:"cond"`     // ok | fail
	Then     int    `json:"then"`     // ok | fail | absent (nil func)
	Rollback int    `json:"rollback"` // ok | fail | absent (nil func; never absent for pcr: every caller passes one)
	Cancel   int    `json:"cancel"`   // cancellation point
	// Honour: a step that finds its context done returns ctx.Err() instead of its scripted
	// success (what a real store/engine call does).
	Honour bool `json:"honour"`
	// TTLns is the ttl argument. The statement's context clause is only decidable without a
	// clock for "large" ttls; tiny/non-positive ttls are generated too and then only
	// "not cancelled by the caller" (err != context.Canceled) is demanded.
	TTLns int64 `json:"ttl_ns"`
	// Parent shapes the caller's context: 0 plain cancel ctx, 1 with tracing id, 2 nested
	// cancel ctx chain (cancel the outermost), 3 with a far deadline, 4 (only with
	// cancel=before) an already expired deadline instead of an explicit cancel.
	Parent  int    `json:"parent"`
	Tracing string `json:"tracing,omitempty"`
	// Wrap: failing steps return a wrapped error chain instead of a plain one.
	Wrap bool `json:"wrap,omitempty"`
}

type call struct {
	step      string // cond | then | rollback
	errBefore error  // ctx.Err() at entry
	errAfter  error  // ctx.Err() at exit (after the scripted cancellation, if any)
	doneAfter bool   // ctx.Done() closed at exit
	flag      bool   // failureByCond (rollback only)
	ret       error
	tracing   any
}

type recorder struct {
	c        Case
	cancel   func()
	calls    []call
	canceled bool // caller cancelled so far
	errs     map[string]error
}

func (r *recorder) doCancel() {
	r.cancel()
	r.canceled = true
}

func isDone(ctx context.Context) bool {
	select {
	case <-ctx.Done():
		return true
	default:
		return false
	}
}

func (r *recorder) stepErr(name string) error {
	if e, ok := r.errs[name]; ok {
		return e
	}
	var e error = fmt.Errorf("%s failed", name)
	if r.c.Wrap {
		e = fmt.Errorf("outer: %w", fmt.Errorf("%s failed: %w", name, coretypes.ErrInvaildWALEvent))
	}
	r.errs[name] = e
	return e
}

// run executes the body shared by all three steps.
func (r *recorder) run(ctx context.Context, name string, outcome int, cancelDuring, cancelAtEnd bool, flag bool) error {
	cl := call{step: name, errBefore: ctx.Err(), flag: flag, tracing: ctx.Value(coretypes.TracingID)}
	if cancelDuring {
		r.doCancel()
	}
	cl.errAfter = ctx.Err()
	cl.doneAfter = isDone(ctx)
	switch {
	case outcome == fail:
		cl.ret = r.stepErr(name)
	case r.c.Honour && cl.errAfter != nil:
		cl.ret = cl.errAfter
	}
	if cancelAtEnd {
		r.doCancel()
	}
	r.calls = append(r.calls, cl)
	return cl.ret
}

func (c Case) ttl() time.Duration { return time.Duration(c.TTLns) }

// bigTTL: the rollback context's own timeout cannot fire during the case.
func (c Case) bigTTL() bool { return c.ttl() >= time.Minute }

func (c Case) valid() bool {
	if c.Form != "txn" && c.Form != "pcr" {
		return false
	}
	if c.Cond < ok || c.Cond > fail || c.Then < ok || c.Then > absent || c.Rollback < ok || c.Rollback > absent {
		return false
	}
	if c.Form == "pcr" && c.Rollback == absent {
		return false // PCR dereferences its rollback; all callers pass one
	}
	if c.Cancel < 0 || c.Cancel >= nCancel || c.Parent < 0 || c.Parent > 4 {
		return false
	}
	if c.Parent == 4 && c.Cancel != cancelBefore {
		return false
	}
	return true
}

type ctxKey struct{}

func run(x *vt.Ctx, c Case) *vt.Finding {
	if !c.valid() {
		x.Label("invalid-case")
		return nil
	}
	r := &recorder{c: c, errs: map[string]error{}}

	// the caller's context
	base := context.Background()
	base = context.WithValue(base, ctxKey{}, "caller")
	if c.Parent == 1 || c.Tracing != "" {
		base = context.WithValue(base, coretypes.TracingID, c.Tracing)
	}
	var ctx context.Context
	var cancels []func()
	switch c.Parent {
	case 2:
		outer, oc := context.WithCancel(base)
		mid, mc := context.WithCancel(outer)
		inner, ic := context.WithCancel(context.WithValue(mid, ctxKey{}, "caller2"))
		ctx, r.cancel, cancels = inner, oc, []func(){oc, mc, ic}
	case 3:
		d, dc := context.WithTimeout(base, 24*time.Hour)
		ctx, r.cancel, cancels = d, dc, []func(){dc}
	case 4:
		d, dc := context.WithDeadline(base, time.Unix(1, 0))
		ctx, r.cancel, cancels = d, dc, []func(){dc}
	default:
		cc, cf := context.WithCancel(base)
		ctx, r.cancel, cancels = cc, cf, []func(){cf}
	}
	defer func() {
		for _, f := range cancels {
			f()
		}
	}()

	cond := func(ctx context.Context) error {
		return r.run(ctx, "cond", c.Cond, c.Cancel == cancelDuringCond, c.Cancel == cancelBetween, false)
	}
	var then func(context.Context) error
	if c.Then != absent {
		then = func(ctx context.Context) error {
			return r.run(ctx, "then", c.Then, c.Cancel == cancelDuringThen, false, false)
		}
	}
	if c.Cancel == cancelBefore {
		r.doCancel()
	}

	var ret error
	switch c.Form {
	case "txn":
		var rb func(context.Context, bool) error
		if c.Rollback != absent {
			rb = func(ctx context.Context, byCond bool) error {
				return r.run(ctx, "rollback", c.Rollback, c.Cancel == cancelDuringRB, false, byCond)
			}
		}
		ret = coreutils.Txn(ctx, cond, then, rb, c.ttl())
	case "pcr":
		rb := func(ctx context.Context) error {
			return r.run(ctx, "rollback", c.Rollback, c.Cancel == cancelDuringRB, false, false)
		}
		ret = coreutils.PCR(ctx, cond, then, rb, c.ttl())
	}

	return judge(x, c, r, ret)
}

// judge is the reference semantics from the statement, applied to the call log.
func judge(x *vt.Ctx, c Case, r *recorder, ret error) *vt.Finding {
	form := c.Form
	var condCalls, thenCalls, rbCalls []int
	for i, cl := range r.calls {
		switch cl.step {
		case "cond":
			condCalls = append(condCalls, i)
		case "then":
			thenCalls = append(thenCalls, i)
		case "rollback":
			rbCalls = append(rbCalls, i)
		}
	}
	seq := ""
	for _, cl := range r.calls {
		seq += cl.step[:1]
		if cl.ret != nil {
			seq += "!"
		}
	}
	x.Logf("case=%+v calls=%s ret=%v", c, seq, ret)

	// --- the condition step runs once, first
	if len(condCalls) != 1 || condCalls[0] != 0 {
		return vt.Failf(form+":cond-not-run-once-first", "call sequence %q: the condition step must run exactly once and first", seq)
	}
	condErr := r.calls[0].ret

	// --- follow-up runs iff cond succeeded (and it exists), once, after cond
	wantThen := condErr == nil && c.Then != absent
	switch {
	case len(thenCalls) > 1:
		return vt.Failf(form+":then-run-twice", "call sequence %q: follow-up ran %d times", seq, len(thenCalls))
	case len(thenCalls) == 1 && !wantThen:
		return vt.Failf(form+":then-after-cond-failure", "call sequence %q: follow-up ran although the condition step returned %v", seq, condErr)
	case len(thenCalls) == 0 && wantThen:
		return vt.Failf(form+":then-skipped", "call sequence %q: condition step succeeded but the follow-up did not run (cancel=%s)", seq, cancelNames[c.Cancel])
	}
	var thenErr error
	if len(thenCalls) == 1 {
		if thenCalls[0] != 1 {
			return vt.Failf(form+":then-order", "call sequence %q: follow-up must directly follow the condition step", seq)
		}
		thenErr = r.calls[thenCalls[0]].ret
	}

	// --- first failure is returned (identity: the very error value the step returned)
	first := condErr
	if first == nil {
		first = thenErr
	}
	switch {
	case first == nil && ret != nil:
		return vt.Failf(form+":error-without-failure", "call sequence %q: no step failed but the helper returned %v", seq, ret)
	case first != nil && ret == nil:
		return vt.Failf(form+":failure-swallowed", "call sequence %q: a step failed with %v but the helper returned nil", seq, first)
	case first != nil && ret != first && !errors.Is(ret, first):
		return vt.Failf(form+":wrong-error-returned", "call sequence %q: first failure was %v but the helper returned %v", seq, first, ret)
	}

	// --- rollback exactly once iff a step failed and a rollback exists
	var wantRB bool
	switch form {
	case "txn":
		wantRB = first != nil && c.Rollback != absent
	case "pcr":
		wantRB = condErr == nil && thenErr != nil // only when commit fails
	}
	switch {
	case len(rbCalls) > 1:
		return vt.Failf(form+":rollback-run-twice", "call sequence %q: rollback ran %d times", seq, len(rbCalls))
	case len(rbCalls) == 1 && !wantRB && first == nil:
		return vt.Failf(form+":rollback-without-failure", "call sequence %q: rollback ran although no step failed", seq)
	case len(rbCalls) == 1 && !wantRB:
		return vt.Failf(form+":rollback-on-prepare-failure", "call sequence %q: the prepare/commit/rollback form rolled back although commit did not fail (prepare err %v)", seq, condErr)
	case len(rbCalls) == 0 && wantRB && condErr != nil:
		return vt.Failf(form+":rollback-skipped-on-cond-failure", "call sequence %q: condition step failed but rollback did not run", seq)
	case len(rbCalls) == 0 && wantRB:
		return vt.Failf(form+":rollback-skipped-on-then-failure", "call sequence %q: follow-up failed but rollback did not run", seq)
	}
	if len(rbCalls) == 1 {
		rb := r.calls[rbCalls[0]]
		if rbCalls[0] != len(r.calls)-1 {
			return vt.Failf(form+":rollback-order", "call sequence %q: rollback must run after the failing step and last", seq)
		}
		if form == "txn" && rb.flag != (condErr != nil) {
			return vt.Failf("txn:wrong-failureByCond", "call sequence %q: rollback was told failureByCond=%v but the condition step returned %v and the follow-up %v", seq, rb.flag, condErr, thenErr)
		}
		// the rollback's context: the caller's cancellation cannot interrupt it
		callerGoneAtEntry := c.Cancel != cancelNever && c.Cancel != cancelDuringRB
		for _, ob := range []struct {
			when string
			err  error
			gone bool
		}{{"entry", rb.errBefore, callerGoneAtEntry}, {"exit", rb.errAfter, callerGoneAtEntry || c.Cancel == cancelDuringRB}} {
			if !ob.gone {
				continue
			}
			if errors.Is(ob.err, context.Canceled) {
				return vt.Failf(form+":rollback-ctx-cancelled-by-caller", "call sequence %q: caller cancelled at %q, rollback saw ctx.Err()=%v at %s", seq, cancelNames[c.Cancel], ob.err, ob.when)
			}
			if c.bigTTL() && ob.err != nil {
				return vt.Failf(form+":rollback-ctx-cancelled-by-caller", "call sequence %q: caller cancelled at %q (parent=%d), ttl=%v, rollback saw ctx.Err()=%v at %s", seq, cancelNames[c.Cancel], c.Parent, c.ttl(), ob.err, ob.when)
			}
		}
		if c.bigTTL() && callerGoneAtEntry || c.bigTTL() && c.Cancel == cancelDuringRB {
			if rb.doneAfter {
				return vt.Failf(form+":rollback-ctx-cancelled-by-caller", "call sequence %q: rollback context's Done channel closed after the caller cancelled at %q", seq, cancelNames[c.Cancel])
			}
		}
		if rb.tracing != nil {
			x.Label("rollback-ctx-carries-tracing-id")
		}
	}

	// --- classification
	eff := "never"
	if r.canceled {
		eff = cancelNames[c.Cancel]
	}
	x.Label("form=%s", form)
	x.Label("%s seq=%s", form, seq)
	x.Label("cancel-effective=%s", eff)
	if len(rbCalls) == 1 && r.canceled {
		x.Label("rollback-after-or-during-caller-cancel ttl-big=%v", c.bigTTL())
	}
	if c.Honour && r.canceled {
		x.Label("honouring-steps-under-cancel")
	}
	x.Label("ttl=%s", ttlClass(c.ttl()))
	if first != nil {
		x.NonTrivial() // rule: some step failed
	}
	return nil
}

func ttlClass(d time.Duration) string {
	switch {
	case d <= 0:
		return "non-positive"
	case d < time.Minute:
		return "tiny"
	default:
		return "big"
	}
}

// enumerate yields the whole finite outcome/cancellation domain with a big ttl.
func enumerate(f func(Case)) int {
	n := 0
	for _, form := range []string{"txn", "pcr"} {
		for cond := ok; cond <= fail; cond++ {
			for then := ok; then <= absent; then++ {
				for rb := ok; rb <= absent; rb++ {
					for cancel := 0; cancel < nCancel; cancel++ {
						for _, honour := range []bool{false, true} {
							c := Case{Form: form, Cond: cond, Then: then, Rollback: rb, Cancel: cancel, Honour: honour, TTLns: int64(time.Hour)}
							if !c.valid() {
								continue
							}
							n++
							f(c)
						}
					}
				}
			}
		}
	}
	return n
}

func gen(t *rapid.T) Case {
	var c Case
	c.Form = rapid.SampledFrom([]string{"txn", "pcr"}).Draw(t, "form")
	c.Cond = ok
	if vt.Chance(t, "condFail", 35) {
		c.Cond = fail
	}
	c.Then = []int{ok, ok, fail, fail, absent}[rapid.IntRange(0, 4).Draw(t, "then")]
	if c.Form == "pcr" {
		c.Rollback = rapid.IntRange(ok, fail).Draw(t, "rollback")
	} else {
		c.Rollback = rapid.IntRange(ok, absent).Draw(t, "rollback")
	}
	c.Cancel = vt.Pct(t, "cancel") % nCancel
	if c.Cancel == cancelDuringRB && vt.Chance(t, "steerToRollback", 80) {
		// construct a case in which the rollback (the scripted cancellation point) is reached
		if rapid.Bool().Draw(t, "failInCond") && c.Form == "txn" {
			c.Cond = fail
		} else {
			c.Cond, c.Then = ok, fail
		}
		if c.Rollback == absent {
			c.Rollback = rapid.IntRange(ok, fail).Draw(t, "rollback2")
		}
	}
	c.Honour = rapid.Bool().Draw(t, "honour")
	switch k := vt.Pct(t, "ttlKind"); {
	case k < 10:
		c.TTLns = rapid.Int64Range(-int64(time.Hour), 0).Draw(t, "ttlNonPositive")
	case k < 25:
		c.TTLns = rapid.Int64Range(1, 1000).Draw(t, "ttlTiny") // expired by the time a step looks
	default:
		c.TTLns = rapid.Int64Range(int64(time.Minute), int64(1000*time.Hour)).Draw(t, "ttlBig")
	}
	c.Parent = rapid.IntRange(0, 3).Draw(t, "parent")
	if c.Cancel == cancelBefore && vt.Chance(t, "expiredDeadline", 30) {
		c.Parent = 4
	}
	if c.Parent == 1 || vt.Chance(t, "tracing", 20) {
		c.Tracing = rapid.StringMatching(`[a-z0-9]{0,12}`).Draw(t, "tracing")
	}
	c.Wrap = rapid.Bool().Draw(t, "wrap")
	return c
}

var propC17 = vt.Prop[Case]{ID: "C17", Test: "TestC17", Gen: gen, Run: run}

func TestC17(t *testing.T) {
	if vt.Mode() == "search" {
		// the finite domain, completely, before the random search
		failed := 0
		n := enumerate(func(c Case) {
			if f := propC17.RunCase(c); f != nil && !vt.Known("C17", f.Key) {
				failed++
				if failed == 1 { // keep the first (smallest in enumeration order) as the replay
					stats.RecordViolation("TestC17/enum", f.Key, f.Msg, c)
				}
				t.Errorf("VIOLATION C17 (enumeration) key=%s: %s", f.Key, f.Msg)
			}
		})
		stats.Label(fmt.Sprintf("exhaustive-enumeration-cases=%d", n))
		if failed > 0 {
			return // rapid refuses to start on an already failed test; the enumeration's violation stands
		}
		stats.Note(fmt.Sprintf("exhaustive: all %d combinations of form(txn,pcr) x cond(ok,fail) x then(ok,fail,absent) x rollback(ok,fail,absent; never absent for pcr) x cancellation point(never,before,during cond,between,during then,during rollback) x honouring steps(no,yes) at ttl=1h are evaluated on every search run before the rapid cases", n))
	}
	propC17.Check(t)
}
