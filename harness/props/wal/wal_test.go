// Property C16: the recovery log (wal.Hydro on a real bbolt file) replays exactly the
// uncommitted events.
//
// A case is a *script*: log (single, sequential burst, concurrent burst), commit, close+reopen
// (optionally "crash": continue from a copy of the file without closing first; optionally
// leaving a type unregistered), recover with a scripted outcome per event and per attempt, peek
// (scan a copy of the file). run executes the script against a fresh file under a temp dir and
// compares with a model kept here in token space (every event carries a unique token in its
// payload; the model never needs the ids the code under test assigns, it only constrains them).
//
// What is demanded (from the statement, nothing else):
//   - handlers (Decode/Check/Handle) are only ever called for events that were logged, not
//     committed and not already removed; Check and Handle at most once per event per recovery;
//     the order of calls respects logging order (for concurrent loggers: the order of the ids,
//     and program order per logger);
//   - every live event whose type is registered and whose payload decodes is presented to its
//     handler (Check), and Handle runs exactly for those the check declared necessary;
//   - after a recovery the stored set is the previous one minus {handler succeeded, declared
//     unnecessary}; commit removes; nothing else removes or adds;
//   - the id of an event never changes, no two events ever share an id, and ids grow in logging
//     order, also across close/reopen.
//
// Where the statement is silent nothing is asserted: the key format, the envelope encoding,
// whether Log must reject an unregistered type (the model follows Log's actual return value),
// how often Decode is called.
package wal

import (
	"context"
	"encoding/json"
	"errors"
	"fmt"
	"io"
	"os"
	"path/filepath"
	"sort"
	"strconv"
	"strings"
	"sync"
	"testing"
	"time"

	"pgregory.net/rapid"

	corewal "github.com/projecteru2/core/wal"
	"github.com/projecteru2/core/wal/kv"

	"verif/internal/vt"
)

func TestMain(m *testing.M) { vt.Main(m) }

// ---------------------------------------------------------------------------------------
// the script

// handler outcomes during a recovery
const (
	oOK = iota
	oHandleErr
	oNotNeeded
	oCheckErr
	oDecodeErr
	nOutcomes
)

var outcomeNames = []string{"ok", "handle-error", "not-needed", "check-error", "decode-error"}

const nTypes = 4

var typeNames = []string{"create-workload", "create-lambda", "workload-resource-allocated", "processing-created"}

// Ev is one event to log.
type Ev struct {
	Typ  int `json:"t"`           // index into typeNames
	Size int `json:"n,omitempty"` // padding bytes in the payload
	// Commit: 0 leave uncommitted, 1 the logger commits right after logging, 2 commits twice.
	Commit int `json:"c,omitempty"`
	// Outs[k] is the scripted handler outcome at the (k+1)-th recovery that presents the
	// event; past the end: ok.
	Outs []int `json:"o,omitempty"`
	// EncErr: the handler's Encode fails, so Log must not record anything.
	EncErr bool `json:"encerr,omitempty"`
}

// Act is one step of the script.
type Act struct {
	Op      string `json:"op"`                // log | commit | reopen | recover | peek
	Evs     []Ev   `json:"evs,omitempty"`     // log: the events, in program order
	Workers int    `json:"w,omitempty"`       // log: > 1 = that many concurrent loggers (event i goes to logger i mod w)
	Pick    int    `json:"pick,omitempty"`    // commit: which of this session's commit closures (mod their number)
	Skip    int    `json:"skip,omitempty"`    // reopen: bitmask of types whose handler is NOT registered
	Crash   bool   `json:"crash,omitempty"`   // reopen: continue from a copy taken without closing (process death)
	Recover int    `json:"recover,omitempty"` // recover: run this many recoveries back to back (0 = 1)
}

// Case is a whole history on one fresh file.
type Case struct {
	Skip0 int   `json:"skip0,omitempty"` // types unregistered in the first session
	Acts  []Act `json:"acts"`
}

// ---------------------------------------------------------------------------------------
// payload and handlers (the harness side of wal.EventHandler)

type payload struct {
	tok, typ, size int
	encErr         bool
}

type item struct{ tok int }

func encodePayload(p *payload) []byte {
	head := fmt.Sprintf("tok=%d;typ=%d;", p.tok, p.typ)
	b := make([]byte, 0, len(head)+p.size)
	b = append(b, head...)
	for i := 0; i < p.size; i++ {
		b = append(b, byte('a'+(p.tok*7+i*13)%26))
	}
	return b
}

func decodeToken(bs []byte) (tok, typ int, ok bool) {
	s := string(bs)
	if !strings.HasPrefix(s, "tok=") {
		return -1, -1, false
	}
	parts := strings.SplitN(s, ";", 3)
	if len(parts) < 3 || !strings.HasPrefix(parts[1], "typ=") {
		return -1, -1, false
	}
	t, e1 := strconv.Atoi(parts[0][4:])
	y, e2 := strconv.Atoi(parts[1][4:])
	if e1 != nil || e2 != nil {
		return -1, -1, false
	}
	return t, y, true
}

type callRec struct {
	kind string // decode | check | handle
	tok  int
	typ  int // type of the handler that was called
}

type handler struct {
	r   *runner
	typ int
}

var errScripted = errors.New("scripted failure")

func (h handler) Typ() string { return typeNames[h.typ] }

func (h handler) Encode(v any) ([]byte, error) {
	p := v.(*payload)
	if p.encErr {
		return nil, errScripted
	}
	return encodePayload(p), nil
}

func (h handler) Decode(bs []byte) (any, error) {
	tok, _, ok := decodeToken(bs)
	if !ok {
		tok = -1
	}
	h.r.record("decode", tok, h.typ)
	if h.r.outcome(tok) == oDecodeErr {
		return nil, errScripted
	}
	return &item{tok: tok}, nil
}

func (h handler) Check(_ context.Context, v any) (bool, error) {
	it, _ := v.(*item)
	tok := -1
	if it != nil {
		tok = it.tok
	}
	h.r.record("check", tok, h.typ)
	switch h.r.outcome(tok) {
	case oNotNeeded:
		return false, nil
	case oCheckErr:
		return false, errScripted
	}
	return true, nil
}

func (h handler) Handle(_ context.Context, v any) error {
	it, _ := v.(*item)
	tok := -1
	if it != nil {
		tok = it.tok
	}
	h.r.record("handle", tok, h.typ)
	if h.r.outcome(tok) == oHandleErr {
		return errScripted
	}
	return nil
}

// ---------------------------------------------------------------------------------------
// the model

type event struct {
	tok    int
	ev     Ev
	phase  int  // index of the log action (a total order between actions)
	worker int  // logger within the action
	seq    int  // program order within the logger
	sess   int  // session (open..close) in which it was logged
	conc   bool // logged in a burst with more than one logger

	logged    bool // Log returned nil
	live      bool // logged, not committed, not removed by a recovery
	committed bool
	attempts  int    // recoveries that presented it so far
	lastOut   int    // outcome at the last such recovery (-1: none yet)
	id        uint64 // as observed in a scan
	known     bool   // id observed
	commit    corewal.Commit
	r         *runner
}

type runner struct {
	x      *vt.Ctx
	dir    string
	path   string
	nfile  int
	h      *corewal.Hydro
	mask   int // unregistered types of the current session
	sess   int
	events []*event
	byID   map[uint64]int // id -> token, for every id ever observed
	// commit closures of the current session, ordered by token
	closures []int

	mu    sync.Mutex
	calls []callRec

	maxID          uint64
	nRecover       int
	ntRecover      bool
	ntReopen       bool
	outcomesSeen   [nOutcomes]int
	unregisteredAt int
	labels         map[string]bool
	detIDs         bool // no concurrent burst executed yet: ids are deterministic
}

// label puts the case in a class once, however often the situation occurs in the history.
func (r *runner) label(format string, a ...any) {
	l := fmt.Sprintf(format, a...)
	if !r.labels[l] {
		r.labels[l] = true
		r.x.Label("%s", l)
	}
}

func (r *runner) record(kind string, tok, typ int) {
	r.mu.Lock()
	r.calls = append(r.calls, callRec{kind, tok, typ})
	r.mu.Unlock()
}

// outcome is the scripted outcome of the event at the recovery in progress.
func (r *runner) outcome(tok int) int {
	if tok < 0 || tok >= len(r.events) {
		return oOK
	}
	e := r.events[tok]
	if e.attempts < len(e.ev.Outs) {
		o := e.ev.Outs[e.attempts]
		if o >= 0 && o < nOutcomes {
			return o
		}
	}
	return oOK
}

func tmpBase() string {
	if d := os.Getenv("VERIF_TMP"); d != "" {
		return d
	}
	if st, err := os.Stat("/dev/shm"); err == nil && st.IsDir() {
		if f, err := os.CreateTemp("/dev/shm", "c16probe"); err == nil {
			f.Close()
			os.Remove(f.Name())
			return "/dev/shm"
		}
	}
	return os.TempDir()
}

var baseDir = tmpBase()

const openTimeout = 30 * time.Second

func (r *runner) open() {
	h, err := corewal.NewHydro(r.path, openTimeout)
	if err != nil {
		panic(fmt.Sprintf("harness: NewHydro(%s): %v", r.path, err))
	}
	for t := 0; t < nTypes; t++ {
		if r.mask&(1<<t) == 0 {
			h.Register(handler{r: r, typ: t})
		}
	}
	r.h = h
	r.sess++
	r.closures = nil
}

func copyFile(dst, src string) {
	in, err := os.Open(src)
	if err != nil {
		panic("harness: " + err.Error())
	}
	defer in.Close()
	out, err := os.OpenFile(dst, os.O_CREATE|os.O_TRUNC|os.O_WRONLY, 0o600)
	if err != nil {
		panic("harness: " + err.Error())
	}
	if _, err := io.Copy(out, in); err != nil {
		panic("harness: " + err.Error())
	}
	if err := out.Close(); err != nil {
		panic("harness: " + err.Error())
	}
}

type stored struct {
	id  uint64
	tok int
	typ string
}

// scanFile reads the stored events of a closed file through the exported kv.Lithium.
func (r *runner) scanFile(path string) ([]stored, *vt.Finding) {
	l := kv.NewLithium()
	if err := l.Open(path, 0o600, openTimeout); err != nil {
		panic(fmt.Sprintf("harness: open %s for scanning: %v", path, err))
	}
	defer l.Close()
	ch, _ := l.Scan([]byte("/events/"))
	var out []stored
	var bad *vt.Finding
	for ent := range ch {
		if err := ent.Error(); err != nil {
			panic("harness: scan: " + err.Error())
		}
		k, v := ent.Pair()
		if bad != nil {
			continue // drain
		}
		id, err := strconv.ParseUint(strings.TrimPrefix(string(k), "/events/"), 16, 64)
		if err != nil {
			bad = vt.Failf("store:unparsable-key", "stored key %q does not carry a hexadecimal id", k)
			continue
		}
		var env struct {
			Type string `json:"type"`
			Item []byte `json:"item"`
		}
		if err := json.Unmarshal(v, &env); err != nil {
			bad = vt.Failf("store:unparsable-value", "stored value of %q is not an event: %v", k, err)
			continue
		}
		tok, _, ok := decodeToken(env.Item)
		if !ok {
			bad = vt.Failf("store:unparsable-payload", "stored event %q carries payload %.40q, not one the harness logged", k, env.Item)
			continue
		}
		out = append(out, stored{id: id, tok: tok, typ: env.Type})
	}
	return out, bad
}

// peek scans a copy of the file of the open (quiescent) log.
func (r *runner) peek(where string) *vt.Finding {
	cp := filepath.Join(r.dir, "peek.db")
	copyFile(cp, r.path)
	defer os.Remove(cp)
	return r.checkStored(cp, where)
}

func (e *event) desc() string {
	st := "live"
	switch {
	case !e.logged:
		st = "never-logged"
	case e.committed:
		st = "committed"
	case !e.live:
		st = "removed-by-recovery(" + outcomeNames[e.lastOut] + ")"
	}
	// ids are only printed while they are a function of the script (no concurrent loggers so
	// far): rapid refuses to shrink a case whose failure message differs between two runs
	if e.r != nil && e.r.detIDs && e.known {
		return fmt.Sprintf("event#%d(type=%s id=%#x %s)", e.tok, typeNames[e.ev.Typ], e.id, st)
	}
	return fmt.Sprintf("event#%d(type=%s %s)", e.tok, typeNames[e.ev.Typ], st)
}

// checkStored compares the stored set with the model and the ids with everything seen before.
func (r *runner) checkStored(path, where string) *vt.Finding {
	got, bad := r.scanFile(path)
	if bad != nil {
		return bad
	}
	seen := map[int]bool{}
	sort.SliceStable(got, func(i, j int) bool { return got[i].tok < got[j].tok }) // deterministic report
	for _, s := range got {
		if s.tok < 0 || s.tok >= len(r.events) {
			return vt.Failf("store:ghost-event", "%s: a stored event carries token %d which was never logged", where, s.tok)
		}
		e := r.events[s.tok]
		if seen[s.tok] {
			return vt.Failf("store:event-stored-twice", "%s: %s is stored under two keys", where, e.desc())
		}
		seen[s.tok] = true
		if s.typ != typeNames[e.ev.Typ] {
			return vt.Failf("store:type-changed", "%s: %s is stored with type %q", where, e.desc(), s.typ)
		}
		// ids: stable per event, never shared
		if e.known && e.id != s.id {
			return vt.Failf("ids:id-changed", "%s: %s is now stored under another id%s", where, e.desc(), r.idNote(s.id))
		}
		if other, ok := r.byID[s.id]; ok && other != s.tok {
			if !r.detIDs {
				return vt.Failf("ids:reused"+r.restartSuffix(r.events[other], e), "%s: an id that an earlier event had was given again to a later event", where)
			}
			return vt.Failf("ids:reused"+r.restartSuffix(r.events[other], e), "%s: the id%s of %s was given again to %s", where, r.idNote(s.id), r.events[other].desc(), e.desc())
		}
		e.id, e.known = s.id, true
		r.byID[s.id] = s.tok
		if s.id > r.maxID {
			r.maxID = s.id
		}
		switch {
		case !e.logged:
			return vt.Failf("store:ghost-event", "%s: %s is stored although Log returned an error for it", where, e.desc())
		case e.committed:
			return vt.Failf("store:committed-event-still-stored", "%s: %s is still stored after its commit returned nil", where, e.desc())
		case !e.live:
			return vt.Failf("store:kept-after-"+outcomeNames[e.lastOut], "%s: %s is still stored although its handler outcome was %q", where, e.desc(), outcomeNames[e.lastOut])
		}
	}
	for _, e := range r.events {
		if e.live && !seen[e.tok] {
			why := "never-presented"
			if e.lastOut >= 0 {
				why = "after-" + outcomeNames[e.lastOut]
			}
			if e.known {
				if other, ok := r.byID[e.id]; ok && other != e.tok {
					return vt.Failf("ids:reused"+r.restartSuffix(e, r.events[other]), "%s: %s was overwritten: its id now belongs to %s", where, e.desc(), r.events[other].desc())
				}
			}
			return vt.Failf("store:live-event-lost:"+why, "%s: %s must still be stored (uncommitted; last handler outcome: %s) but is gone", where, e.desc(), why)
		}
	}
	return r.checkIDOrder(where)
}

func (r *runner) idNote(id uint64) string {
	if r.detIDs {
		return fmt.Sprintf(" %#x", id)
	}
	return ""
}

func (r *runner) restartSuffix(a, b *event) string {
	if a.sess != b.sess {
		return ":across-restart"
	}
	return ":same-session"
}

// happenedBefore: a's Log returned before b's Log was called.
func happenedBefore(a, b *event) bool {
	if a.phase != b.phase {
		return a.phase < b.phase
	}
	return a.worker == b.worker && a.seq < b.seq
}

// checkIDOrder: ids grow in logging order, over every event whose id was ever observed.
func (r *runner) checkIDOrder(where string) *vt.Finding {
	var prevPhaseMax *event // event with the largest id among all earlier phases
	var curPhaseMax *event
	curPhase := -1
	lastOfWorker := map[int]*event{}
	for _, e := range r.events { // events are in (phase, program) order
		if !e.known {
			continue
		}
		if e.phase != curPhase {
			if curPhaseMax != nil && (prevPhaseMax == nil || curPhaseMax.id > prevPhaseMax.id) {
				prevPhaseMax = curPhaseMax
			}
			curPhase, curPhaseMax = e.phase, nil
			lastOfWorker = map[int]*event{}
		}
		if prevPhaseMax != nil && e.id <= prevPhaseMax.id {
			if !r.detIDs {
				return vt.Failf("ids:not-increasing"+r.restartSuffix(prevPhaseMax, e), "%s: an event did not get a larger id than an event logged before it", where)
			}
			return vt.Failf("ids:not-increasing"+r.restartSuffix(prevPhaseMax, e), "%s: %s was logged after %s but did not get a larger id", where, e.desc(), prevPhaseMax.desc())
		}
		if p := lastOfWorker[e.worker]; p != nil && e.id <= p.id {
			return vt.Failf("ids:not-increasing:same-logger", "%s: %s was logged after %s by the same logger but did not get a larger id", where, e.desc(), p.desc())
		}
		lastOfWorker[e.worker] = e
		if curPhaseMax == nil || e.id > curPhaseMax.id {
			curPhaseMax = e
		}
	}
	return nil
}

// ---------------------------------------------------------------------------------------
// executing the script

func (r *runner) doLog(a Act, phase int) *vt.Finding {
	w := a.Workers
	if w < 1 {
		w = 1
	}
	if w > len(a.Evs) {
		w = max(1, len(a.Evs))
	}
	first := len(r.events)
	perWorker := make([][]*event, w)
	for i, ev := range a.Evs {
		ev.Typ = ((ev.Typ % nTypes) + nTypes) % nTypes
		if ev.Size < 0 {
			ev.Size = 0
		}
		if ev.Size > 1<<16 {
			ev.Size = 1 << 16
		}
		e := &event{tok: first + i, ev: ev, phase: phase, worker: i % w, seq: i / w, sess: r.sess, lastOut: -1, r: r, conc: w > 1}
		r.events = append(r.events, e)
		perWorker[e.worker] = append(perWorker[e.worker], e)
	}
	type res struct {
		e         *event
		err       error
		commitErr error
	}
	results := make([][]res, w)
	work := func(k int) {
		for _, e := range perWorker[k] {
			c, err := r.h.Log(typeNames[e.ev.Typ], &payload{tok: e.tok, typ: e.ev.Typ, size: e.ev.Size, encErr: e.ev.EncErr})
			rs := res{e: e, err: err}
			if err == nil {
				e.commit = c
				for n := 0; n < e.ev.Commit && rs.commitErr == nil; n++ {
					rs.commitErr = c()
				}
			}
			results[k] = append(results[k], rs)
		}
	}
	if w == 1 {
		work(0)
	} else {
		r.detIDs = false
		var wg sync.WaitGroup
		for k := 0; k < w; k++ {
			wg.Add(1)
			go func() { defer wg.Done(); work(k) }()
		}
		wg.Wait()
	}
	for k := 0; k < w; k++ {
		for _, rs := range results[k] {
			e := rs.e
			registered := r.mask&(1<<e.ev.Typ) == 0
			switch {
			case rs.err == nil && rs.e.commit == nil:
				return vt.Failf("log:nil-commit", "Log of %s returned neither an error nor a commit function", e.desc())
			case rs.err == nil:
				e.logged, e.live = true, true
				if !registered {
					r.label("log:accepted-unregistered-type")
				}
				if e.ev.EncErr {
					// the payload could not be encoded, yet something was recorded
					return vt.Failf("log:recorded-unencodable-event", "Log of %s returned nil although the handler's Encode failed", e.desc())
				}
			case registered && !e.ev.EncErr:
				panic(fmt.Sprintf("harness/environment: Log(%s) failed: %v", typeNames[e.ev.Typ], rs.err))
			case !registered:
				r.label("log:rejected-unregistered-type")
			default:
				r.label("log:rejected-encode-error")
			}
			if rs.commitErr != nil {
				panic(fmt.Sprintf("harness/environment: commit of %s failed: %v", e.desc(), rs.commitErr))
			}
			if e.logged && e.ev.Commit > 0 {
				e.live, e.committed = false, true
				if e.ev.Commit > 1 {
					r.label("commit:twice")
				}
			}
		}
	}
	for i := first; i < len(r.events); i++ {
		if r.events[i].logged {
			r.closures = append(r.closures, i)
		}
	}
	if w > 1 {
		r.label("log:concurrent-burst")
	} else if len(a.Evs) > 1 {
		r.label("log:sequential-burst")
	}
	return nil
}

func (r *runner) doCommit(a Act) {
	if len(r.closures) == 0 {
		r.label("commit:nothing-to-commit")
		return
	}
	p := a.Pick
	if p < 0 {
		p = -p
	}
	e := r.events[r.closures[p%len(r.closures)]]
	if err := e.commit(); err != nil {
		panic(fmt.Sprintf("harness/environment: commit of %s failed: %v", e.desc(), err))
	}
	switch {
	case e.committed:
		r.label("commit:again")
	case !e.live:
		r.label("commit:after-removed-by-recovery")
	default:
		r.label("commit:delayed")
	}
	if e.live {
		e.live, e.committed = false, true
	}
}

func (r *runner) liveEvents() []*event {
	var out []*event
	for _, e := range r.events {
		if e.live {
			out = append(out, e)
		}
	}
	return out
}

func (r *runner) doReopen(a Act) *vt.Finding {
	live := r.liveEvents()
	if a.Crash {
		// process death at a quiescent point: whatever is in the file is all there is
		r.nfile++
		np := filepath.Join(r.dir, fmt.Sprintf("wal-%d.db", r.nfile))
		copyFile(np, r.path)
		if err := r.h.Close(); err != nil {
			panic("harness: close: " + err.Error())
		}
		os.Remove(r.path)
		r.path = np
		r.label("reopen:crash")
	} else {
		if err := r.h.Close(); err != nil {
			panic("harness: close: " + err.Error())
		}
		r.label("reopen:clean")
	}
	r.h = nil
	if f := r.checkStored(r.path, fmt.Sprintf("scan between close and reopen #%d", r.sess)); f != nil {
		return f
	}
	r.mask = a.Skip & (1<<nTypes - 1)
	if len(live) > 0 {
		r.ntReopen = true
		r.label("reopen:with-live-events")
		for _, e := range live {
			if r.mask&(1<<e.ev.Typ) != 0 {
				r.label("reopen:live-event-of-unregistered-type")
				break
			}
		}
	}
	r.open()
	return nil
}

func (r *runner) doRecover() *vt.Finding {
	// The order of the handler calls is compared with logging order: program order where it is
	// defined, else (events of one concurrent burst, logged by different loggers) the order of
	// their ids - which must then be known, so scan first. (A scan costs an mmap/munmap of a
	// copy of the file; skipped when program order already decides everything.)
	live := r.liveEvents()
	unknownPerPhase := map[int]int{}
	needScan := false
	for _, e := range live {
		if !e.known && e.conc {
			unknownPerPhase[e.phase]++
			if unknownPerPhase[e.phase] > 1 {
				needScan = true
			}
		}
	}
	if needScan {
		if f := r.peek("scan before recovery"); f != nil {
			return f
		}
	}
	r.nRecover++
	liveAtStart := map[int]bool{}
	var minID, maxID uint64
	anyID := false
	kinds := map[int]bool{}
	for _, e := range live {
		liveAtStart[e.tok] = true
		if e.known && (!anyID || e.id < minID) {
			minID, anyID = e.id, true
		}
		if e.known && e.id > maxID {
			maxID = e.id
		}
		if r.mask&(1<<e.ev.Typ) == 0 {
			kinds[r.outcome(e.tok)] = true
		} else {
			kinds[-1] = true
		}
	}
	if len(kinds) >= 2 {
		r.ntRecover = true
	}
	if len(live) >= 2 {
		for _, b := range []uint64{0x10, 0x100} {
			if anyID && minID < b && maxID >= b { // over the ids known at this point
				r.label("recover:live-ids-straddle-%#x", b)
			}
		}
	}
	r.label("recover:live=%s", bucket(len(live)))

	r.mu.Lock()
	r.calls = nil
	r.mu.Unlock()
	r.h.Recover(context.Background())
	r.mu.Lock()
	calls := r.calls
	r.calls = nil
	r.mu.Unlock()

	where := fmt.Sprintf("recovery #%d", r.nRecover)
	// --- only live events, the right handler, at most once, in logging order
	count := map[string]map[int]int{"decode": {}, "check": {}, "handle": {}}
	firstCalls := map[string][]*event{}
	wrongTyp := map[int]callRec{}
	var toks []int
	for _, c := range calls {
		if c.tok < 0 || c.tok >= len(r.events) {
			return vt.Failf("recover:handler-called-with-unknown-item", "%s: %s was called with an item the harness never logged", where, c.kind)
		}
		e := r.events[c.tok]
		if count["decode"][c.tok]+count["check"][c.tok]+count["handle"][c.tok] == 0 {
			toks = append(toks, c.tok)
		}
		count[c.kind][c.tok]++
		if count[c.kind][c.tok] == 1 {
			firstCalls[c.kind] = append(firstCalls[c.kind], e)
		}
		if _, dup := wrongTyp[c.tok]; c.typ != e.ev.Typ && !dup {
			wrongTyp[c.tok] = c
		}
	}
	sort.Ints(toks) // report per event in script order, whatever order the calls came in
	for _, tok := range toks {
		e := r.events[tok]
		if !liveAtStart[tok] {
			key := "recover:handler-called-for-"
			switch {
			case !e.logged:
				key += "never-logged-event"
			case e.committed:
				key += "committed-event"
			default:
				key += "event-removed-after-" + outcomeNames[e.lastOut]
			}
			return vt.Failf(key, "%s: a handler was called for %s", where, e.desc())
		}
		if c, bad := wrongTyp[tok]; bad {
			return vt.Failf("recover:wrong-handler", "%s: %s of the %q handler was called for %s", where, c.kind, typeNames[c.typ], e.desc())
		}
		for _, kind := range []string{"check", "handle"} {
			if n := count[kind][tok]; n > 1 {
				return vt.Failf("recover:"+kind+"-called-twice", "%s: %s was called %d times for %s", where, kind, n, e.desc())
			}
		}
	}
	for _, kind := range []string{"decode", "check", "handle"} {
		var p *event
		for _, e := range firstCalls[kind] {
			if p != nil && (happenedBefore(e, p) || (e.known && p.known && e.id < p.id)) {
				k := "recover:out-of-order"
				if !r.detIDs {
					// which events swap places depends on how the concurrent loggers interleaved:
					// keep the message a function of the script (see desc)
					return vt.Failf(k, "%s: %s was called for an event before one that was logged earlier (had a smaller id)", where, kind)
				}
				switch {
				case (p.id >= 0x100) != (e.id >= 0x100):
					k += ":across-id-0x100"
				case (p.id >= 0x10) != (e.id >= 0x10):
					k += ":across-id-0x10"
				}
				return vt.Failf(k, "%s: %s was called for %s before %s, which was logged earlier", where, kind, p.desc(), e.desc())
			}
			p = e
		}
	}
	// --- exactly the live, registered, decodable events are presented; Handle iff the check said so
	var stoppedAfter *event
	for _, e := range live {
		registered := r.mask&(1<<e.ev.Typ) == 0
		o := r.outcome(e.tok)
		wantCheck := registered && o != oDecodeErr
		wantHandle := registered && (o == oOK || o == oHandleErr)
		gotCheck, gotHandle := count["check"][e.tok] > 0, count["handle"][e.tok] > 0
		why := "unregistered-type"
		if registered {
			why = outcomeNames[o]
		}
		switch {
		case wantCheck && !gotCheck:
			k := "recover:live-event-not-presented"
			if stoppedAfter != nil {
				k += ":after-earlier-" + outcomeNames[r.outcome(stoppedAfter.tok)]
			}
			return vt.Failf(k, "%s: %s is uncommitted, its type is registered and it decodes, but its handler's Check was not called%s", where, e.desc(), r.callNote(calls))
		case !wantCheck && gotCheck:
			return vt.Failf("recover:check-called-although-"+why, "%s: Check was called for %s", where, e.desc())
		case wantHandle && !gotHandle:
			return vt.Failf("recover:needed-event-not-handled", "%s: Check declared %s necessary but Handle was not called", where, e.desc())
		case !wantHandle && gotHandle:
			return vt.Failf("recover:handle-called-although-"+why, "%s: Handle was called for %s", where, e.desc())
		}
		if registered && o != oOK && o != oNotNeeded && stoppedAfter == nil {
			stoppedAfter = e
		}
	}
	// --- model update
	for _, e := range live {
		if r.mask&(1<<e.ev.Typ) != 0 {
			r.unregisteredAt++
			continue
		}
		o := r.outcome(e.tok)
		r.outcomesSeen[o]++
		e.attempts++
		e.lastOut = o
		if o == oOK || o == oNotNeeded {
			e.live = false
		}
	}
	if len(live) == 0 && len(calls) == 0 {
		return nil // nothing stored before, no handler ran: the next scan will do
	}
	return r.peek(fmt.Sprintf("scan after recovery #%d", r.nRecover))
}

func (r *runner) callNote(calls []callRec) string {
	if !r.detIDs {
		return ""
	}
	var sb strings.Builder
	sb.WriteString(" (calls:")
	for i, c := range calls {
		if i >= 40 {
			fmt.Fprintf(&sb, " …(%d more)", len(calls)-i)
			break
		}
		fmt.Fprintf(&sb, " %s#%d", c.kind[:1], c.tok)
	}
	sb.WriteString(")")
	return sb.String()
}

func bucket(n int) string {
	switch {
	case n == 0:
		return "0"
	case n == 1:
		return "1"
	case n < 8:
		return "2-7"
	case n < 32:
		return "8-31"
	default:
		return "32+"
	}
}

func run(x *vt.Ctx, c Case) (finding *vt.Finding) {
	dir, err := os.MkdirTemp(baseDir, "verif-c16-")
	if err != nil {
		panic("harness: " + err.Error())
	}
	r := &runner{x: x, dir: dir, path: filepath.Join(dir, "wal-0.db"), byID: map[uint64]int{}, labels: map[string]bool{}, detIDs: true, mask: c.Skip0 & (1<<nTypes - 1)}
	defer func() {
		if r.h != nil {
			_ = r.h.Close()
		}
		_ = os.RemoveAll(dir)
	}()
	r.open()

	phase := 0
	for i, a := range c.Acts {
		var f *vt.Finding
		switch a.Op {
		case "log":
			phase++
			f = r.doLog(a, phase)
		case "commit":
			r.doCommit(a)
		case "reopen":
			f = r.doReopen(a)
		case "recover":
			n := a.Recover
			if n < 1 {
				n = 1
			}
			if n > 4 {
				n = 4
			}
			for k := 0; k < n && f == nil; k++ {
				f = r.doRecover()
			}
		case "peek":
			f = r.peek(fmt.Sprintf("peek at action %d", i))
		}
		if f != nil {
			x.Logf("failed at action %d (%s)", i, a.Op)
			return f
		}
	}
	// final state: close, scan the real file
	if err := r.h.Close(); err != nil {
		panic("harness: close: " + err.Error())
	}
	r.h = nil
	if f := r.checkStored(r.path, "final scan after close"); f != nil {
		return f
	}

	// classification
	n := 0
	for _, e := range r.events {
		if e.logged {
			n++
		}
	}
	x.Label("events-logged=%s", map[bool]string{true: "257+", false: map[bool]string{true: "17-256", false: "0-16"}[n > 16]}[n > 256])
	if r.maxID >= 0x100 {
		x.Label("ids-observed-past-0x100")
	} else if r.maxID >= 0x10 {
		x.Label("ids-observed-past-0x10")
	}
	for o, k := range r.outcomesSeen {
		if k > 0 {
			x.Label("outcome-seen:%s", outcomeNames[o])
		}
	}
	if r.unregisteredAt > 0 {
		x.Label("outcome-seen:unregistered-type-at-recovery")
	}
	if r.ntRecover {
		x.Label("nontrivial:recover-with-different-outcomes")
	}
	if r.ntReopen {
		x.Label("nontrivial:reopen-with-live-events")
	}
	if r.ntRecover || r.ntReopen {
		x.NonTrivial()
	}
	return nil
}

// ---------------------------------------------------------------------------------------
// generator

func genEv(t *rapid.T, pUncommitted int) Ev {
	var e Ev
	e.Typ = rapid.IntRange(0, nTypes-1).Draw(t, "typ")
	switch k := vt.Pct(t, "size"); {
	case k < 60:
		e.Size = rapid.IntRange(0, 40).Draw(t, "sizeSmall")
	case k < 92:
		e.Size = rapid.IntRange(41, 600).Draw(t, "sizeMid")
	default:
		e.Size = rapid.IntRange(601, 9000).Draw(t, "sizeBig") // larger than a bbolt page
	}
	switch k := vt.Pct(t, "commit"); {
	case k < pUncommitted:
		e.Commit = 0
	case k < pUncommitted+4:
		e.Commit = 2
	default:
		e.Commit = 1
	}
	if e.Commit == 0 {
		n := rapid.IntRange(0, 3).Draw(t, "nOuts")
		for i := 0; i < n; i++ {
			var o int
			switch k := vt.Pct(t, "out"); {
			case k < 30:
				o = oOK
			case k < 50:
				o = oHandleErr
			case k < 70:
				o = oNotNeeded
			case k < 85:
				o = oCheckErr
			default:
				o = oDecodeErr
			}
			e.Outs = append(e.Outs, o)
		}
	}
	if vt.Chance(t, "encErr", 2) {
		e.EncErr = true
	}
	return e
}

func genSkip(t *rapid.T, pct int) int {
	if !vt.Chance(t, "skipSome", pct) {
		return 0
	}
	m := 1 << rapid.IntRange(0, nTypes-1).Draw(t, "skipType")
	if vt.Chance(t, "skipTwo", 20) {
		m |= 1 << rapid.IntRange(0, nTypes-1).Draw(t, "skipType2")
	}
	return m
}

// genCase builds the script from rapid slices of custom generators, so that the shrinker can
// drop whole actions and whole events.
func genCase(t *rapid.T) Case {
	var c Case
	c.Skip0 = genSkip(t, 10)
	// size class: how many events the history logs: short / past 0x10 / past 0x100
	var minActs, maxActs, burstLo, burstHi, pBurst int
	switch k := vt.Pct(t, "length"); {
	case k < 22:
		minActs, maxActs, burstLo, burstHi, pBurst = 1, 8, 2, 5, 30
	case k < 65:
		minActs, maxActs, burstLo, burstHi, pBurst = 5, 30, 2, 24, 45
	default:
		minActs, maxActs, burstLo, burstHi, pBurst = 22, 45, 18, 48, 72
	}
	pUncommitted := []int{8, 25, 60}[rapid.IntRange(0, 2).Draw(t, "uncommittedLevel")]
	if minActs >= 22 && pUncommitted == 60 {
		pUncommitted = 25
	}
	evGen := rapid.Custom(func(t *rapid.T) Ev { return genEv(t, pUncommitted) })
	actGen := rapid.Custom(func(t *rapid.T) Act {
		switch k := vt.Pct(t, "act"); {
		case k < 62:
			if !vt.Chance(t, "burst", pBurst) {
				return Act{Op: "log", Evs: []Ev{evGen.Draw(t, "ev")}}
			}
			a := Act{Op: "log", Evs: rapid.SliceOfN(evGen, burstLo, burstHi).Draw(t, "evs")}
			if vt.Chance(t, "concurrent", 60) {
				a.Workers = rapid.IntRange(2, 6).Draw(t, "workers")
			}
			return a
		case k < 72:
			return Act{Op: "commit", Pick: rapid.IntRange(0, 999).Draw(t, "pick")}
		case k < 84:
			a := Act{Op: "recover"}
			if vt.Chance(t, "recoverAgain", 25) {
				a.Recover = rapid.IntRange(2, 3).Draw(t, "recoverTimes")
			}
			return a
		case k < 96:
			return Act{Op: "reopen", Skip: genSkip(t, 25), Crash: vt.Chance(t, "crash", 35)}
		default:
			return Act{Op: "peek"}
		}
	})
	c.Acts = rapid.SliceOfN(actGen, minActs, maxActs).Draw(t, "acts")
	// bound the cost of one history
	const maxEvents = 520
	n := 0
	for i := range c.Acts {
		if room := maxEvents - n; len(c.Acts[i].Evs) > room {
			c.Acts[i].Evs = c.Acts[i].Evs[:room]
		}
		n += len(c.Acts[i].Evs)
	}
	// the usual life cycle at the end: restart, recover (often twice: the second one sees what the first left)
	if vt.Chance(t, "finalRestart", 80) {
		c.Acts = append(c.Acts, Act{Op: "reopen", Skip: genSkip(t, 15), Crash: vt.Chance(t, "crash", 35)})
	}
	if vt.Chance(t, "finalRecover", 90) {
		c.Acts = append(c.Acts, Act{Op: "recover", Recover: rapid.IntRange(1, 3).Draw(t, "finalRecoverTimes")})
	}
	if vt.Chance(t, "finalRestart2", 30) {
		c.Acts = append(c.Acts, Act{Op: "reopen"}, Act{Op: "recover"})
	}
	return c
}

var propC16 = vt.Prop[Case]{ID: "C16", Test: "TestC16", Gen: genCase, Run: run}

func TestC16(t *testing.T) { propC16.Check(t) }
