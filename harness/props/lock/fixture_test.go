// Package lock holds properties C18 (mutual exclusion of the distributed locks) and C19 (a
// holder is told when it loses its lock) for both lock back ends of projecteru2/core, reached
// the way the cluster reaches them: Store.CreateLock(key, ttl) -> one lock object per attempt.
//
// Back ends: the real etcdv3.Mercury on the embedded single-member etcd the repo's own tests
// use, the real redis.Rediaron on miniredis. One server per test process, a fresh lock key per
// executed case.
package lock

import (
	"context"
	"fmt"
	"os"
	"sync"
	"sync/atomic"
	"testing"
	"time"

	"github.com/alicebob/miniredis/v2"
	clientv3 "go.etcd.io/etcd/client/v3"

	corelock "github.com/projecteru2/core/lock"
	"github.com/projecteru2/core/store/etcdv3"
	"github.com/projecteru2/core/store/etcdv3/embedded"
	coreredis "github.com/projecteru2/core/store/redis"
	coretypes "github.com/projecteru2/core/types"

	"verif/internal/vt"
)

func TestMain(m *testing.M) { vt.Main(m) }

const (
	etcdPrefix     = "/verif"
	etcdLockPrefix = "__lock__/verif"
	redisLockPfx   = "/lock"
)

// lockStore is the slice of store.Store the cluster uses for locking.
type lockStore interface {
	CreateLock(key string, ttl time.Duration) (corelock.DistributedLock, error)
}

type etcdFixture struct {
	store lockStore
	raw   *clientv3.Client // the embedded cluster's own (namespaced) client: lease introspection / revocation
}

type redisFixture struct {
	store lockStore
	mr    *miniredis.Miniredis
}

var (
	curT     *testing.T // the running Test function (the embedded etcd needs one)
	fixMu    sync.Mutex
	etcdFix  *etcdFixture
	redisFix *redisFixture
	keySeq   atomic.Int64
)

// useT registers the running test; fixtures are created lazily on first use by a case.
func useT(t *testing.T) {
	fixMu.Lock()
	defer fixMu.Unlock()
	curT = t
	etcdFix = nil // the embedded cluster is bound to the test that created it
}

func getEtcd() *etcdFixture {
	fixMu.Lock()
	defer fixMu.Unlock()
	if etcdFix != nil {
		return etcdFix
	}
	cfg := coretypes.Config{MaxConcurrency: 100, Etcd: coretypes.EtcdConfig{Prefix: etcdPrefix, LockPrefix: etcdLockPrefix}}
	// etcd's integration.BeforeTest changes the working directory to a temporary one; the
	// regression inputs and rapid's fail files are addressed relative to the package directory
	wd, _ := os.Getwd()
	m, err := etcdv3.New(cfg, curT)
	if wd != "" {
		_ = os.Chdir(wd)
	}
	if err != nil {
		panic("harness: embedded etcd store: " + err.Error())
	}
	// embedded.NewCluster caches the cluster per test name: this returns the one the store uses
	raw := embedded.NewCluster(curT, etcdPrefix).RandClient()
	etcdFix = &etcdFixture{store: m, raw: raw}
	return etcdFix
}

func getRedis() *redisFixture {
	fixMu.Lock()
	defer fixMu.Unlock()
	if redisFix != nil {
		return redisFix
	}
	mr, err := miniredis.Run()
	if err != nil {
		panic("harness: miniredis: " + err.Error())
	}
	cfg := coretypes.Config{MaxConcurrency: 100, Redis: coretypes.RedisConfig{Addr: mr.Addr(), LockPrefix: redisLockPfx, DB: 0}}
	r, err := coreredis.New(cfg, nil)
	if err != nil {
		panic("harness: redis store: " + err.Error())
	}
	redisFix = &redisFixture{store: r, mr: mr}
	return redisFix
}

func storeFor(backend string) lockStore {
	switch backend {
	case "etcd":
		return getEtcd().store
	case "redis":
		return getRedis().store
	}
	panic("harness: unknown backend " + backend)
}

// freshKey is a lock name no earlier case of this process used.
func freshKey(tag string) string { return fmt.Sprintf("%s-%d", tag, keySeq.Add(1)) }

// etcdLockDir is where etcdlock puts the queue entries of lock `key` (derived from the
// configuration, not from the lock object): <"/"+LockPrefix+"/"+key>/<lease id in hex>.
func etcdLockDir(key string) string { return fmt.Sprintf("/%s/%s/", etcdLockPrefix, key) }

// etcdQueue returns the queue entries of a lock ordered by creation (head = owner).
func etcdQueue(ctx context.Context, raw *clientv3.Client, key string) ([]queued, error) {
	resp, err := raw.Get(ctx, etcdLockDir(key), clientv3.WithPrefix(), clientv3.WithSort(clientv3.SortByCreateRevision, clientv3.SortAscend))
	if err != nil {
		return nil, err
	}
	out := make([]queued, 0, len(resp.Kvs))
	for _, kv := range resp.Kvs {
		out = append(out, queued{Key: string(kv.Key), Lease: clientv3.LeaseID(kv.Lease), CreateRev: kv.CreateRevision})
	}
	return out, nil
}

type queued struct {
	Key       string
	Lease     clientv3.LeaseID
	CreateRev int64
}

func ms(n int) time.Duration { return time.Duration(n) * time.Millisecond }

func sleepMs(n int) {
	if n > 0 {
		time.Sleep(ms(n))
	}
}
