package lock

import (
	"context"
	"fmt"
	"testing"
	"time"

	"pgregory.net/rapid"

	"verif/internal/vt"
)

// C18 (timeout window): "a waiting caller either acquires the lock after it is released or fails
// when its wait timeout expires". A holder keeps the lock from before the waiter starts until the
// waiter's timeout has expired by a margin; the waiter must therefore fail — acquiring means it
// kept waiting beyond its timeout. No upper time bound is used: the holder releases only after
// (waiter start + timeout + margin) on the harness clock, so a correct implementation, however
// slow the machine, can never return an acquired lock to this waiter.

type WindowCase struct {
	Backend   string `json:"backend"`
	TimeoutMs int    `json:"timeout_ms"` // waiter's wait timeout (not a whole number of seconds in most cases)
	MarginMs  int    `json:"margin_ms"`  // holder releases at waiter start + timeout + margin
	Try       bool   `json:"try"`        // holder acquired by TryLock
}

func genWindow(t *rapid.T) WindowCase {
	c := WindowCase{Backend: "etcd"}
	if vt.Chance(t, "redis", 25) {
		c.Backend = "redis"
	}
	c.TimeoutMs = rapid.SampledFrom([]int{1200, 1500, 2300, 3400, 1001, 1900, 2000, 1000, 2600}).Draw(t, "timeout")
	c.MarginMs = rapid.IntRange(250, 700).Draw(t, "margin")
	c.Try = rapid.Bool().Draw(t, "try")
	return c
}

func runWindow(x *vt.Ctx, c WindowCase) *vt.Finding {
	st := storeFor(c.Backend)
	key := freshKey("c18w")
	ctx, cancel := context.WithTimeout(context.Background(), 60*time.Second)
	defer cancel()
	holder, err := st.CreateLock(key, 30*time.Second)
	if err != nil {
		panic(fmt.Sprintf("harness: create lock: %v", err))
	}
	if c.Try {
		_, err = holder.TryLock(ctx)
	} else {
		_, err = holder.Lock(ctx)
	}
	if err != nil {
		panic(fmt.Sprintf("harness: holder could not take a fresh lock: %v", err))
	}
	waiter, err := st.CreateLock(key, ms(c.TimeoutMs))
	if err != nil {
		_ = holder.Unlock(ctx)
		panic(fmt.Sprintf("harness: create lock: %v", err))
	}
	type res struct {
		err error
		at  time.Time
	}
	done := make(chan res, 1)
	t0 := time.Now()
	go func() {
		_, err := waiter.Lock(ctx)
		done <- res{err, time.Now()}
	}()
	// hold until the waiter's timeout has certainly expired
	time.Sleep(time.Until(t0.Add(ms(c.TimeoutMs + c.MarginMs))))
	released := time.Now()
	_ = holder.Unlock(ctx)
	r := <-done
	_ = waiter.Unlock(ctx)
	x.Label("backend=%s", c.Backend)
	if c.TimeoutMs%1000 != 0 {
		x.Label("fractional-second-timeout")
	}
	x.NonTrivial()
	if r.err == nil {
		return vt.Failf(c.Backend+":waiter-acquired-after-its-timeout", "waiter with wait timeout %d ms started at t0, the lock was held until t0+%d ms, yet the waiter acquired it (returned at t0+%d ms): it waited beyond its timeout",
			c.TimeoutMs, released.Sub(t0).Milliseconds(), r.at.Sub(t0).Milliseconds())
	}
	return nil
}

var propC18Window = vt.Prop[WindowCase]{ID: "C18", Test: "TestC18Window", Gen: genWindow, Run: runWindow}

func TestC18Window(t *testing.T) { useT(t); propC18Window.Check(t) }
