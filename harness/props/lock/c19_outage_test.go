package lock

import (
	"context"
	"fmt"
	"testing"
	"time"

	"pgregory.net/rapid"

	"github.com/projecteru2/core/store/etcdv3/embedded"

	"verif/internal/vt"
)

// C19 (outage): the holder loses its lock because the etcd server is unreachable for longer than
// the lease TTL (keepalives starve, the lease expires on the server). After the server is back
// and a contender has acquired the lock, the old holder's context must be cancelled within one
// keepalive interval (+ generous slack, retried once). Lease revocation (TestC19Etcd) does not
// exercise this path: here the client learns about the loss only from its failing keepalives.

type OutageCase struct {
	TTLSec     int    `json:"ttl_s"`      // lock ttl == session TTL (1..2 s)
	HolderOp   string `json:"holder_op"`  // "lock" | "try"
	OutageX10  int    `json:"outage_x10"` // outage length = TTL * OutageX10/10 (> TTL)
	Contenders int    `json:"contenders"`
}

func genOutage(t *rapid.T) OutageCase {
	return OutageCase{
		TTLSec:     rapid.IntRange(1, 2).Draw(t, "ttl"),
		HolderOp:   rapid.SampledFrom([]string{"lock", "try"}).Draw(t, "holderOp"),
		OutageX10:  rapid.IntRange(22, 30).Draw(t, "outage"),
		Contenders: rapid.IntRange(1, 2).Draw(t, "contenders"),
	}
}

// softTB turns the test-bed's own t.Fatalf (e.g. "listen failed on grpc socket ... address already in
// use" when the stopped member's socket is still around) into an error: a member that cannot be
// restarted is a broken test bed, not a failed property.
type softTB struct{ testing.TB }

type softFail string

func (s softTB) Fatalf(format string, a ...any) { panic(softFail(fmt.Sprintf(format, a...))) }
func (s softTB) Fatal(a ...any)                 { panic(softFail(fmt.Sprint(a...))) }
func (s softTB) FailNow()                       { panic(softFail("FailNow")) }
func (s softTB) Errorf(format string, a ...any) { s.TB.Logf("test bed: "+format, a...) }
func (s softTB) Error(a ...any)                 { s.TB.Log(append([]any{"test bed:"}, a...)...) }

func restartSoftly[T any](restart func(T) error) (err error) {
	defer func() {
		if r := recover(); r != nil {
			if sf, ok := r.(softFail); ok {
				err = fmt.Errorf("%s", string(sf))
				return
			}
			panic(r)
		}
	}()
	var tb any = softTB{curT}
	return restart(tb.(T))
}

var outageBroken bool // the embedded member could not be restarted: later cases are skipped, not failed

func runOutage(x *vt.Ctx, c OutageCase) *vt.Finding {
	if outageBroken {
		x.Label("skipped:etcd-member-not-restartable")
		return nil
	}
	fx := getEtcd()
	cluster := embedded.NewCluster(curT, etcdPrefix)
	key := freshKey("c19o")
	ttl := time.Duration(c.TTLSec) * time.Second
	ctx, cancel := context.WithTimeout(context.Background(), 120*time.Second)
	defer cancel()
	holder, err := fx.store.CreateLock(key, ttl)
	if err != nil {
		panic(fmt.Sprintf("harness: create lock: %v", err))
	}
	var hctx context.Context
	if c.HolderOp == "try" {
		hctx, err = holder.TryLock(ctx)
	} else {
		hctx, err = holder.Lock(ctx)
	}
	if err != nil {
		x.Label("skipped:holder-could-not-lock")
		return nil
	}
	// server outage longer than the TTL
	cluster.Members[0].Stop(curT)
	time.Sleep(ttl * time.Duration(c.OutageX10) / 10)
	var rerr error
	for i := 0; i < 3; i++ {
		if rerr = restartSoftly(cluster.Members[0].Restart); rerr == nil {
			break
		}
		time.Sleep(time.Second)
	}
	if rerr != nil {
		outageBroken = true
		x.Label("skipped:etcd-member-not-restartable")
		return nil
	}
	// a contender acquires: proof that the old holder has lost the lock
	acquired := time.Time{}
	for i := 0; i < c.Contenders; i++ {
		// after a member restart the shared client occasionally never reconnects (CreateLock then
		// blocks in a lease grant without deadline): that is the test bed, not the lock — skip
		type res struct{ ok, locked bool }
		done := make(chan res, 1)
		go func() {
			cl, err := fx.store.CreateLock(key, 10*time.Second)
			if err != nil {
				time.Sleep(300 * time.Millisecond)
				if cl, err = fx.store.CreateLock(key, 10*time.Second); err != nil {
					done <- res{}
					return
				}
			}
			if _, err := cl.Lock(ctx); err != nil {
				done <- res{ok: true}
				return
			}
			done <- res{ok: true, locked: true}
			go func() { _ = cl.Unlock(ctx) }()
		}()
		select {
		case r := <-done:
			if !r.ok {
				x.Label("contender-could-not-create-lock")
				return nil
			}
			if !r.locked {
				x.Label("contender-did-not-acquire")
				return nil // the lease had not expired after all (inconclusive scenario, not a violation)
			}
		case <-time.After(25 * time.Second):
			outageBroken = true
			x.Label("skipped:client-did-not-reconnect")
			return nil
		}
		if acquired.IsZero() {
			acquired = time.Now()
		}
	}
	x.NonTrivial()
	x.Label("holder=%s ttl=%ds", c.HolderOp, c.TTLSec)
	bound := 20 * max(ttl/3, 500*time.Millisecond)
	select {
	case <-hctx.Done():
		x.Label("notified")
	case <-time.After(time.Until(acquired.Add(bound))):
		go func() { _ = holder.Unlock(ctx) }()
		return vt.Failf("etcd:outage:holder-context-still-live-after-takeover:holder="+c.HolderOp, "the server was unreachable for %.1f x TTL, a contender acquired the lock %v ago, yet the old holder's context is still live", float64(c.OutageX10)/10, time.Since(acquired).Round(time.Millisecond))
	}
	go func() { _ = holder.Unlock(ctx) }()
	return nil
}

var propC19Outage = vt.Prop[OutageCase]{ID: "C19", Test: "TestC19EtcdOutage", Gen: genOutage, Run: runOutage,
	Retry: func(f *vt.Finding) bool { return true }}

func TestC19EtcdOutage(t *testing.T) { useT(t); propC19Outage.Check(t) }
