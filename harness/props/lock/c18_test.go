// C18 — distributed locks are mutually exclusive.
//
// A Case is a script: several contenders, each a list of attempts (lock with wait timeout /
// try-lock, critical section of hold_ms, unlock) with start offsets and delays; run() executes it
// with one goroutine per contender against one fresh lock key, creating one lock object per
// attempt through Store.CreateLock exactly as cluster/calcium/lock.go:doLock does (failed attempt
// -> Unlock as rollback; successful attempt -> Unlock after the critical section).
//
// Oracle (history invariants, independent of the lock implementations):
//
//	(a) a holder count kept by the harness — incremented right after Lock/TryLock returned
//	    success, decremented right before Unlock is called — never exceeds 1;
//	(b) a TryLock issued while the harness KNOWS the lock is held for the entire duration of
//	    the call (the registered holder is "pinned": it does not start to release before the
//	    TryLock has returned) must fail — no clock involved; "without waiting": such a pinned
//	    TryLock on a lock object with wait timeout >= 3 s must return within 1.5 s (normal: a
//	    few ms; a TryLock that waits can only return through its own timeout because the holder
//	    is pinned) — real-time upper bound with >= 30x slack, retried before it counts;
//	(c) a Lock that fails (and whose caller did not cancel) waited at least its wait timeout
//	    (lower bound only: load cannot falsify it);
//	(d) a Lock whose wait timeout is >= 20x the total time the script can keep the lock busy
//	    must acquire (upper bound with >= 20x slack, retry-then-violate).
package lock

import (
	"context"
	"fmt"
	"sort"
	"strings"
	"sync"
	"testing"
	"time"

	"pgregory.net/rapid"

	"verif/internal/stats"
	"verif/internal/vt"
)

// Step is one lock attempt of a contender.
type Step struct {
	Op        string `json:"op"`                  // "lock" | "try"
	PreMs     int    `json:"pre_ms"`              // delay before the attempt
	TimeoutMs int    `json:"timeout_ms"`          // ttl given to CreateLock (== wait timeout of Lock)
	HoldMs    int    `json:"hold_ms"`             // length of the critical section if acquired
	CancelMs  int    `json:"cancel_ms,omitempty"` // >0: the caller's context is cancelled after this long (lock only)
}

// Contender is one goroutine of the script.
type Contender struct {
	StartMs int    `json:"start_ms"`
	Steps   []Step `json:"steps"`
}

// Case is the whole script.
type Case struct {
	Backend    string      `json:"backend"` // "etcd" | "redis"
	Contenders []Contender `json:"contenders"`
}

const (
	tryMinTimeoutMs  = 3000 // try-lock objects get at least this wait timeout, so that "waited" is observable
	tryReturnBoundMs = 1500 // a pinned try-lock must have returned by then (normal latency: 1-5 ms; under load < 50 ms)
	slackFactor      = 20
	lowerBoundEps    = time.Millisecond
)

// perStepOverheadMs bounds (very generously) the time one attempt can keep the lock busy beyond
// its critical section: hand-off latency, and for Redis the fixed 500 ms retry back-off of
// lock/redis/lock.go (a released lock is noticed by a waiter at its next poll).
func perStepOverheadMs(backend string) int {
	if backend == "redis" {
		return 550
	}
	return 50
}

// busyMs is an upper estimate of the time the whole script can keep the lock busy.
func (c Case) busyMs() int {
	b := 0
	for _, ct := range c.Contenders {
		b += ct.StartMs
		for _, s := range ct.Steps {
			b += s.PreMs + s.HoldMs + perStepOverheadMs(c.Backend)
		}
	}
	return b
}

func (c Case) mustAcquire(s Step) bool {
	return s.Op == "lock" && s.CancelMs == 0 && s.TimeoutMs >= slackFactor*c.busyMs()
}

// valid says whether a (replayed) case respects the preconditions of the property.
func (c Case) valid() bool {
	if c.Backend != "etcd" && c.Backend != "redis" {
		return false
	}
	if len(c.Contenders) < 1 || len(c.Contenders) > 8 {
		return false
	}
	for _, ct := range c.Contenders {
		if ct.StartMs < 0 || ct.StartMs > 10000 || len(ct.Steps) > 6 {
			return false
		}
		for _, s := range ct.Steps {
			if (s.Op != "lock" && s.Op != "try") || s.PreMs < 0 || s.PreMs > 10000 || s.HoldMs < 0 || s.HoldMs > 10000 ||
				s.TimeoutMs < 1 || s.TimeoutMs > 600000 || s.CancelMs < 0 {
				return false
			}
			// holders stay within the lease: a Redis lock lives for ttl (== timeout) and is never refreshed
			if c.Backend == "redis" && 2*s.HoldMs > s.TimeoutMs {
				return false
			}
			// etcd: the session TTL is int(ttl seconds) (0 -> the client default of 60 s), kept alive
			// by the client. A 1-2 s lease depends on keepalives arriving in time on a loaded machine,
			// which is not what this property is about: keep away from it.
			if c.Backend == "etcd" && s.TimeoutMs >= 1000 && s.TimeoutMs < 3000 {
				return false
			}
		}
	}
	return true
}

func uni(t *rapid.T, label string, lo, hi int) int {
	if hi <= lo {
		return lo
	}
	return lo + vt.Pct(t, label)*(hi-lo)/99
}

func genC18(backend string) func(t *rapid.T) Case {
	return func(t *rapid.T) Case {
		c := Case{Backend: backend}
		maxC, maxSteps, maxStart, maxPre, maxHold, maxCancel := 5, 3, 30, 20, 60, 100
		if backend == "redis" {
			maxC, maxSteps, maxStart, maxPre, maxHold, maxCancel = 3, 2, 200, 100, 700, 800
		}
		nc := rapid.IntRange(2, maxC).Draw(t, "contenders")
		for i := 0; i < nc; i++ {
			var ct Contender
			if !vt.Chance(t, "start0", 35) {
				ct.StartMs = uni(t, "start", 0, maxStart)
			}
			ns := rapid.IntRange(1, maxSteps).Draw(t, "steps")
			for j := 0; j < ns; j++ {
				var s Step
				s.Op = "lock"
				if vt.Chance(t, "try", 30) {
					s.Op = "try"
				}
				if !vt.Chance(t, "pre0", 40) {
					s.PreMs = uni(t, "pre", 0, maxPre)
				}
				s.HoldMs = uni(t, "hold", 0, maxHold)
				if s.Op == "lock" && vt.Chance(t, "cancel", 10) {
					s.CancelMs = uni(t, "cancelMs", 1, maxCancel)
				}
				ct.Steps = append(ct.Steps, s)
			}
			c.Contenders = append(c.Contenders, ct)
		}
		generousMs := max(slackFactor*c.busyMs(), 3000)
		for i := range c.Contenders {
			for j := range c.Contenders[i].Steps {
				s := &c.Contenders[i].Steps[j]
				switch {
				case s.Op == "try":
					s.TimeoutMs = tryMinTimeoutMs + uni(t, "tryTimeout", 0, 2000)
				case vt.Chance(t, "generous", 50):
					s.TimeoutMs = generousMs + uni(t, "extra", 0, 1000)
				case backend == "redis":
					// around the 500 ms back-off: one, two or three obtain attempts
					s.TimeoutMs = uni(t, "short", max(100, 2*s.HoldMs), max(1300, 2*s.HoldMs))
				default:
					s.TimeoutMs = uni(t, "short", 5, 150)
				}
			}
		}
		return c
	}
}

// ---------------------------------------------------------------------------------------

type holderRec struct {
	who  string
	pins int
}

type attempt struct {
	contender int
	from, to  time.Duration
}

type exec struct {
	c     Case
	store lockStore
	key   string
	t0    time.Time

	mu       sync.Mutex
	cond     *sync.Cond
	holders  []*holderRec
	hard     []*vt.Finding // definite violations
	soft     []*vt.Finding // real-time upper bounds exceeded: retried first
	events   []string
	labels   map[string]int
	attempts []attempt
	maxHeld  int
}

func (e *exec) logf(format string, a ...any) {
	// caller holds e.mu
	if len(e.events) < 400 {
		e.events = append(e.events, fmt.Sprintf("%7.1fms ", float64(time.Since(e.t0).Microseconds())/1000)+fmt.Sprintf(format, a...))
	}
}

func (e *exec) event(format string, a ...any) {
	e.mu.Lock()
	e.logf(format, a...)
	e.mu.Unlock()
}

func (e *exec) label(l string) { e.mu.Lock(); e.labels[l]++; e.mu.Unlock() }

// enter registers who as a holder (called right after a successful Lock/TryLock).
func (e *exec) enter(who, how string) *holderRec {
	e.mu.Lock()
	defer e.mu.Unlock()
	rec := &holderRec{who: who}
	e.holders = append(e.holders, rec)
	e.logf("%s ACQUIRED (%s), holders now %d", who, how, len(e.holders))
	if len(e.holders) > e.maxHeld {
		e.maxHeld = len(e.holders)
	}
	if len(e.holders) > 1 {
		var names []string
		for _, h := range e.holders {
			names = append(names, h.who)
		}
		e.hard = append(e.hard, vt.Failf(e.c.Backend+":two-holders:"+how,
			"%d callers hold the lock at the same time: %s (the last one got it through %s); expected at most one holder",
			len(e.holders), strings.Join(names, ", "), how))
	}
	return rec
}

// leave waits until no try-lock probe pins this holder, then deregisters it (called right
// before Unlock).
func (e *exec) leave(rec *holderRec) {
	e.mu.Lock()
	defer e.mu.Unlock()
	for rec.pins > 0 {
		e.cond.Wait()
	}
	for i, h := range e.holders {
		if h == rec {
			e.holders = append(e.holders[:i], e.holders[i+1:]...)
			break
		}
	}
	e.logf("%s releasing, holders now %d", rec.who, len(e.holders))
}

// pin marks every currently registered holder as "must keep holding" and returns them.
func (e *exec) pin() []*holderRec {
	e.mu.Lock()
	defer e.mu.Unlock()
	out := append([]*holderRec(nil), e.holders...)
	for _, h := range out {
		h.pins++
	}
	return out
}

func (e *exec) unpin(recs []*holderRec) {
	e.mu.Lock()
	for _, h := range recs {
		h.pins--
	}
	e.cond.Broadcast()
	e.mu.Unlock()
}

func (e *exec) heldNow() bool { e.mu.Lock(); defer e.mu.Unlock(); return len(e.holders) > 0 }

func errClass(err error) string {
	if err == nil {
		return "nil"
	}
	s := err.Error()
	switch {
	case strings.Contains(s, "deadline exceeded"):
		return "deadline-exceeded"
	case strings.Contains(s, "context canceled"):
		return "context-canceled"
	case strings.Contains(s, "not obtained"):
		return "not-obtained"
	case strings.Contains(s, "Locked by another session"):
		return "locked-by-another-session"
	case strings.Contains(s, "session is expired"):
		return "session-expired"
	}
	if len(s) > 40 {
		s = s[:40]
	}
	return s
}

func (e *exec) contender(ctx context.Context, idx int, ct Contender) {
	sleepMs(ct.StartMs)
	for si, s := range ct.Steps {
		who := fmt.Sprintf("c%d.%d", idx, si)
		sleepMs(s.PreMs)
		lk, err := e.store.CreateLock(e.key, ms(s.TimeoutMs))
		if err != nil {
			panic(fmt.Sprintf("harness: CreateLock(%s, %dms): %v", e.key, s.TimeoutMs, err))
		}
		parent, cancel := context.WithCancel(ctx)
		var rec *holderRec
		from := time.Since(e.t0)
		switch s.Op {
		case "try":
			pinned := e.pin()
			e.event("%s TryLock (ttl %dms), %d holder(s) pinned", who, s.TimeoutMs, len(pinned))
			t := time.Now()
			_, err := lk.TryLock(parent)
			el := time.Since(t)
			if err == nil {
				rec = e.enter(who, "TryLock")
			}
			e.unpin(pinned)
			switch {
			case err == nil && len(pinned) > 0:
				e.mu.Lock()
				e.hard = append(e.hard, vt.Failf(e.c.Backend+":try-lock-succeeded-on-held-lock",
					"%s: TryLock succeeded although %s held the lock during the entire call; expected failure", who, pinned[0].who))
				e.mu.Unlock()
				e.label("try:acquired-while-held")
			case err == nil:
				e.label("try:acquired")
			case len(pinned) > 0:
				e.label("try:failed-on-held-lock")
				e.event("%s TryLock failed after %v: %v", who, el, err)
				if s.TimeoutMs >= tryMinTimeoutMs && el > ms(tryReturnBoundMs) {
					e.mu.Lock()
					e.soft = append(e.soft, vt.Failf(e.c.Backend+":try-lock-waited-on-held-lock",
						"%s: TryLock on a lock held by %s returned only after %v (err: %v); expected failure without waiting (bound %d ms)",
						who, pinned[0].who, el, err, tryReturnBoundMs))
					e.mu.Unlock()
				}
			default:
				e.label("try:failed-no-known-holder")
				e.event("%s TryLock failed after %v: %v", who, el, err)
			}
		default:
			held := e.heldNow()
			e.event("%s Lock (timeout %dms, cancel %dms), held at call: %v", who, s.TimeoutMs, s.CancelMs, held)
			t := time.Now() // taken before the cancel timer starts: the lower bound below is measured from here
			var tm *time.Timer
			if s.CancelMs > 0 {
				tm = time.AfterFunc(ms(s.CancelMs), cancel)
			}
			_, err := lk.Lock(parent)
			el := time.Since(t)
			if tm != nil {
				tm.Stop()
			}
			if err == nil {
				rec = e.enter(who, "Lock")
				if held {
					e.label("lock:acquired-after-wait")
				} else {
					e.label("lock:acquired")
				}
				break
			}
			e.event("%s Lock failed after %v: %v", who, el, err)
			minWait := ms(s.TimeoutMs)
			if s.CancelMs > 0 && ms(s.CancelMs) < minWait {
				minWait = ms(s.CancelMs)
				e.label("lock:failed-cancelled")
			} else {
				e.label("lock:failed-timeout")
			}
			if el < minWait-lowerBoundEps {
				e.mu.Lock()
				e.hard = append(e.hard, vt.Failf(e.c.Backend+":lock-gave-up-early:"+errClass(err),
					"%s: Lock with wait timeout %d ms (cancel %d ms) failed after only %v with %q; expected it to acquire or to wait for its timeout",
					who, s.TimeoutMs, s.CancelMs, el, err))
				e.mu.Unlock()
			} else if e.c.mustAcquire(s) {
				e.mu.Lock()
				e.soft = append(e.soft, vt.Failf(e.c.Backend+":waiter-never-acquired",
					"%s: Lock with wait timeout %d ms (>= %dx the %d ms the script can keep the lock busy) failed after %v with %q; expected it to acquire after the release",
					who, s.TimeoutMs, slackFactor, e.c.busyMs(), el, err))
				e.mu.Unlock()
			}
		}
		uctx, ucancel := context.WithTimeout(context.Background(), 30*time.Second)
		if rec != nil {
			sleepMs(s.HoldMs)
			e.leave(rec)
			if err := lk.Unlock(uctx); err != nil {
				e.event("%s Unlock error: %v", who, err)
				e.label("unlock-error-after-hold:" + errClass(err))
			}
		} else {
			_ = lk.Unlock(uctx) // rollback of a failed attempt, as doLock does
		}
		ucancel()
		e.mu.Lock()
		e.attempts = append(e.attempts, attempt{idx, from, time.Since(e.t0)})
		e.mu.Unlock()
		cancel()
	}
}

func executeC18(c Case) *exec {
	e := &exec{c: c, store: storeFor(c.Backend), key: freshKey("c18"), t0: time.Now(), labels: map[string]int{}}
	e.cond = sync.NewCond(&e.mu)
	ctx, cancel := context.WithCancel(context.Background())
	defer cancel() // ends the watcher goroutines etcdlock leaves behind after a release
	var wg sync.WaitGroup
	for i, ct := range c.Contenders {
		wg.Add(1)
		go func(i int, ct Contender) {
			defer wg.Done()
			e.contender(ctx, i, ct)
		}(i, ct)
	}
	wg.Wait()
	return e
}

// overlapping counts attempts that overlapped in real time with an attempt of another contender.
func (e *exec) overlapping() int {
	n := 0
	for i, a := range e.attempts {
		for j, b := range e.attempts {
			if i != j && a.contender != b.contender && a.from < b.to && b.from < a.to {
				n++
				break
			}
		}
	}
	return n
}

func runC18(x *vt.Ctx, c Case) *vt.Finding {
	if !c.valid() {
		x.Label("invalid-case-skipped")
		return nil
	}
	var last *vt.Finding
	for round := 0; round < 2; round++ {
		e := executeC18(c)
		if round == 0 {
			x.Label("backend=%s", c.Backend)
			x.Label("contenders=%d", len(c.Contenders))
			keys := make([]string, 0, len(e.labels))
			for k := range e.labels {
				keys = append(keys, k)
			}
			sort.Strings(keys)
			for _, k := range keys {
				x.Label("has:%s", k)
			}
			ov := e.overlapping()
			switch {
			case ov == 0:
				x.Label("overlapping-attempts=0")
			case ov <= 3:
				x.Label("overlapping-attempts=2-3")
			default:
				x.Label("overlapping-attempts>=4")
			}
			if ov >= 2 {
				x.NonTrivial()
			}
			must := 0
			for _, ct := range c.Contenders {
				for _, s := range ct.Steps {
					if c.mustAcquire(s) {
						must++
					}
				}
			}
			if must > 0 {
				x.Label("has:must-acquire-waiter")
			}
		}
		if len(e.hard) > 0 || len(e.soft) > 0 {
			for _, l := range e.events {
				x.Logf("%s", l)
			}
		}
		if len(e.hard) > 0 {
			return e.hard[0]
		}
		if len(e.soft) == 0 {
			return nil
		}
		if last != nil && last.Key == e.soft[0].Key {
			return e.soft[0]
		}
		last = e.soft[0]
		stats.Inconclusive()
		x.Logf("---- real-time bound exceeded once (%s), running the script again ----", last.Key)
	}
	// the second run exceeded a different bound than the first: still not reproduced
	return nil
}

var (
	propC18Etcd  = vt.Prop[Case]{ID: "C18", Test: "TestC18Etcd", Gen: genC18("etcd"), Run: runC18}
	propC18Redis = vt.Prop[Case]{ID: "C18", Test: "TestC18Redis", Gen: genC18("redis"), Run: runC18}
)

func TestC18Etcd(t *testing.T)  { useT(t); propC18Etcd.Check(t) }
func TestC18Redis(t *testing.T) { useT(t); propC18Redis.Check(t) }
