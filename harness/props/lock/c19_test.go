// C19 — a holder is told promptly when it loses its lock.
//
// Every case injects the loss of a held lock while other contenders wait for it:
//
//	etcd:  the holder's lease (found by reading the owner entry of the lock's queue through the
//	       raw client) is revoked on the server; the holder's client learns of it with its next
//	       keepalive (interval TTL/3; the etcd client sends keepalives on a 500 ms tick);
//	redis: the lock's TTL elapses — in real time (the harness sleeps past it) and in the server's
//	       time (miniredis.FastForward), so that an implementation based on either clock is fair game.
//
// Oracle: the context returned by Lock/TryLock is done (and reports an error) within
// slack x max(TTL/3, tick) of the loss, and therefore the time during which a waiter already holds
// the lock while the old holder's context is still live stays below the same bound. The bound is
// a real-time upper bound: 20x the nominal interval, a miss is retried once before it counts. A
// returned context that CAN never be cancelled (Done() == nil) is decided without any clock.
package lock

import (
	"context"
	"errors"
	"fmt"
	"sync"
	"testing"
	"time"

	"pgregory.net/rapid"

	coretypes "github.com/projecteru2/core/types"

	"verif/internal/stats"
	"verif/internal/vt"
)

// LossCase is the script of one lease-loss scenario.
type LossCase struct {
	Backend      string   `json:"backend"`       // "etcd" | "redis"
	TTLMs        int      `json:"ttl_ms"`        // ttl given to CreateLock for the holder
	HolderOp     string   `json:"holder_op"`     // "lock" | "try": how the holder acquired
	HolderQueued bool     `json:"holder_queued"` // etcd, lock: the holder first waits behind a predecessor that releases
	Waiters      []string `json:"waiters"`       // each "lock" (blocked in Lock) or "trypoll" (TryLock every 20 ms)
	FaultDelayMs int      `json:"fault_delay_ms"`
	// CtxOracleExcluded is set by the generator while known_findings.json lists the Redis lock
	// context as never cancelled: the case then only confirms that the loss is real.
	CtxOracleExcluded bool `json:"ctx_oracle_excluded,omitempty"`
}

const keyRedisNeverCancelled = "redis:lock-context-never-cancelled"

func (c LossCase) valid() bool {
	if c.HolderOp != "lock" && c.HolderOp != "try" {
		return false
	}
	if len(c.Waiters) < 1 || len(c.Waiters) > 4 || c.FaultDelayMs < 0 || c.FaultDelayMs > 10000 {
		return false
	}
	for _, w := range c.Waiters {
		if w != "lock" && w != "trypoll" {
			return false
		}
	}
	switch c.Backend {
	case "etcd":
		return c.TTLMs >= 1000 && c.TTLMs <= 10000 && c.TTLMs%1000 == 0 && !(c.HolderQueued && c.HolderOp != "lock")
	case "redis":
		return c.TTLMs >= 100 && c.TTLMs <= 5000 && !c.HolderQueued
	}
	return false
}

// interval is the nominal notification interval: one keepalive interval (TTL/3), but not less
// than the granularity the back end's client works with (etcd client: 500 ms send tick).
func (c LossCase) interval() time.Duration {
	iv := ms(c.TTLMs) / 3
	floor := 500 * time.Millisecond
	if c.Backend == "redis" {
		floor = 250 * time.Millisecond
	}
	if iv < floor {
		iv = floor
	}
	return iv
}

func (c LossCase) bound() time.Duration { return slackFactor * c.interval() }

func genC19(backend string) func(t *rapid.T) LossCase {
	return func(t *rapid.T) LossCase {
		c := LossCase{Backend: backend, HolderOp: "lock"}
		if vt.Chance(t, "holderTry", 40) {
			c.HolderOp = "try"
		}
		if backend == "etcd" {
			switch p := vt.Pct(t, "ttl"); {
			case p < 60:
				c.TTLMs = 1000
			case p < 85:
				c.TTLMs = 2000
			default:
				c.TTLMs = 3000
			}
			c.HolderQueued = c.HolderOp == "lock" && vt.Chance(t, "queued", 35)
			c.FaultDelayMs = uni(t, "faultDelay", 0, 600)
		} else {
			c.TTLMs = uni(t, "ttl", 200, 900)
			c.FaultDelayMs = uni(t, "faultDelay", 0, 300)
			c.CtxOracleExcluded = vt.Exclude("C19", keyRedisNeverCancelled)
		}
		nw := 1
		if vt.Chance(t, "twoWaiters", 35) {
			nw = 2
		}
		for i := 0; i < nw; i++ {
			w := "lock"
			if vt.Chance(t, "trypoll", 35) {
				w = "trypoll"
			}
			c.Waiters = append(c.Waiters, w)
		}
		return c
	}
}

// lossObs is what one execution observed.
type lossObs struct {
	doneNil      bool          // the returned context can never be cancelled
	done         bool          // context done within the bound
	doneAfter    time.Duration // fault -> context done
	errAfterDone error
	wAcquired    bool
	wAfter       time.Duration // fault -> first waiter acquired (negative: before the fault)
	doneBefore   bool          // context was already done before the fault (not expected; reported as label)
	log          []string
}

type waiterSet struct {
	mu       sync.Mutex
	wg       sync.WaitGroup
	acquired []func()  // unlock functions of waiters that acquired
	firstAt  time.Time // first acquisition
	stop     chan struct{}
	got      chan struct{} // closed at first acquisition
}

func (ws *waiterSet) markAcquired(unlock func()) {
	ws.mu.Lock()
	defer ws.mu.Unlock()
	ws.acquired = append(ws.acquired, unlock)
	if ws.firstAt.IsZero() {
		ws.firstAt = time.Now()
		close(ws.got)
	}
}

func unlockBG(lk interface{ Unlock(context.Context) error }) {
	uctx, cancel := context.WithTimeout(context.Background(), 30*time.Second)
	_ = lk.Unlock(uctx)
	cancel()
}

// startWaiters launches the contenders that wait for the lock; started is signalled once per
// waiter right before it first asks for the lock.
func startWaiters(ctx context.Context, st lockStore, key string, c LossCase, waiterTTL time.Duration) (*waiterSet, chan struct{}) {
	ws := &waiterSet{stop: make(chan struct{}), got: make(chan struct{})}
	started := make(chan struct{}, len(c.Waiters))
	for _, kind := range c.Waiters {
		ws.wg.Add(1)
		go func(kind string) {
			defer ws.wg.Done()
			if kind == "lock" {
				lk, err := st.CreateLock(key, waiterTTL)
				if err != nil {
					panic("harness: CreateLock for waiter: " + err.Error())
				}
				started <- struct{}{}
				if _, err := lk.Lock(ctx); err != nil {
					unlockBG(lk)
					return
				}
				ws.markAcquired(func() { unlockBG(lk) })
				return
			}
			first := true
			for {
				lk, err := st.CreateLock(key, waiterTTL)
				if err != nil {
					panic("harness: CreateLock for try-lock poller: " + err.Error())
				}
				if first {
					started <- struct{}{}
					first = false
				}
				if _, err := lk.TryLock(ctx); err == nil {
					ws.markAcquired(func() { unlockBG(lk) })
					return
				}
				unlockBG(lk)
				select {
				case <-ws.stop:
					return
				case <-ctx.Done():
					return
				case <-time.After(20 * time.Millisecond):
				}
			}
		}(kind)
	}
	return ws, started
}

// finish ends all waiters and releases what they hold.
func (ws *waiterSet) finish(cancel context.CancelFunc) {
	close(ws.stop)
	// a waiter blocked behind another waiter gets the lock when that one releases: release in rounds
	deadline := time.Now().Add(5 * time.Second)
	released := 0
	donec := make(chan struct{})
	go func() { ws.wg.Wait(); close(donec) }()
	for {
		ws.mu.Lock()
		todo := ws.acquired[released:]
		released = len(ws.acquired)
		ws.mu.Unlock()
		for _, u := range todo {
			u()
		}
		select {
		case <-donec:
			ws.mu.Lock()
			todo := ws.acquired[released:]
			ws.mu.Unlock()
			for _, u := range todo {
				u()
			}
			cancel()
			return
		case <-time.After(10 * time.Millisecond):
		}
		if time.Now().After(deadline) {
			cancel() // blocked Lock calls return with an error and roll back
			deadline = time.Now().Add(time.Hour)
		}
	}
}

func executeC19(c LossCase) *lossObs {
	o := &lossObs{}
	logf := func(format string, a ...any) { o.log = append(o.log, fmt.Sprintf(format, a...)) }
	st := storeFor(c.Backend)
	key := freshKey("c19")
	ctx, cancel := context.WithCancel(context.Background())
	bound := c.bound()
	waiterTTL := bound + 30*time.Second // waiters never give up (nor lose their own lease) during a case

	// ---- the holder acquires
	h, err := st.CreateLock(key, ms(c.TTLMs))
	if err != nil {
		panic("harness: CreateLock for holder: " + err.Error())
	}
	var hctx context.Context
	switch {
	case c.HolderQueued:
		f := getEtcd()
		p, err := st.CreateLock(key, 30*time.Second)
		if err != nil {
			panic("harness: CreateLock for predecessor: " + err.Error())
		}
		if _, err := p.Lock(ctx); err != nil {
			panic("harness: predecessor could not lock a fresh key: " + err.Error())
		}
		hdone := make(chan error, 1)
		go func() {
			var err error
			hctx, err = h.Lock(ctx)
			hdone <- err
		}()
		waitQueue(ctx, f, key, 2)
		unlockBG(p)
		if err := <-hdone; err != nil {
			panic("harness: holder could not lock after its predecessor released: " + err.Error())
		}
	case c.HolderOp == "try":
		hctx, err = h.TryLock(ctx)
	default:
		hctx, err = h.Lock(ctx)
	}
	if err != nil {
		panic("harness: holder could not acquire a fresh key: " + err.Error())
	}
	tAcq := time.Now()

	// ---- contenders wait
	ws, started := startWaiters(ctx, st, key, c, waiterTTL)
	nLock := 0
	for _, w := range c.Waiters {
		<-started
		if w == "lock" {
			nLock++
		}
	}
	if c.Backend == "etcd" && nLock > 0 {
		waitQueue(ctx, getEtcd(), key, 1+nLock)
	}
	sleepMs(c.FaultDelayMs)
	select {
	case <-ws.got:
		logf("a waiter acquired BEFORE the fault (mutual exclusion, C18, is broken)")
	default:
	}
	if hctx.Err() != nil {
		o.doneBefore = true
		logf("holder context already done before the fault: %v", hctx.Err())
	}

	// ---- the fault
	var tFault time.Time
	if c.Backend == "etcd" {
		f := getEtcd()
		q, err := etcdQueue(ctx, f.raw, key)
		if err != nil || len(q) == 0 {
			panic(fmt.Sprintf("harness: cannot read the lock queue: %v (%d entries)", err, len(q)))
		}
		tFault = time.Now()
		if _, err := f.raw.Revoke(ctx, q[0].Lease); err != nil {
			logf("revoke of lease %x: %v (already gone?)", q[0].Lease, err)
		} else {
			logf("revoked lease %x of owner entry %s, %d entries queued", q[0].Lease, q[0].Key, len(q))
		}
	} else {
		f := getRedis()
		if d := time.Until(tAcq.Add(ms(c.TTLMs) + 5*time.Millisecond)); d > 0 {
			time.Sleep(d)
		}
		tFault = time.Now()
		f.mr.FastForward(ms(c.TTLMs) + time.Millisecond)
		logf("TTL %d ms elapsed in real time and in redis time", c.TTLMs)
	}

	// ---- observe
	deadline := time.NewTimer(bound)
	defer deadline.Stop()
	if hctx.Done() == nil {
		o.doneNil = true
		logf("the returned context has no Done channel: it can never be cancelled")
	} else if !c.CtxOracleExcluded {
		select {
		case <-hctx.Done():
			o.done = true
			o.doneAfter = time.Since(tFault)
			o.errAfterDone = hctx.Err()
			logf("holder context done %v after the fault: %v", o.doneAfter, o.errAfterDone)
		case <-deadline.C:
			logf("holder context still live %v after the fault", bound)
		}
	}
	select {
	case <-ws.got:
		o.wAcquired = true
	default:
		select {
		case <-ws.got:
			o.wAcquired = true
		case <-time.After(time.Until(tFault.Add(bound))):
		}
	}
	if o.wAcquired {
		ws.mu.Lock()
		o.wAfter = ws.firstAt.Sub(tFault)
		ws.mu.Unlock()
		logf("first waiter acquired %v after the fault", o.wAfter)
	} else {
		logf("no waiter acquired within %v of the fault", bound)
	}

	// ---- clean up
	unlockBG(h) // a no-op for a lost lock; lets the waiters through if the lock was not lost after all
	ws.finish(cancel)
	return o
}

// waitQueue blocks until the etcd queue of the lock has at least n entries (the harness then
// knows that the contenders behind the holder are waiting).
func waitQueue(ctx context.Context, f *etcdFixture, key string, n int) {
	deadline := time.Now().Add(30 * time.Second)
	for {
		q, err := etcdQueue(ctx, f.raw, key)
		if err == nil && len(q) >= n {
			return
		}
		if time.Now().After(deadline) {
			panic(fmt.Sprintf("harness: lock queue of %s did not reach %d entries in 30 s (err %v)", key, n, err))
		}
		time.Sleep(3 * time.Millisecond)
	}
}

func runC19(x *vt.Ctx, c LossCase) *vt.Finding {
	if !c.valid() {
		x.Label("invalid-case-skipped")
		return nil
	}
	x.NonTrivial() // every case injects a loss while a contender waits
	x.Label("backend=%s", c.Backend)
	x.Label("holder=%s%s", c.HolderOp, map[bool]string{true: "+queued", false: ""}[c.HolderQueued])
	x.Label("ttl=%dms", c.TTLMs/100*100)
	for _, w := range c.Waiters {
		x.Label("waiter=%s", w)
	}
	var last *vt.Finding
	for round := 0; round < 2; round++ {
		o := executeC19(c)
		var f *vt.Finding
		hard := false
		iv, bound := c.interval(), c.bound()
		switch {
		case o.doneNil:
			if c.CtxOracleExcluded {
				x.Label("redis:ctx-oracle-excluded(known finding)")
				break
			}
			hard = true
			f = vt.Failf(c.Backend+":lock-context-never-cancelled",
				"the context returned by %s has no Done channel (it is context.TODO/Background): after the lock's TTL of %d ms elapsed (waiter acquired: %v) the holder can never be told; expected the context to be cancelled within one interval",
				c.HolderOp, c.TTLMs, o.wAcquired)
		case c.CtxOracleExcluded:
			x.Label("redis:ctx-oracle-excluded(known finding)")
		case !o.done:
			f = vt.Failf(fmt.Sprintf("%s:ctx-not-cancelled-after-loss:holder=%s", c.Backend, c.HolderOp),
				"holder (acquired by %s, ttl %d ms) lost its lock but its context was still live %v later (%dx the interval of %v); waiter acquired: %v after %v",
				c.HolderOp, c.TTLMs, bound, slackFactor, iv, o.wAcquired, o.wAfter)
		case o.errAfterDone == nil:
			hard = true
			f = vt.Failf(c.Backend+":ctx-done-without-error", "holder context is done but Err() is nil")
		}
		if f == nil && !o.wAcquired {
			f = vt.Failf(c.Backend+":waiter-not-acquired-after-loss",
				"the holder's lease was lost but no waiter (%v) acquired the lock within %v", c.Waiters, bound)
		}
		if round == 0 {
			if o.doneBefore {
				x.Label("ctx-done-before-fault")
			}
			if o.done {
				switch d := o.doneAfter; {
				case d <= iv:
					x.Label("notify-latency<=1x-interval")
				case d <= 2*iv:
					x.Label("notify-latency<=2x-interval")
				case d <= 5*iv:
					x.Label("notify-latency<=5x-interval")
				default:
					x.Label("notify-latency>5x-interval")
				}
				if errors.Is(o.errAfterDone, coretypes.ErrLockSessionDone) {
					x.Label("err=ErrLockSessionDone")
				} else {
					x.Label("err=other:%v", o.errAfterDone)
				}
				if o.wAcquired && o.wAfter >= 0 {
					if co := o.doneAfter - o.wAfter; co > 0 {
						x.Label("coexisted-with-new-holder")
					} else {
						x.Label("ctx-done-before-new-holder")
					}
				}
			}
			if o.wAcquired && o.wAfter < 0 {
				x.Label("waiter-acquired-before-fault")
			}
		}
		if f == nil {
			return nil
		}
		for _, l := range o.log {
			x.Logf("%s", l)
		}
		if hard || (last != nil && last.Key == f.Key) {
			return f
		}
		last = f
		stats.Inconclusive()
		x.Logf("---- real-time bound exceeded once (%s), running the case again ----", f.Key)
	}
	return nil
}

var (
	propC19Etcd  = vt.Prop[LossCase]{ID: "C19", Test: "TestC19Etcd", Gen: genC19("etcd"), Run: runC19}
	propC19Redis = vt.Prop[LossCase]{ID: "C19", Test: "TestC19Redis", Gen: genC19("redis"), Run: runC19}
)

func TestC19Etcd(t *testing.T)  { useT(t); propC19Etcd.Check(t) }
func TestC19Redis(t *testing.T) { useT(t); propC19Redis.Check(t) }
