package cluster

import (
	"context"
	"fmt"
	"io"
	"strconv"
	"strings"
	"testing"
	"time"

	"pgregory.net/rapid"

	pb "github.com/projecteru2/core/rpc/gen"
	"github.com/projecteru2/core/types"

	"verif/internal/stats"
	"verif/internal/vengine"
	"verif/internal/vt"
	"verif/internal/world"
)

// C30 — run-and-wait workloads are always cleaned up.

type LambdaCase struct {
	Count   int                    `json:"count"`
	Stdin   bool                   `json:"stdin,omitempty"`
	Scripts []vengine.LambdaScript `json:"scripts"`         // by creation ordinal
	Fault   *world.Fault           `json:"fault,omitempty"` // optional create-time failure of one instance
	Bind    bool                   `json:"bind,omitempty"`
	// CancelAfter > 0: the caller's context is cancelled after it has received that many messages
	// (client hang-up in the middle of the run); clean-up must happen all the same
	CancelAfter int `json:"cancel_after,omitempty"`
	// ViaRPC: the request goes through the gRPC front end (Vibranium.RunAndWait, synchronous form) over an
	// in-process connection; a caller that goes away is a client that cancels its stream
	ViaRPC bool `json:"via_rpc,omitempty"`
}

func genC30(t *rapid.T) LambdaCase {
	c := LambdaCase{Count: rapid.IntRange(1, 5).Draw(t, "count")}
	if vt.Chance(t, "stdin", 20) {
		c.Stdin = true
		c.Count = 1
	}
	c.Bind = rapid.Bool().Draw(t, "bind")
	for i := 0; i < c.Count; i++ {
		var s vengine.LambdaScript
		nOut := rapid.IntRange(0, 6).Draw(t, "nOut")
		for j := 0; j < nOut; j++ {
			s.Stdout = append(s.Stdout, fmt.Sprintf("o%d-%d-%s", i, j, strings.Repeat("x", rapid.IntRange(0, 40).Draw(t, "len"))))
		}
		nErr := rapid.IntRange(0, 3).Draw(t, "nErr")
		for j := 0; j < nErr; j++ {
			s.Stderr = append(s.Stderr, fmt.Sprintf("e%d-%d", i, j))
		}
		if vt.Chance(t, "manyLines", 10) {
			for j := 0; j < 300; j++ {
				s.Stdout = append(s.Stdout, fmt.Sprintf("bulk%d-%d-%s", i, j, strings.Repeat("y", j%50)))
			}
		}
		s.ExitCode = int64(rapid.SampledFrom([]int{0, 1, 2, 137, 255}).Draw(t, "exit"))
		switch k := vt.Pct(t, "engineFailure"); {
		case k < 10:
			s.LogsErr = true
		case k < 20:
			s.WaitErr = true
		case k < 28 && c.Stdin:
			s.AttachErr = true
		}
		c.Scripts = append(c.Scripts, s)
	}
	if vt.Chance(t, "callerGone", 25) {
		c.CancelAfter = rapid.IntRange(1, 6).Draw(t, "cancelAfter")
	}
	c.ViaRPC = vt.Chance(t, "viaRPC", 35)
	if vt.Chance(t, "createFault", 25) {
		name := rapid.SampledFrom([]string{"engine.VirtualizationStart@n0", "engine.VirtualizationCreate@n0", "store.AddWorkload", "engine.VirtualizationInspect@n0"}).Draw(t, "faultName")
		c.Fault = &world.Fault{Name: name, Occ: rapid.IntRange(1, c.Count).Draw(t, "faultOcc")}
	}
	return c
}

func ordinalOf(id string) int {
	n, err := strconv.ParseInt(strings.TrimLeft(id[1:], "0"), 16, 64)
	if err != nil {
		return -1
	}
	return int(n) - 1
}

func runC30(x *vt.Ctx, c LambdaCase) *vt.Finding {
	f, inconclusive := runC30once(x, c)
	if f != nil && inconclusive {
		stats.Inconclusive()
		f2, _ := runC30once(&vt.Ctx{}, c)
		if f2 == nil || f2.Key != f.Key {
			return nil
		}
	}
	return f
}

func runC30once(x *vt.Ctx, c LambdaCase) (*vt.Finding, bool) {
	setup := Setup{Pods: []string{"p0"}, Nodes: []world.NodeSpec{{Name: "n0", Pod: "p0", CPU: 4, Memory: 1024 * MiB}}}
	w, err := buildWorld(setup)
	if err != nil {
		return vt.Failf("harness:setup", "%v", err), false
	}
	defer w.Close()
	for i, s := range c.Scripts {
		w.Eng.Lambda[i] = s
	}
	w.IC.Disable(true)
	pre, _ := w.RawNodeRecord("n0")
	w.IC.Disable(false)
	d := world.DeploySpec{App: "a", Entry: "job", Pod: "p0", Strategy: "AUTO", Count: c.Count, Res: world.ResSpec{Bind: c.Bind, CPU: 0.5, Mem: 32 * MiB}}
	opts := d.Options()
	opts.OpenStdin = c.Stdin
	w.IC.Begin()
	if c.Fault != nil {
		w.IC.SetFault(c.Fault)
	}
	inCh := make(chan []byte)
	close(inCh)
	ctx, cancel := context.WithTimeout(w.Ctx, 120*time.Second)
	defer cancel()
	type res struct {
		ids  []string
		msgs []*types.AttachWorkloadMessage
		err  error
	}
	done := make(chan res, 1)
	go func() {
		var r res
		if c.ViaRPC {
			rpcf := w.NewRPC()
			defer rpcf.Close()
			st, err := rpcf.Client.RunAndWait(ctx)
			if err == nil {
				err = st.Send(&pb.RunAndWaitOptions{DeployOptions: &pb.DeployOptions{Name: d.App, Entrypoint: &pb.EntrypointOptions{Name: d.Entry, Commands: []string{"sleep", "1"}},
					Podname: d.Pod, Image: "img:1", Count: int32(d.Count), DeployStrategy: pb.DeployOptions_AUTO, OpenStdin: c.Stdin,
					Resources: map[string][]byte{"cpumem": []byte(fmt.Sprintf(`{"cpu-request":0.5,"cpu-limit":0.5,"memory-request":%d,"memory-limit":%d,"cpu-bind":%v}`, 32*MiB, 32*MiB, c.Bind))}}})
			}
			if err == nil {
				err = st.CloseSend()
			}
			if err != nil {
				r.err = err
				done <- r
				return
			}
			for {
				m, err := st.Recv()
				if err != nil {
					if err != io.EOF && len(r.msgs) == 0 && len(r.ids) == 0 {
						r.err = err
					}
					break
				}
				if m.StdStreamType == pb.StdStreamType_TYPEWORKLOADID {
					r.ids = append(r.ids, m.WorkloadId)
					continue
				}
				r.msgs = append(r.msgs, &types.AttachWorkloadMessage{WorkloadID: m.WorkloadId, Data: append([]byte(nil), m.Data...), StdStreamType: types.StdStreamType(m.StdStreamType)})
				if c.CancelAfter > 0 && len(r.msgs) == c.CancelAfter {
					cancel()
				}
			}
			done <- r
			return
		}
		var ch <-chan *types.AttachWorkloadMessage
		r.ids, ch, r.err = w.Cal.RunAndWait(ctx, opts, inCh)
		if r.err == nil {
			for m := range ch {
				cp := *m
				cp.Data = append([]byte(nil), m.Data...)
				r.msgs = append(r.msgs, &cp)
				if c.CancelAfter > 0 && len(r.msgs) == c.CancelAfter {
					cancel()
				}
			}
		}
		done <- r
	}()
	var r res
	select {
	case r = <-done:
	case <-time.After(30 * time.Second):
		return vt.Failf("stream-not-closed", "the output stream did not close within 30 s\n%s", histStr(w.IC.History())), true
	}
	w.IC.DisarmFault()
	x.Label("count=%d stdin=%v", c.Count, c.Stdin)
	x.Label("via-rpc=%v", c.ViaRPC)
	if r.err != nil {
		return vt.Failf("call-refused", "RunAndWait refused a valid request: %v", r.err), false
	}
	if !settle(w) {
		return vt.Failf("not-quiescent", "world not quiescent after the stream closed"), true
	}
	// per workload
	byID := map[string][]*types.AttachWorkloadMessage{}
	callerGone := c.CancelAfter > 0 && len(r.msgs) >= c.CancelAfter
	if callerGone {
		x.Label("caller-gone-mid-run")
	}
	for _, m := range r.msgs {
		if callerGone {
			break // the caller hung up: what it still receives is not judged, the clean-up is
		}
		byID[m.WorkloadID] = append(byID[m.WorkloadID], m)
	}
	engineFailure := false
	for id, ms := range byID {
		if id == "" {
			continue // create failures
		}
		ord := ordinalOf(id)
		if ord < 0 || ord >= len(c.Scripts) {
			// a container created for a failed instance shifts ordinals beyond the scripts: default script
			continue
		}
		s := c.Scripts[ord]
		last := ms[len(ms)-1]
		failing := s.LogsErr || s.WaitErr || (c.Stdin && s.AttachErr)
		if failing {
			engineFailure = true
			if last.StdStreamType != types.EruError {
				return vt.Failf("engine-failure-not-last", "workload %.8s: logs/attach/wait failed (%+v) but the last message is %q (%v)", id, s, last.Data, last.StdStreamType), false
			}
			continue
		}
		want := "[exitcode] " + strconv.FormatInt(s.ExitCode, 10)
		if string(last.Data) != want {
			return vt.Failf("exit-code-not-last", "workload %.8s: last message %q, want %q", id, last.Data, want), false
		}
		var gotOut, gotErr strings.Builder
		for _, m := range ms[:len(ms)-1] {
			switch m.StdStreamType {
			case types.Stdout:
				gotOut.Write(m.Data)
			case types.Stderr:
				gotErr.Write(m.Data)
			}
		}
		norm := func(s string) string { return strings.ReplaceAll(strings.ReplaceAll(s, "\n", ""), "\x00", "") }
		if norm(gotOut.String()) != strings.Join(s.Stdout, "") {
			g, wnt := norm(gotOut.String()), strings.Join(s.Stdout, "")
			d := firstDiff([]byte(g), []byte(wnt))
			return vt.Failf("stdout-lines-lost-or-garbled", "workload %.8s: stdout before the exit code has %d bytes, scripted %d; first difference at %d: got %q, scripted %q", id, len(g), len(wnt), d, clip(g, d), clip(wnt, d)), false
		}
		if norm(gotErr.String()) != strings.Join(s.Stderr, "") {
			return vt.Failf("stderr-lines-lost-or-garbled", "workload %.8s: stderr before the exit code %d bytes, scripted %d", id, len(norm(gotErr.String())), len(strings.Join(s.Stderr, ""))), false
		}
	}
	if c.Count >= 2 || engineFailure || (c.Fault != nil && w.IC.FaultFired()) {
		x.NonTrivial()
	}
	// clean-up: no record, no container, usage as before, WAL empty
	w.IC.Disable(true)
	defer w.IC.Disable(false)
	cls := "plain"
	if engineFailure {
		cls = "engine-failure"
	}
	if c.Fault != nil && w.IC.FaultFired() {
		cls = "create-failure:" + stepClass(c.Fault.Name)
	}
	if callerGone {
		cls += ":caller-gone"
	}
	var left []string
	for i := 0; i < 5; i++ { // the removal of lambda workloads runs in pool tasks: re-read before concluding
		settle(w)
		left = left[:0]
		if ws := w.AllWorkloads(); len(ws) > 0 {
			left = append(left, fmt.Sprintf("%d workload records", len(ws)))
		}
		if cs := w.Eng.Snapshot(); len(cs) > 0 {
			left = append(left, fmt.Sprintf("%d containers", len(cs)))
		}
		post, _ := w.RawNodeRecord("n0")
		if pre != nil && post != nil && jsonStr(pre.Usage) != jsonStr(post.Usage) {
			left = append(left, fmt.Sprintf("usage %s (before the call %s)", jsonStr(post.Usage), jsonStr(pre.Usage)))
		}
		if len(left) == 0 {
			break
		}
		time.Sleep(40 * time.Millisecond)
	}
	if len(left) > 0 {
		return vt.Failf("not-cleaned-up:"+cls, "after the stream closed: %s\n%s", strings.Join(left, "; "), histStr(w.IC.History())), false
	}
	evs, err := w.WALEvents()
	if err != nil {
		return vt.Failf("harness:wal-scan", "%v", err), false
	}
	if len(evs) > 0 {
		return vt.Failf("wal-not-committed:"+cls, "recovery log still holds %v after the stream closed\n%s", evs, histStr(w.IC.History())), false
	}
	return nil, false
}

var propC30 = vt.Prop[LambdaCase]{ID: "C30", Test: "TestC30", Gen: genC30, Run: runC30}

func TestC30(t *testing.T) { topT = t; propC30.Check(t) }

func clip(s string, at int) string {
	lo, hi := max(0, at-20), min(len(s), at+40)
	return s[lo:hi]
}
