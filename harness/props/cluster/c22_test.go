package cluster

import (
	"context"
	"fmt"
	"sort"
	"strings"
	"sync"
	"testing"
	"time"

	"pgregory.net/rapid"

	clientv3 "go.etcd.io/etcd/client/v3"

	"verif/internal/vt"
	"verif/internal/world"
)

// C22 — pods, nodes, node resources and workloads stay referentially consistent.
// 2-4 concurrent calls among add-pod / remove-pod / add-node / remove-node / create / remove on a
// small name universe; every non-blocking intercepted call parks at a gate and the generator
// (rapid draws) picks which parked call proceeds next, so the interleaving is owned by the
// harness at the granularity of store / plugin / engine / WAL calls. Oracle at the quiescent end.

type SchedCase struct {
	Setup Setup   `json:"setup"`
	Prep  []Op    `json:"prep,omitempty"`
	Calls []Op    `json:"calls"`
	Picks []uint8 `json:"picks"` // which parked call proceeds next (mod number parked)
	// Hold: calls of this class are released only when nothing else is parked (they are overtaken
	// by everything else) — widens the window after a check / before a write deterministically
	Hold string `json:"hold,omitempty"`
	// Tries > 1 (reproductions only): the scenario is repeated until it shows a violation, because
	// which call wins the first lock is the Go scheduler's choice
	Tries int `json:"tries,omitempty"`
	// BusyPool: while the calls run, every worker of calcium's (small) task pool is occupied by
	// other long-running requests, so the non-blocking pool refuses every task the calls submit.
	// Only with calls whose unchanged code does not depend on a pooled task (pod and node calls).
	BusyPool bool `json:"busy_pool,omitempty"`
}

func genC22(t *rapid.T) SchedCase {
	var c SchedCase
	c.Setup = Setup{Pods: []string{"p0"}}
	if vt.Chance(t, "p1Exists", 60) {
		c.Setup.Pods = append(c.Setup.Pods, "p1")
	}
	nn := rapid.IntRange(1, 3).Draw(t, "nNodes")
	for i := 0; i < nn; i++ {
		c.Setup.Nodes = append(c.Setup.Nodes, world.NodeSpec{Name: nodeNames[i], Pod: rapid.SampledFrom(c.Setup.Pods).Draw(t, "podOf"), CPU: 2, Memory: 512 * MiB})
	}
	if vt.Chance(t, "prep", 50) {
		c.Prep = []Op{{Kind: "create", Deploy: &world.DeploySpec{App: "a", Entry: "web", Pod: c.Setup.Nodes[0].Pod, Strategy: "AUTO", Count: 2, Res: world.ResSpec{CPU: 0.25, Mem: 16 * MiB}}}}
	}
	// nodes the operator marked down (bypass): they still exist and still belong to their pod
	if vt.Chance(t, "bypassSome", 40) {
		for _, nd := range c.Setup.Nodes {
			if vt.Chance(t, "bypass", 60) {
				c.Prep = append(c.Prep, Op{Kind: "setnode", SetNode: &SetNodeSpec{Node: nd.Name, Bypass: 1, AddCore: -1}})
			}
		}
	}
	kinds := []string{"addpod", "removepod", "addnode", "removenode", "create", "remove"}
	if vt.Chance(t, "busyPool", 15) {
		c.BusyPool = true
		kinds = kinds[:4]
	}
	n := rapid.IntRange(2, 4).Draw(t, "nCalls")
	for i := 0; i < n; i++ {
		op := Op{Kind: rapid.SampledFrom(kinds).Draw(t, "kind")}
		switch op.Kind {
		case "addpod", "removepod":
			op.Name = rapid.SampledFrom(podNames).Draw(t, "pod")
		case "addnode":
			op.Node = &world.NodeSpec{Name: rapid.SampledFrom(nodeNames[:3]).Draw(t, "node"), Pod: rapid.SampledFrom(podNames).Draw(t, "nodePod"), CPU: 2, Memory: 512 * MiB}
		case "removenode":
			op.Name = rapid.SampledFrom(nodeNames[:3]).Draw(t, "node")
		case "create":
			op.Deploy = &world.DeploySpec{App: "a", Entry: "web", Pod: rapid.SampledFrom(podNames).Draw(t, "cpod"), Strategy: "AUTO", Count: rapid.IntRange(1, 2).Draw(t, "count"), Res: world.ResSpec{CPU: 0.25, Mem: 16 * MiB}}
		case "remove":
			op.Targets = genTargets(t, 2)
			op.Force = true
		}
		if vt.Chance(t, "fault", 12) {
			op.Fault = genFault(t, op.Kind, c.Setup)
		}
		c.Calls = append(c.Calls, op)
	}
	c.Picks = rapid.SliceOfN(rapid.Uint8(), 0, 120).Draw(t, "picks")
	if vt.Chance(t, "hold", 45) {
		c.Hold = rapid.SampledFrom([]string{"store.AddWorkload", "store.AddNode", "store.RemovePod", "store.RemoveNode", "plugin.AddNode", "plugin.RemoveNode", "store.CreateProcessing", "engine.VirtualizationCreate"}).Draw(t, "holdName")
	}
	return c
}

func kindsOf(ops []Op) string {
	set := map[string]bool{}
	for _, o := range ops {
		set[o.Kind] = true
	}
	var ks []string
	for k := range set {
		ks = append(ks, k)
	}
	sort.Strings(ks)
	return strings.Join(ks, "+")
}

// c22Known: pairs of operations whose window is a known (design-level) finding.
func c22KnownRegion(ops []Op) string {
	has := map[string]bool{}
	for _, o := range ops {
		has[o.Kind] = true
	}
	for _, o := range ops {
		if o.Fault != nil && o.Kind == "removenode" {
			return "resource-without-node:removenode-fault" // same root cause as the C11 finding
		}
	}
	switch {
	case has["create"] && has["removenode"]:
		return "workload-on-missing-node:create||removenode"
	case has["addnode"] && has["removepod"]:
		return "node-in-missing-pod:addnode||removepod"
	}
	return ""
}

func runC22(x *vt.Ctx, c SchedCase) *vt.Finding {
	for i := 1; i < c.Tries; i++ {
		if f := runC22once(&vt.Ctx{}, c); f != nil {
			return f
		}
	}
	return runC22once(x, c)
}

func runC22once(x *vt.Ctx, c SchedCase) *vt.Finding {
	if k := c22KnownRegion(c.Calls); k != "" && vt.Mode() == "search" && vt.Exclude("C22", k) {
		x.Label("excluded-known-finding")
		return nil
	}
	setup := c.Setup
	if c.BusyPool {
		setup.PoolSize = 64 // ample for the set-up and preparation calls, cheap to occupy
	}
	w, err := buildWorld(setup)
	if err != nil {
		x.Label("setup-rejected")
		return nil
	}
	defer w.Close()
	for _, op := range c.Prep {
		runOp(w, op)
		settle(w)
	}
	releasePool := func() {}
	if c.BusyPool {
		var occupied int
		occupied, releasePool = w.SaturatePool()
		defer releasePool()
		if occupied != w.Cfg.MaxConcurrency {
			x.Label("busy-pool-not-saturated")
			return nil
		}
		x.Label("busy-pool")
	}
	w.IC.Begin()
	gate := world.NewGate()
	w.IC.SetGate(gate)
	var wg sync.WaitGroup
	done := make(chan struct{})
	for _, op := range c.Calls {
		wg.Add(1)
		go func(op Op) {
			defer wg.Done()
			runOpWith(w, op, false)
		}(op)
	}
	go func() { wg.Wait(); close(done) }()
	// faults: at most one armed fault (the first call that carries one)
	for _, op := range c.Calls {
		if op.Fault != nil {
			w.IC.SetFault(op.Fault)
			break
		}
	}
	var sched []string
	pi := 0
	finished := false
	deadline := time.Now().Add(60 * time.Second)
	for !finished {
		// wait until nothing released is still running and the parked set is stable
		stable := 0
		for stable < 3 {
			select {
			case <-done:
				finished = true
			default:
			}
			if finished || time.Now().After(deadline) {
				break
			}
			if gate.Running() == 0 && len(gate.Waiting()) > 0 {
				stable++
			} else {
				stable = 0
			}
			time.Sleep(400 * time.Microsecond)
		}
		if finished {
			break
		}
		if time.Now().After(deadline) {
			gate.ReleaseAll()
			w.IC.SetGate(nil)
			select {
			case <-done:
			case <-time.After(30 * time.Second):
				return vt.Failf("calls-did-not-return:"+kindsOf(c.Calls), "concurrent calls did not return (schedule so far: %s)", strings.Join(sched, " "))
			}
			break
		}
		ws := gate.Waiting()
		if len(ws) == 0 {
			continue
		}
		var cand []int
		for i, st := range ws {
			if c.Hold == "" || stepClass(st.Name) != c.Hold {
				cand = append(cand, i)
			}
		}
		if len(cand) == 0 {
			for i := range ws {
				cand = append(cand, i)
			}
		}
		p := cand[0]
		if pi < len(c.Picks) {
			p = cand[int(c.Picks[pi])%len(cand)]
			pi++
		}
		st := gate.Release(p)
		sched = append(sched, fmt.Sprintf("g%d:%s", st.G%1000, st.Name))
	}
	w.IC.SetGate(nil)
	gate.ReleaseAll()
	w.IC.DisarmFault()
	releasePool()
	if !settle(w) {
		return vt.Failf("not-quiescent:"+kindsOf(c.Calls), "world not quiescent after the calls returned")
	}
	// did two calls' steps interleave?
	gs := map[int64]bool{}
	switches := 0
	var last int64
	for _, st := range w.IC.History() {
		if strings.HasPrefix(st.Name, "lock.") || st.Name == "plan" {
			continue
		}
		if last != 0 && st.G != last {
			switches++
		}
		last = st.G
		gs[st.G] = true
	}
	if switches >= 3 {
		x.NonTrivial()
	}
	x.Label("calls=%s", kindsOf(c.Calls))

	// oracle
	w.IC.Disable(true)
	defer w.IC.Disable(false)
	ctx, cancel := context.WithTimeout(context.Background(), 30*time.Second)
	defer cancel()
	resp, err := w.Etcd.Get(ctx, "", clientv3.WithPrefix())
	if err != nil {
		return vt.Failf("harness:dump", "%v", err)
	}
	pods, nodes, nodePod, res, wlNode := map[string]bool{}, map[string]bool{}, map[string]string{}, map[string]bool{}, map[string]string{}
	for _, kv := range resp.Kvs {
		k := string(kv.Key)
		switch {
		case strings.HasPrefix(k, "/pod/info/"):
			pods[strings.TrimPrefix(k, "/pod/info/")] = true
		case strings.HasPrefix(k, "/resource/cpumem/"):
			res[strings.TrimPrefix(k, "/resource/cpumem/")] = true
		case strings.HasPrefix(k, "/node/") && strings.Contains(k, ":pod/"):
			rest := strings.TrimPrefix(k, "/node/")
			i := strings.Index(rest, ":pod/")
			nodePod[rest[i+5:]] = rest[:i]
		case strings.HasPrefix(k, "/node/") && strings.Contains(k, ":workloads/"):
			rest := strings.TrimPrefix(k, "/node/")
			i := strings.Index(rest, ":workloads/")
			wlNode[rest[i+11:]] = rest[:i]
		case strings.HasPrefix(k, "/node/") && !strings.Contains(k, ":"):
			nodes[strings.TrimPrefix(k, "/node/")] = true
		}
	}
	fail := func(sym, format string, a ...any) *vt.Finding {
		has := map[string]bool{}
		for _, o := range c.Calls {
			has[o.Kind] = true
		}
		cause := kindsOf(c.Calls)
		faultedRemoveNode := false
		for _, o := range c.Calls {
			if o.Kind == "removenode" && o.Fault != nil {
				faultedRemoveNode = true
			}
		}
		switch {
		case sym == "resource-without-node" && faultedRemoveNode:
			cause = "removenode-fault"
		case sym == "workload-on-missing-node" && has["create"] && has["removenode"]:
			cause = "create||removenode"
		case sym == "node-in-missing-pod" && has["addnode"] && has["removepod"]:
			cause = "addnode||removepod"
		}
		return vt.Failf(sym+":"+cause, format+"\nschedule: %s", append(a, strings.Join(sched, " "))...)
	}
	for n := range nodes {
		if p, ok := nodePod[n]; !ok || !pods[p] {
			return fail("node-in-missing-pod", "node %s is recorded under pod %q which does not exist", n, p)
		}
		if !res[n] {
			return fail("node-without-resource", "node %s has no resource record", n)
		}
	}
	for n := range nodePod {
		if !nodes[n] {
			// an entry of a pod's node index without the node record: NOT one of the four clauses of
			// the statement (pod with nodes not removed; node has resource info; resource record has a
			// node; workload has a node), so it is counted, not reported. Reachable on the unchanged
			// code: add-node takes no lock, so "remove n0 / add n0 into another pod / remove n0" can
			// interleave such that the second remove works on the node object it read before.
			x.Label("observation:pod-index-entry-without-node-record")
		}
	}
	for n := range res {
		if !nodes[n] {
			return fail("resource-without-node", "resource record of %s belongs to no recorded node", n)
		}
	}
	for id, n := range wlNode {
		if !nodes[n] {
			return fail("workload-on-missing-node", "workload %.10s is recorded on node %s which does not exist", id, n)
		}
	}
	if _, err := w.RawStore.ListWorkloads(ctx, "", "", "", 0, nil); err != nil {
		return fail("list-workloads-fails", "ListWorkloads fails: %v", err)
	}
	for n := range nodes {
		if _, err := w.RawStore.ListNodeWorkloads(ctx, n, nil); err != nil {
			return fail("list-node-workloads-fails", "ListNodeWorkloads(%s) fails: %v", n, err)
		}
	}
	return nil
}

var propC22 = vt.Prop[SchedCase]{ID: "C22", Test: "TestC22", Gen: genC22, Run: runC22, Retry: timeoutFinding}

func TestC22(t *testing.T) { topT = t; propC22.Check(t) }
