package cluster

import (
	"context"
	"fmt"
	"sort"
	"strings"
	"sync"
	"testing"
	"time"

	"pgregory.net/rapid"

	"verif/internal/vt"
	"verif/internal/world"
)

// C10 — node usage always equals the sum of the workloads recorded on the node.
// Case = setup + history of cluster API calls (each optionally with one injected fault, or a
// parallel batch of calls on different workloads); after every action, once the world is
// quiescent, the §3.3 usage oracle must hold on every node and NodeResource must report no diffs.

// HistoryCase is a generated history.
type HistoryCase struct {
	Setup Setup `json:"setup"`
	Steps []HOp `json:"steps"`
}

// HOp is one action: a single op, or a parallel batch.
type HOp struct {
	Op    *Op  `json:"op,omitempty"`
	Batch []Op `json:"batch,omitempty"`
}

func genOp(t *rapid.T, s Setup, kinds []string, withFault bool) Op {
	op := Op{Kind: rapid.SampledFrom(kinds).Draw(t, "kind")}
	switch op.Kind {
	case "create":
		op.Deploy = genDeploy(t, s)
	case "remove":
		op.Targets = genTargets(t, 3)
		op.Force = rapid.Bool().Draw(t, "force")
	case "dissociate":
		op.Targets = genTargets(t, 2)
	case "realloc":
		op.Targets = genTargets(t, 1)
		op.Realloc = genRealloc(t)
	case "replace":
		op.Targets = genTargets(t, 2)
		op.Deploy = genDeploy(t, s)
		op.Deploy.Files = 0
	case "setnode":
		op.SetNode = genSetNode(t, s)
	case "noderesource", "fixnode":
		op.Name = rapid.SampledFrom(s.Nodes).Draw(t, "nrNode").Name
	}
	if withFault && vt.Chance(t, "withFault", 45) {
		op.Fault = genFault(t, op.Kind, s)
	}
	return op
}

var c10Kinds = []string{"create", "create", "create", "remove", "dissociate", "realloc", "realloc", "replace", "setnode", "noderesource", "fixnode"}

func genC10(t *rapid.T) HistoryCase {
	c := HistoryCase{Setup: genSetup(t, 2)}
	n := rapid.IntRange(2, 9).Draw(t, "nSteps")
	// the first action is always a fault-free create so that later ops have something to act on
	first := genOp(t, c.Setup, []string{"create"}, false)
	c.Steps = append(c.Steps, HOp{Op: &first})
	for i := 1; i < n; i++ {
		if vt.Chance(t, "batch", 25) {
			k := rapid.IntRange(2, 3).Draw(t, "batchSize")
			var b []Op
			for j := 0; j < k; j++ {
				b = append(b, genOp(t, c.Setup, []string{"create", "remove", "remove", "realloc", "dissociate", "fixnode", "fixnode"}, false))
			}
			c.Steps = append(c.Steps, HOp{Batch: b})
			continue
		}
		op := genOp(t, c.Setup, c10Kinds, true)
		c.Steps = append(c.Steps, HOp{Op: &op})
	}
	return c
}

func nodeResourceDiffs(w *world.World) []string {
	w.IC.Disable(true)
	defer w.IC.Disable(false)
	var out []string
	for _, n := range w.AllNodes() {
		ctx, cancel := context.WithTimeout(w.Ctx, 30*time.Second)
		nr, err := w.Cal.NodeResource(ctx, n.Name, false)
		cancel()
		if err != nil {
			out = append(out, fmt.Sprintf("%s: NodeResource failed: %v", n.Name, err))
			continue
		}
		for _, d := range nr.Diffs {
			out = append(out, n.Name+": "+d)
		}
	}
	return out
}

func runC10(x *vt.Ctx, c HistoryCase) *vt.Finding {
	w, err := buildWorld(c.Setup)
	if err != nil {
		x.Label("setup-rejected")
		return nil
	}
	defer w.Close()
	fired, batches := 0, 0
	for i, h := range c.Steps {
		var desc string
		if h.Op != nil {
			out := runOp(w, *h.Op)
			if !out.Closed {
				return vt.Failf("op="+h.Op.Kind+":stream-not-closed fault="+faultKey(*h.Op), "step %d %s: result stream did not close", i, h.Op.Kind)
			}
			x.Label("op=%s", h.Op.Kind)
			if h.Op.Fault != nil {
				if w.IC.FaultFired() {
					if failedBeforeInjection(w.IC.History()) {
						// a step had already failed on its own before the injected one: that is a second
						// failure, possibly of a compensating step, which the property assumes to succeed
						x.Label("second-failure-discarded")
						return nil
					}
					fired++
					x.Label("fault-fired op=%s", h.Op.Kind)
				} else {
					x.Label("fault-not-reached")
				}
			}
			desc = fmt.Sprintf("op=%s fault=%s", h.Op.Kind, faultKey(*h.Op))
			x.Logf("step %d %s -> %s", i, jsonStr(h.Op), jsonStr(out))
		} else {
			if batchCause(h.Batch) == "create||fixnode" && vt.Mode() == "search" && vt.Exclude("C10", "batch=create||fixnode:usage!=sum") {
				x.Label("excluded-known-finding")
				continue
			}
			batches++
			x.Label("batch")
			var wg sync.WaitGroup
			// the batch shares one interceptor epoch: Begin once, then run without Begin
			for _, op := range h.Batch {
				wg.Add(1)
				go func(op Op) {
					defer wg.Done()
					runOpNoBegin(w, op)
				}(op)
			}
			wg.Wait()
			desc = "batch=" + batchCause(h.Batch)
		}
		if !settle(w) {
			return vt.Failf(desc+":not-quiescent", "step %d: world did not become quiescent within 30s", i)
		}
		w.IC.Disable(true)
		viol := usageViolations(w)
		w.IC.Disable(false)
		if len(viol) > 0 {
			return vt.Failf(desc+":usage!=sum", "after step %d (%s): %s", i, desc, strings.Join(viol, "; "))
		}
		if d := nodeResourceDiffs(w); len(d) > 0 {
			return vt.Failf(desc+":noderesource-diffs", "after step %d (%s) NodeResource reports: %s", i, desc, strings.Join(d, "; "))
		}
	}
	if fired > 0 || batches > 0 {
		x.NonTrivial()
	}
	return nil
}

// runOpNoBegin is runOp for members of a parallel batch (no epoch reset, no fault).
func runOpNoBegin(w *world.World, op Op) Outcome {
	return runOpWith(w, op, false)
}

var propC10 = vt.Prop[HistoryCase]{ID: "C10", Test: "TestC10", Gen: genC10, Run: runC10, Retry: timeoutFinding}

func TestC10(t *testing.T) { topT = t; propC10.Check(t) }

var _ = rapid.Bool

func failedBeforeInjection(h []world.Step) bool {
	for _, st := range h {
		if st.Injected {
			return false
		}
		if st.Err != "" {
			return true
		}
	}
	return false
}

// batchCause names a parallel batch by its operation kinds (sorted, unique); a repair running next
// to a deployment is one known root cause whatever else runs alongside.
func batchCause(ops []Op) string {
	has := map[string]bool{}
	for _, o := range ops {
		has[o.Kind] = true
	}
	if has["create"] && has["fixnode"] {
		return "create||fixnode"
	}
	var ks []string
	for k := range has {
		ks = append(ks, k)
	}
	sort.Strings(ks)
	return strings.Join(ks, "+")
}
