package cluster

import (
	"context"
	"fmt"
	"sort"
	"strconv"
	"strings"
	"sync"
	"testing"
	"time"

	"pgregory.net/rapid"

	clientv3 "go.etcd.io/etcd/client/v3"

	"github.com/projecteru2/core/types"

	"verif/internal/vt"
	"verif/internal/world"
)

// C13 — deploy status counts are exact and in-progress markers are cleaned up.
// An observer runs at every intercepted step of the deployment (while no store/plugin/engine
// call of any goroutine is in flight) and compares Store.GetDeployStatus with the workloads
// actually recorded and with prior + planned; after the stream closed the count must equal the
// recorded workloads and no processing marker of the application entrypoint may remain.

type StatusCase struct {
	Setup  Setup            `json:"setup"`
	Prior  world.DeploySpec `json:"prior"`  // a first deployment of the same app/entry (prior counts)
	Deploy world.DeploySpec `json:"deploy"` // the observed deployment
	Fault  *world.Fault     `json:"fault,omitempty"`
	// CancelAt > 0: the caller's context is cancelled at the CancelAt-th observation
	CancelAt int `json:"cancel_at,omitempty"`
	// Sibling != "": another entrypoint of the same application whose name extends "web" is in the
	// middle of a deployment on every node (processing marker of 3)
	Sibling string `json:"sibling,omitempty"`
	// SiblingWorkloads > 0: that sibling entrypoint also has this many workloads recorded (deployed before)
	SiblingWorkloads int `json:"sibling_workloads,omitempty"`
}

func genC13(t *rapid.T) StatusCase {
	c := StatusCase{Setup: genSetup(t, 1)}
	c.Setup.Redis = vt.Chance(t, "redis", 45)
	c.Prior = *genDeploy(t, c.Setup)
	c.Prior.App, c.Prior.Entry = "a", "web"
	c.Prior.Res = world.ResSpec{CPU: 0.25, Mem: 16 * MiB}
	c.Deploy = *genDeploy(t, c.Setup)
	c.Deploy.App, c.Deploy.Entry = "a", "web"
	if vt.Chance(t, "fault", 60) {
		name := rapid.SampledFrom([]string{"engine.VirtualizationCreate", "engine.VirtualizationStart", "engine.VirtualizationInspect", "store.AddWorkload", "wal.Log(create-workload)", "engine.VirtualizationCopyChunkTo"}).Draw(t, "faultName")
		if strings.HasPrefix(name, "engine.") {
			name += "@" + rapid.SampledFrom(c.Setup.Nodes).Draw(t, "faultNode").Name
		}
		c.Fault = &world.Fault{Name: name, Occ: rapid.IntRange(1, 4).Draw(t, "faultOcc")}
	}
	if vt.Chance(t, "cancel", 25) {
		c.CancelAt = rapid.IntRange(1, 40).Draw(t, "cancelAt")
	}
	if vt.Chance(t, "sibling", 35) {
		c.Sibling = rapid.SampledFrom([]string{"2", "-api", ".v2", "web"}).Draw(t, "sibling")
		if vt.Chance(t, "siblingWorkloads", 60) {
			c.SiblingWorkloads = rapid.IntRange(1, 3).Draw(t, "nSiblingWorkloads")
		}
	}
	return c
}

func recordedPerNode(w *world.World, app, entry string) (map[string]int, error) {
	ctx, cancel := context.WithTimeout(context.Background(), 20*time.Second)
	defer cancel()
	ws, err := w.RawStore.ListWorkloads(ctx, app, entry, "", 0, nil)
	if err != nil {
		return nil, err
	}
	out := map[string]int{}
	for _, wl := range ws {
		out[wl.Nodename]++
	}
	return out, nil
}

func processingKeys(w *world.World, redis bool) []string {
	var keys []string
	if redis {
		for _, k := range w.Redis.Keys() {
			if strings.HasPrefix(k, "/processing") {
				keys = append(keys, k)
			}
		}
	} else {
		ctx, cancel := context.WithTimeout(context.Background(), 10*time.Second)
		defer cancel()
		resp, err := w.Etcd.Get(ctx, "/processing", clientv3.WithPrefix())
		if err == nil {
			for _, kv := range resp.Kvs {
				keys = append(keys, string(kv.Key))
			}
		}
	}
	sort.Strings(keys)
	return keys
}

// ownMarkers drops the markers of the sibling entrypoint.
func ownMarkers(keys []string) []string {
	var out []string
	for _, k := range keys {
		if strings.Contains(k, "/sibling") {
			continue
		}
		out = append(out, k)
	}
	return out
}

func runC13(x *vt.Ctx, c StatusCase) *vt.Finding {
	w, err := buildWorld(c.Setup)
	if err != nil {
		x.Label("setup-rejected")
		return nil
	}
	defer w.Close()
	backend := "etcd"
	if c.Setup.Redis {
		backend = "redis"
	}
	x.Label("backend=%s", backend)
	runOp(w, Op{Kind: "create", Deploy: &c.Prior})
	settle(w)
	prior, err := recordedPerNode(w, "a", "web")
	if err != nil {
		return vt.Failf("harness:list", "%v", err)
	}

	if c.Sibling != "" && c.SiblingWorkloads > 0 {
		sd := c.Prior
		sd.Entry, sd.Count, sd.Strategy, sd.Limit = "web"+c.Sibling, c.SiblingWorkloads, "AUTO", 0
		if out := runOp(w, Op{Kind: "create", Deploy: &sd}); len(out.Created) > 0 {
			x.Label("sibling-entrypoint-has-workloads")
		}
		settle(w)
	}
	if c.Sibling != "" {
		x.Label("sibling-entrypoint-deploying")
		for _, n := range c.Setup.Nodes {
			ctx, cancel := context.WithTimeout(context.Background(), 10*time.Second)
			err := w.RawStore.CreateProcessing(ctx, &types.Processing{Appname: "a", Entryname: "web" + c.Sibling, Nodename: n.Name, Ident: "sibling"}, 3)
			cancel()
			if err != nil {
				return vt.Failf("harness:sibling-marker", "%v", err)
			}
		}
	}
	reqCtx, reqCancel := context.WithTimeout(w.Ctx, 60*time.Second)
	defer reqCancel()
	var (
		mu       sync.Mutex
		obsCount int
		withMark int
		bad      string
		planned  = map[string]int{}
	)
	w.IC.Begin()
	if c.Fault != nil {
		w.IC.SetFault(c.Fault)
	}
	w.IC.SetObserver(func() {
		mu.Lock()
		defer mu.Unlock()
		if bad != "" {
			return
		}
		for _, st := range w.IC.History() {
			if st.Name == "plan" {
				if i := strings.IndexByte(st.Key, '='); i > 0 {
					n, _ := strconv.Atoi(st.Key[i+1:])
					planned[st.Key[:i]] = n
				}
			}
		}
		ctx, cancel := context.WithTimeout(context.Background(), 20*time.Second)
		status, err := w.RawStore.GetDeployStatus(ctx, "a", "web")
		cancel()
		if err != nil {
			return
		}
		rec, err := recordedPerNode(w, "a", "web")
		if err != nil {
			return
		}
		obsCount++
		if c.CancelAt > 0 && obsCount == c.CancelAt {
			reqCancel()
		}
		if len(ownMarkers(processingKeys(w, c.Setup.Redis))) > 0 {
			withMark++
		}
		nodes := map[string]bool{}
		for n := range status {
			nodes[n] = true
		}
		for n := range rec {
			nodes[n] = true
		}
		for n := range nodes {
			if status[n] < rec[n] {
				bad = fmt.Sprintf("below-recorded|node %s: deploy status %d < %d workloads recorded (prior %d, planned %d)", n, status[n], rec[n], prior[n], planned[n])
			}
			if status[n] > prior[n]+planned[n] {
				bad = fmt.Sprintf("above-prior+planned|node %s: deploy status %d > prior %d + planned %d (recorded %d)", n, status[n], prior[n], planned[n], rec[n])
			}
		}
	})
	msgs, callErr, closed := w.CreateCtx(reqCtx, c.Deploy)
	w.IC.SetObserver(nil)
	w.IC.DisarmFault()
	fk := "nofault"
	if c.Fault != nil && w.IC.FaultFired() {
		fk = stepClass(c.Fault.Name)
		x.Label("fault=%s", fk)
	}
	if !closed {
		return vt.Failf("stream-not-closed@"+backend+" fault="+fk, "result stream did not close")
	}
	nFail := 0
	for _, m := range msgs {
		if m.Error != nil {
			nFail++
		}
	}
	mu.Lock()
	b, oc, wm := bad, obsCount, withMark
	mu.Unlock()
	x.Logf("observations %d (with marker %d), messages %d (failed %d), callErr %v", oc, wm, len(msgs), nFail, callErr)
	if wm >= 5 && (nFail > 0 || len(msgs) >= 2) {
		x.NonTrivial()
	}
	if b != "" {
		parts := strings.SplitN(b, "|", 2)
		return vt.Failf("during:"+parts[0]+"@"+backend+" fault="+fk, "%s\n%s", parts[1], histStr(w.IC.History()))
	}
	// after the deployment returned: count == recorded, no marker left (the asynchronous remap
	// does not touch either)
	ctx, cancel := context.WithTimeout(context.Background(), 20*time.Second)
	status, err := w.RawStore.GetDeployStatus(ctx, "a", "web")
	cancel()
	if err != nil {
		return vt.Failf("harness:get-deploy-status", "%v", err)
	}
	rec, _ := recordedPerNode(w, "a", "web")
	for n, k := range status {
		if k != rec[n] {
			return vt.Failf("after:count!=recorded@"+backend+" fault="+fk, "node %s: deploy status %d, workloads recorded %d\n%s", n, k, rec[n], histStr(w.IC.History()))
		}
	}
	for n, k := range rec {
		if status[n] != k {
			return vt.Failf("after:count!=recorded@"+backend+" fault="+fk, "node %s: deploy status %d, workloads recorded %d", n, status[n], k)
		}
	}
	if c.CancelAt > 0 && oc >= c.CancelAt {
		x.Label("caller-cancelled-mid-deployment")
		fk += ":caller-cancelled"
	}
	if keys := ownMarkers(processingKeys(w, c.Setup.Redis)); len(keys) > 0 {
		return vt.Failf("after:marker-left@"+backend+" fault="+fk, "processing markers left after the deployment returned: %v\n%s", keys, histStr(w.IC.History()))
	}
	settle(w)
	return nil
}

var propC13 = vt.Prop[StatusCase]{ID: "C13", Test: "TestC13", Gen: genC13, Run: runC13, Retry: timeoutFinding}

func TestC13(t *testing.T) { topT = t; propC13.Check(t) }
