package cluster

import (
	"context"
	"fmt"
	"strings"
	"testing"
	"time"

	"pgregory.net/rapid"

	"github.com/projecteru2/core/types"

	"verif/internal/vengine"
	"verif/internal/vt"
	"verif/internal/world"
)

// C12 — deployment results are complete and truthful.
// Same one-shot shape as C11, restricted to create: the request is first run fault-free (that
// run is itself checked), the world is restored, and the request is run again with one
// engine/store failure at a step drawn from the recorded list.

func genC12(t *rapid.T) FaultCase {
	c := FaultCase{Setup: genSetup(t, 1)}
	if vt.Chance(t, "withPrep", 70) {
		c.Prep = genPrep(t, c.Setup)
	}
	c.Op = genOp(t, c.Setup, []string{"create"}, false)
	c.Pick = rapid.Uint32().Draw(t, "pick")
	c.All = vt.Tier() == "thorough" && vt.Chance(t, "allSteps", 25)
	return c
}

// plannedInstances asks the capacity API for the plan of the same request on the same state
// (AUTO/GLOBAL/DRAINED: the statement fixes it to count).
func plannedInstances(w *world.World, d world.DeploySpec) (int, error) {
	ctx, cancel := context.WithTimeout(w.Ctx, 30*time.Second)
	defer cancel()
	msg, err := w.Cal.CalculateCapacity(ctx, d.Options())
	if err != nil {
		return 0, err
	}
	n := 0
	for _, k := range msg.NodeCapacities {
		n += k
	}
	switch d.Strategy {
	case "AUTO", "GLOBAL", "DRAINED":
		if n != d.Count {
			return n, fmt.Errorf("capacity API plans %d instances for count %d", n, d.Count)
		}
	}
	return n, nil
}

func checkDeployResult(w *world.World, s0 snapshot, d world.DeploySpec, planned int, plannable bool, msgs []*types.CreateWorkloadMessage, callErr error) (string, string) {
	if callErr != nil {
		return "", "" // request not accepted: nothing to say (C11 covers "no effect")
	}
	nFail, nOK := 0, 0
	for _, m := range msgs {
		if m.Error != nil {
			nFail++
		} else {
			nOK++
		}
	}
	after := takeSnapshot(w)
	containers := map[string]vengine.Container{}
	for _, c := range after.eng {
		containers[c.ID] = c
	}
	before := map[string]bool{}
	for _, c := range s0.eng {
		before[c.ID] = true
	}
	single := len(msgs) == 1 && nFail == 1 && msgs[0].WorkloadID == ""
	if !(single || (plannable && len(msgs) == planned)) {
		if len(msgs) == 0 {
			return "no-message", "the stream closed without any message"
		}
		if !plannable {
			// no plan exists for this request on this state: the only legal outcome is one failure
			return "messages!=single-failure", fmt.Sprintf("no plan exists, expected a single failure, got %d messages (%d ok, %d failed)", len(msgs), nOK, nFail)
		}
		return "messages!=planned", fmt.Sprintf("planned %d instances, got %d messages (%d ok, %d failed)", planned, len(msgs), nOK, nFail)
	}
	okIDs := map[string]bool{}
	for _, m := range msgs {
		if m.Error != nil {
			if m.WorkloadID != "" {
				if _, ok := containers[m.WorkloadID]; ok {
					return "failed-instance-left-container", fmt.Sprintf("failed instance %.12s still has a container", m.WorkloadID)
				}
				if _, ok := after.kv["/workloads/"+m.WorkloadID]; ok {
					return "failed-instance-left-record", fmt.Sprintf("failed instance %.12s is still recorded", m.WorkloadID)
				}
			}
			continue
		}
		if m.WorkloadID == "" {
			return "success-without-id", "a success message carries no workload id"
		}
		if okIDs[m.WorkloadID] {
			return "duplicate-success", fmt.Sprintf("workload %.12s reported twice", m.WorkloadID)
		}
		okIDs[m.WorkloadID] = true
		ctx, cancel := context.WithTimeout(context.Background(), 10*time.Second)
		wl, err := w.RawStore.GetWorkload(ctx, m.WorkloadID)
		cancel()
		if err != nil {
			return "success-not-recorded", fmt.Sprintf("success names workload %.12s which is not recorded: %v", m.WorkloadID, err)
		}
		ct, ok := containers[m.WorkloadID]
		if !ok {
			return "success-no-container", fmt.Sprintf("success names workload %.12s which has no container", m.WorkloadID)
		}
		if !ct.Running {
			return "success-not-started", fmt.Sprintf("workload %.12s reported created but its container is not running", m.WorkloadID)
		}
		if ct.Node != m.Nodename || wl.Nodename != m.Nodename {
			return "success-wrong-node", fmt.Sprintf("workload %.12s reported on %s, recorded on %s, container on %s", m.WorkloadID, m.Nodename, wl.Nodename, ct.Node)
		}
		if jsonStr(wl.Resources) != jsonStr(m.Resources) {
			return "success-wrong-resources", fmt.Sprintf("workload %.12s reported resources %s, recorded %s", m.WorkloadID, jsonStr(m.Resources), jsonStr(wl.Resources))
		}
	}
	// nothing else was left behind: containers and records = S0 ∪ successes
	for id, c := range containers {
		if !before[id] && !okIDs[id] {
			return "stray-container", fmt.Sprintf("container %.12s on %s belongs to no reported success", id, c.Node)
		}
	}
	for k := range after.kv {
		if strings.HasPrefix(k, "/workloads/") {
			id := strings.TrimPrefix(k, "/workloads/")
			if _, ok := s0.kv[k]; !ok && !okIDs[id] {
				return "stray-record", fmt.Sprintf("workload record %.12s belongs to no reported success", id)
			}
		}
	}
	if u := usageViolations(w); len(u) > 0 {
		return "usage!=sum", strings.Join(u, "; ")
	}
	return "", ""
}

func runC12(x *vt.Ctx, c FaultCase) *vt.Finding {
	w, err := buildWorld(c.Setup)
	if err != nil {
		x.Label("setup-rejected")
		return nil
	}
	defer w.Close()
	for _, op := range c.Prep {
		if out := runOp(w, op); !out.Closed {
			return vt.Failf("op="+op.Kind+":stream-not-closed fault=nofault", "fault-free %s of the prefix: result stream did not close: %s", op.Kind, jsonStr(op))
		}
		settle(w)
	}
	d := *c.Op.Deploy
	w.IC.Disable(true)
	s0 := takeSnapshot(w)
	planned, perr := plannedInstances(w, d)
	w.IC.Disable(false)
	plannable := perr == nil
	x.Label("strategy=%s", d.Strategy)
	if !plannable {
		x.Label("no-plan-exists")
	}

	doRun := func(fault *world.Fault) *vt.Finding {
		w.IC.Begin()
		if fault != nil {
			w.IC.SetFault(fault)
		}
		msgs, callErr, closed := w.Create(d)
		w.IC.DisarmFault()
		fk := "nofault"
		if fault != nil {
			fk = stepClass(fault.Name)
		}
		if !closed {
			return vt.Failf("stream-not-closed fault="+fk, "create with fault %s: the result stream did not close", fk)
		}
		if !settle(w) {
			return vt.Failf("not-quiescent fault="+fk, "world not quiescent 30s after create")
		}
		if fault != nil && !w.IC.FaultFired() {
			x.Label("fault-not-reached")
			return nil
		}
		w.IC.Disable(true)
		key, msg := checkDeployResult(w, s0, d, planned, plannable, msgs, callErr)
		w.IC.Disable(false)
		if key != "" {
			var ms []string
			for _, m := range msgs {
				ms = append(ms, fmt.Sprintf("{node=%s id=%.12s err=%v}", m.Nodename, m.WorkloadID, m.Error))
			}
			return vt.Failf(key+" fault="+fk, "%s; messages: %s\n%s", msg, strings.Join(ms, " "), histStr(w.IC.History()))
		}
		if planned >= 2 || fault != nil {
			x.NonTrivial()
		}
		if fault != nil {
			x.Label("fault=%s", fk)
		}
		return nil
	}

	if f := doRun(nil); f != nil {
		return f
	}
	steps := faultableSteps(w.IC.History())
	var cand []world.Step
	for _, st := range steps {
		if st.Err != "" {
			x.Label("natural-failure")
			return nil // compensating steps are in the list (see C11)
		}
		if strings.HasPrefix(st.Name, "engine.") || strings.HasPrefix(st.Name, "store.") {
			cand = append(cand, st)
		}
	}
	if len(cand) == 0 {
		return nil
	}
	positions := []int{int(c.Pick % uint32(len(cand)))}
	if c.All {
		positions = positions[:0]
		for i := range cand {
			positions = append(positions, i)
		}
	}
	for _, pos := range positions {
		w.IC.Disable(true)
		restoreSnapshot(w, s0)
		w.IC.Disable(false)
		if f := doRun(&world.Fault{Name: cand[pos].Name, Occ: cand[pos].Occ}); f != nil {
			return f
		}
	}
	return nil
}

var propC12 = vt.Prop[FaultCase]{ID: "C12", Test: "TestC12", Gen: genC12, Run: runC12, Retry: timeoutFinding}

func TestC12(t *testing.T) { topT = t; propC12.Check(t) }
