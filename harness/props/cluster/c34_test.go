package cluster

import (
	"context"
	"fmt"
	"os"
	"path/filepath"
	"regexp"
	"sort"
	"strings"
	"sync"
	"testing"
	"time"

	"pgregory.net/rapid"

	pb "github.com/projecteru2/core/rpc/gen"
	"github.com/projecteru2/core/types"

	"verif/internal/stats"
	"verif/internal/vengine"
	"verif/internal/vt"
	"verif/internal/world"
)

// C34 — concurrent API use is free of data races. Oracle = the Go race detector (the test binary
// is built with -race; GORACE log_path makes the reports readable by the test itself).
// The world is "raw": no interception layer, because its own locks and atomics would add
// happens-before edges and hide races.

type RaceCall struct {
	Kind    string            `json:"kind"` // create|remove|dissociate|realloc|control|send|status|list|rpc-*
	Deploy  *world.DeploySpec `json:"deploy,omitempty"`
	Targets []int             `json:"targets,omitempty"`
	// MissingImage: the image cannot be pulled on any node, so node preparation fails on every node of the plan
	MissingImage bool `json:"missing_image,omitempty"`
	FailN        int  `json:"fail_n,omitempty"` // create: make this many instances fail (engine scripted: inspect user mismatch not used; uses missing image)
}

type RaceCase struct {
	Calls   []RaceCall `json:"calls"`
	FailMod int        `json:"fail_mod"` // engine start fails for every FailMod-th created container (0 = never)
	// RealNodes: the nodes are not test nodes: whether each is up is read from its heartbeat status
	// (n0-n2 have one, n3 has none) — the path production nodes take through the store
	RealNodes bool `json:"real_nodes,omitempty"`
}

func genC34(t *rapid.T) RaceCase {
	var c RaceCase
	c.FailMod = rapid.SampledFrom([]int{0, 2, 3, 1}).Draw(t, "failMod")
	c.RealNodes = vt.Chance(t, "realNodes", 50)
	n := rapid.IntRange(3, 8).Draw(t, "nCalls")
	kinds := []string{"create", "create", "remove", "dissociate", "realloc", "control", "send", "status", "list", "rpc-create", "rpc-list", "rpc-remove", "rpc-status", "capacity", "podresource", "runandwait"}
	for i := 0; i < n; i++ {
		call := RaceCall{Kind: rapid.SampledFrom(kinds).Draw(t, "kind")}
		call.Targets = genTargets(t, 4)
		if strings.HasSuffix(call.Kind, "create") || call.Kind == "capacity" {
			d := world.DeploySpec{App: rapid.SampledFrom(appNames).Draw(t, "app"), Entry: "web", Pod: rapid.SampledFrom(podNames).Draw(t, "pod"), Strategy: "AUTO", Count: rapid.IntRange(2, 6).Draw(t, "count"),
				Res: world.ResSpec{Bind: rapid.Bool().Draw(t, "bind"), CPU: 0.25, Mem: 16 * MiB}}
			if vt.Chance(t, "failing", 50) {
				// more instances than one node can start: the engine refuses the surplus on each node
				call.FailN = rapid.IntRange(1, 3).Draw(t, "failN")
			}
			if call.Kind == "create" && vt.Chance(t, "missingImage", 25) {
				call.MissingImage = true
			}
			call.Deploy = &d
		}
		c.Calls = append(c.Calls, call)
	}
	return c
}

var raceSeen = map[string]bool{}

var frameRe = regexp.MustCompile(`^\s+(\S+)\(`)

// newRaceReports parses the GORACE log files and returns, for every report not seen before, a key
// made of the innermost core (non-hook, non-harness) functions of the two conflicting accesses.
func newRaceReports() (keys []string, texts map[string]string, harnessOnly []string) {
	texts = map[string]string{}
	lp := ""
	for _, kv := range strings.Fields(os.Getenv("GORACE")) {
		if strings.HasPrefix(kv, "log_path=") {
			lp = strings.TrimPrefix(kv, "log_path=")
		}
	}
	if lp == "" {
		return
	}
	files, _ := filepath.Glob(lp + ".*")
	for _, f := range files {
		b, err := os.ReadFile(f)
		if err != nil {
			continue
		}
		for _, rep := range strings.Split(string(b), "==================") {
			if !strings.Contains(rep, "WARNING: DATA RACE") {
				continue
			}
			// split into stanzas; the first two are the conflicting accesses
			stanzas := strings.Split(strings.TrimSpace(rep), "\n\n")
			var fns []string
			for _, st := range stanzas[:min(2, len(stanzas))] {
				fn := ""
				for _, line := range strings.Split(st, "\n") {
					m := frameRe.FindStringSubmatch(line)
					if m == nil {
						continue
					}
					name := m[1]
					if strings.Contains(name, "github.com/projecteru2/core/") && !strings.Contains(name, "Verif") {
						fn = strings.TrimPrefix(name, "github.com/projecteru2/core/")
						break
					}
				}
				fns = append(fns, fn)
			}
			for len(fns) < 2 {
				fns = append(fns, "")
			}
			// strip closure counters so keys survive small refactorings: pkg.(*T).M.func1.2 -> pkg.(*T).M
			for i := range fns {
				if j := strings.Index(fns[i], ".func"); j > 0 {
					fns[i] = fns[i][:j]
				}
			}
			sort.Strings(fns)
			key := "race:" + fns[0] + "|" + fns[1]
			if raceSeen[key+rep[:min(len(rep), 0)]] {
				continue
			}
			if fns[0] == "" && fns[1] == "" {
				harnessOnly = append(harnessOnly, rep)
				continue
			}
			if !raceSeen[key] {
				raceSeen[key] = true
				keys = append(keys, key)
				if len(rep) > 3500 {
					rep = rep[:3500]
				}
				texts[key] = rep
			}
		}
	}
	return
}

func runC34(x *vt.Ctx, c RaceCase) *vt.Finding {
	w := world.New(topT, world.Options{Raw: true})
	defer w.Close()
	for _, p := range []string{"p0", "p1"} {
		if err := w.AddPod(p); err != nil {
			return vt.Failf("harness:setup", "%v", err)
		}
	}
	for i, n := range []string{"n0", "n1", "n2", "n3"} {
		if err := w.AddNode(world.NodeSpec{Name: n, Pod: []string{"p0", "p1"}[i/2], CPU: 4, Memory: 2048 * MiB, NonTest: c.RealNodes}); err != nil {
			return vt.Failf("harness:setup", "%v", err)
		}
		if c.RealNodes && n != "n3" {
			if err := w.RawStore.SetNodeStatus(w.Ctx, &types.Node{NodeMeta: types.NodeMeta{Name: n, Podname: []string{"p0", "p1"}[i/2]}}, 600); err != nil {
				return vt.Failf("harness:heartbeat", "%v", err)
			}
		}
	}
	// something to act on, spread over the nodes of both pods
	for _, p := range []string{"p0", "p1"} {
		w.Create(world.DeploySpec{App: "a", Entry: "web", Pod: p, Strategy: "AUTO", Count: 4, Res: world.ResSpec{CPU: 0.25, Mem: 16 * MiB}})
		w.Create(world.DeploySpec{App: "b", Entry: "web", Pod: p, Strategy: "AUTO", Count: 2, Res: world.ResSpec{Bind: true, CPU: 0.5, Mem: 16 * MiB}})
	}
	w.Eng.FailStartMod = c.FailMod
	ids := liveIDs(w)
	rpcf := w.NewRPC()
	defer rpcf.Close()
	newRaceReports() // reports from setup (if any) are attributed to the batch below as well: do not drop them
	for k := range raceSeen {
		delete(raceSeen, k)
	}

	var wg sync.WaitGroup
	ctx, cancel := context.WithTimeout(w.Ctx, 90*time.Second)
	defer cancel()
	for _, call := range c.Calls {
		wg.Add(1)
		go func(call RaceCall) {
			defer wg.Done()
			tg := pick(ids, call.Targets)
			switch call.Kind {
			case "create":
				d := *call.Deploy
				if call.FailN > 0 {
					d.Files = 0
					d.User = ""   // failing instances come from capacity exhaustion below
					d.Count += 40 // cpu-bound / memory request exceeding some nodes: partial failures at allocation are refused as a whole; keep count moderate
					d.Count -= 40
				}
				if call.MissingImage {
					d.Image = vengine.MissingImagePrefix + "img:1"
				}
				w.Create(d)
			case "remove":
				w.Remove(tg, true)
			case "dissociate":
				w.Dissociate(tg[:1])
			case "realloc":
				_ = w.Realloc(tg[0], world.ReallocSpec{DMem: 16 * MiB, Bind: "keep"})
			case "control":
				if ch, err := w.Cal.ControlWorkload(ctx, append([]string(nil), tg...), "restart", true); err == nil {
					for range ch {
					}
				}
			case "send":
				if ch, err := w.Cal.Send(ctx, &types.SendOptions{IDs: append([]string(nil), tg...), Files: []types.LinuxFile{{Filename: "/s", Content: []byte("x"), Mode: 0o644}}}); err == nil {
					for range ch {
					}
				}
			case "status":
				var metas []*types.StatusMeta
				for _, id := range tg {
					metas = append(metas, &types.StatusMeta{ID: id, Running: true, Healthy: true})
				}
				_, _ = w.Cal.SetWorkloadsStatus(ctx, metas, nil)
				_, _ = w.Cal.GetWorkloadsStatus(ctx, tg)
			case "list":
				_, _ = w.Cal.ListWorkloads(ctx, &types.ListWorkloadsOptions{Appname: "a", Entrypoint: "web"})
				if ch, err := w.Cal.ListPodNodes(ctx, &types.ListNodesOptions{Podname: "p0", All: true}); err == nil {
					for range ch {
					}
				}
			case "runandwait":
				d := world.DeploySpec{App: "l", Entry: "job", Pod: "p0", Strategy: "AUTO", Count: 4, Res: world.ResSpec{CPU: 0.1, Mem: 16 * MiB}}
				in := make(chan []byte)
				close(in)
				if _, ch, err := w.Cal.RunAndWait(ctx, d.Options(), in); err == nil {
					for range ch {
					}
				}
			case "capacity":
				_, _ = w.Cal.CalculateCapacity(ctx, call.Deploy.Options())
			case "podresource":
				if ch, err := w.Cal.PodResource(ctx, "p0"); err == nil {
					for range ch {
					}
				}
			case "rpc-create":
				d := call.Deploy
				st, err := rpcf.Client.CreateWorkload(ctx, &pb.DeployOptions{Name: d.App, Entrypoint: &pb.EntrypointOptions{Name: d.Entry, Commands: []string{"true"}}, Podname: d.Pod, Image: "img:1", Count: int32(d.Count),
					DeployStrategy: pb.DeployOptions_AUTO, Resources: map[string][]byte{"cpumem": []byte(fmt.Sprintf(`{"cpu-request":0.25,"cpu-limit":0.25,"memory-request":%d,"memory-limit":%d}`, 16*MiB, 16*MiB))}})
				if err == nil {
					for {
						if _, err := st.Recv(); err != nil {
							break
						}
					}
				}
			case "rpc-list":
				st, err := rpcf.Client.ListWorkloads(ctx, &pb.ListWorkloadsOptions{Appname: "a", Entrypoint: "web"})
				if err == nil {
					for {
						if _, err := st.Recv(); err != nil {
							break
						}
					}
				}
			case "rpc-remove":
				st, err := rpcf.Client.RemoveWorkload(ctx, &pb.RemoveWorkloadOptions{IDs: tg, Force: true})
				if err == nil {
					for {
						if _, err := st.Recv(); err != nil {
							break
						}
					}
				}
			case "rpc-status":
				_, _ = rpcf.Client.GetWorkloadsStatus(ctx, &pb.WorkloadIDs{IDs: tg})
			}
		}(call)
	}
	wg.Wait()
	settle(w)
	x.NonTrivial() // every batch runs >= 3 calls concurrently
	x.Label("real-nodes=%v", c.RealNodes)
	for _, call := range c.Calls {
		x.Label("call=%s", call.Kind)
	}
	keys, texts, harnessOnly := newRaceReports()
	if len(harnessOnly) > 0 {
		panic("data race confined to harness code:\n" + harnessOnly[0])
	}
	for _, k := range keys {
		if vt.Known("C34", k) {
			stats.TolerateExit()
			stats.Label("hit-known-finding:" + k)
			continue
		}
		stats.TolerateExit() // the race detector fails the binary; the recorded violation decides
		return vt.Failf(k, "the race detector reports:\n%s", texts[k])
	}
	return nil
}

var propC34 = vt.Prop[RaceCase]{ID: "C34", Test: "TestC34", Gen: genC34, Run: runC34}

func TestC34(t *testing.T) { topT = t; propC34.Check(t) }
