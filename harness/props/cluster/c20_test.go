package cluster

import (
	"fmt"
	"strings"
	"testing"

	"pgregory.net/rapid"

	"verif/internal/vt"
	"verif/internal/world"
)

// C20 — cluster operations take locks in one global order.
// Oracle over the recorded lock events, per goroutine: pod locks before workload locks, each
// class in strictly ascending key order, node-operation locks only with an empty held set and
// nothing acquired while one is held.

type LockCase struct {
	Setup Setup `json:"setup"`
	Prep  []Op  `json:"prep"`
	Ops   []Op  `json:"ops"`
	// TightRemove (0: off; else 2 or 3): at the end, one workload is removed while other
	// long-running requests occupy all but that many workers of calcium's non-blocking task pool.
	// A remove of one workload runs two pooled tasks at a time (the call and its node), so with 2
	// free workers the follow-up remap is refused, with 3 it is accepted; the lock order must hold
	// either way.
	TightRemove int `json:"tight_remove,omitempty"`
	TightTarget int `json:"tight_target,omitempty"`
}

var c20Kinds = []string{"create", "create", "remove", "dissociate", "realloc", "replace", "control", "send", "setnode", "removenode", "removepod", "capacity", "noderesource", "podresource"}

func genC20Op(t *rapid.T, s Setup) Op {
	op := Op{Kind: rapid.SampledFrom(c20Kinds).Draw(t, "kind")}
	switch op.Kind {
	case "create", "capacity":
		op.Deploy = genDeploy(t, s)
		if vt.Chance(t, "crossPodIncludes", 60) {
			// include lists in any order, with repeats, across pods
			op.Deploy.Includes = nil
			op.Deploy.Excludes = nil
			n := rapid.IntRange(2, 4).Draw(t, "nInc")
			for i := 0; i < n; i++ {
				op.Deploy.Includes = append(op.Deploy.Includes, rapid.SampledFrom(s.Nodes).Draw(t, "inc").Name)
			}
		}
		if vt.Chance(t, "allPods", 25) {
			op.Deploy.Includes = nil
			op.Deploy.Pod = "" // filter over every pod; DeployOptions still needs a pod name, set below
		}
	case "remove", "dissociate", "control", "send":
		op.Targets = genTargets(t, 4)
		op.Force = true
		op.Name = rapid.SampledFrom([]string{"stop", "start", "restart"}).Draw(t, "ctl")
	case "realloc":
		op.Targets = genTargets(t, 1)
		op.Realloc = genRealloc(t)
	case "replace":
		op.Targets = genTargets(t, 3)
		op.Deploy = genDeploy(t, s)
		op.Deploy.Files = 0
	case "setnode":
		op.SetNode = genSetNode(t, s)
	case "removenode", "noderesource":
		op.Name = rapid.SampledFrom(s.Nodes).Draw(t, "node").Name
	case "removepod", "podresource":
		op.Name = rapid.SampledFrom(s.Pods).Draw(t, "pod")
	}
	// fault paths take locks too (rollbacks): a third of the operations run with one injected failure
	if vt.Chance(t, "withFault", 35) {
		op.Fault = genFault(t, op.Kind, s)
	}
	return op
}

func genC20(t *rapid.T) LockCase {
	c := LockCase{}
	// two pods, nodes spread across them
	c.Setup = genSetup(t, 3)
	c.Setup.Pods = podNames[:2]
	for i := range c.Setup.Nodes {
		c.Setup.Nodes[i].Pod = podNames[rapid.IntRange(0, 1).Draw(t, "podOf2")]
	}
	c.Prep = []Op{genOp(t, c.Setup, []string{"create"}, false), genOp(t, c.Setup, []string{"create"}, false)}
	for i := range c.Prep {
		c.Prep[i].Deploy.Count = 3
		c.Prep[i].Deploy.Strategy = "AUTO"
		c.Prep[i].Deploy.Limit = 0
		c.Prep[i].Deploy.Includes, c.Prep[i].Deploy.Excludes, c.Prep[i].Deploy.NLabels = nil, nil, nil
		c.Prep[i].Deploy.Pod = podNames[i]
		c.Prep[i].Deploy.Res = world.ResSpec{CPU: 0.25, Mem: 16 * MiB}
	}
	n := rapid.IntRange(1, 5).Draw(t, "nOps")
	for i := 0; i < n; i++ {
		c.Ops = append(c.Ops, genC20Op(t, c.Setup))
	}
	if vt.Chance(t, "tightRemove", 15) {
		c.TightRemove = rapid.IntRange(2, 3).Draw(t, "freeWorkers")
		c.TightTarget = rapid.IntRange(0, 5).Draw(t, "tightTarget")
	}
	return c
}

func lockClass(key string) string {
	switch {
	case strings.HasPrefix(key, "plock_"):
		return "pod"
	case strings.HasPrefix(key, "clock_"):
		return "workload"
	case strings.HasPrefix(key, "cnode_op_"):
		return "nodeop"
	}
	return "other"
}

// lockOrderViolation walks the lock events of one epoch.
func lockOrderViolation(h []world.Step) (string, string, int) {
	held := map[int64][]string{} // goroutine -> keys in acquisition order
	maxHeld := 0
	for _, st := range h {
		switch st.Name {
		case "lock.acquired":
			hs := held[st.G]
			cls := lockClass(st.Key)
			for _, k := range hs {
				kc := lockClass(k)
				switch {
				case kc == "nodeop":
					return "acquired-while-holding-node-operation-lock", fmt.Sprintf("goroutine %d acquired %s while holding %s", st.G, st.Key, k), maxHeld
				case cls == "nodeop":
					return "node-operation-lock-while-holding-others", fmt.Sprintf("goroutine %d acquired %s while holding %s", st.G, st.Key, k), maxHeld
				case cls == "pod" && kc == "workload":
					return "pod-lock-after-workload-lock", fmt.Sprintf("goroutine %d acquired %s while holding %s", st.G, st.Key, k), maxHeld
				case cls == kc && k == st.Key:
					return cls + "-lock-repeated", fmt.Sprintf("goroutine %d acquired %s twice", st.G, st.Key), maxHeld
				case cls == kc && k > st.Key:
					return cls + "-locks-not-ascending", fmt.Sprintf("goroutine %d acquired %s after %s", st.G, st.Key, k), maxHeld
				}
			}
			held[st.G] = append(hs, st.Key)
			if len(held[st.G]) > maxHeld {
				maxHeld = len(held[st.G])
			}
		case "lock.released":
			hs := held[st.G]
			for i := len(hs) - 1; i >= 0; i-- {
				if hs[i] == st.Key {
					held[st.G] = append(hs[:i:i], hs[i+1:]...)
					break
				}
			}
		}
	}
	return "", "", maxHeld
}

func runC20(x *vt.Ctx, c LockCase) *vt.Finding {
	w, err := buildWorld(c.Setup)
	if err != nil {
		x.Label("setup-rejected")
		return nil
	}
	defer w.Close()
	for _, op := range c.Prep {
		if out := runOp(w, op); !out.Closed {
			return vt.Failf("op="+op.Kind+":stream-not-closed fault=nofault", "fault-free %s of the prefix: result stream did not close: %s", op.Kind, jsonStr(op))
		}
		settle(w)
	}
	for i, op := range c.Ops {
		if op.Deploy != nil && op.Deploy.Pod == "" {
			// "all pods" filter: the request still names a pod, the filter does not
			d := *op.Deploy
			d.Pod = c.Setup.Pods[0]
			op.Deploy = &d
		}
		out := runOp(w, op)
		settle(w)
		h := w.IC.History()
		key, msg, maxHeld := lockOrderViolation(h)
		x.Label("op=%s", op.Kind)
		if maxHeld >= 2 {
			x.NonTrivial()
			x.Label("held>=2 op=%s", op.Kind)
		}
		if op.Fault != nil && w.IC.FaultFired() {
			x.Label("fault-fired op=%s", op.Kind)
		}
		if key != "" {
			return vt.Failf("op="+op.Kind+":"+key, "op %d %s: %s (outcome %s)\n%s", i, jsonStr(op), msg, jsonStr(out), histStr(h))
		}
	}
	if c.TightRemove > 0 && len(liveIDs(w)) > 0 {
		occupied, release := w.OccupyPool(c.TightRemove)
		defer release()
		if occupied != w.Cfg.MaxConcurrency-c.TightRemove {
			x.Label("tight-remove:pool-not-occupied")
			return nil
		}
		op := Op{Kind: "remove", Targets: []int{c.TightTarget}, Force: true}
		out := runOp(w, op)
		release()
		settle(w)
		h := w.IC.History()
		key, msg, _ := lockOrderViolation(h)
		x.Label("tight-remove free=%d", c.TightRemove)
		if !out.Closed {
			return vt.Failf("op=remove:stream-not-closed tight-pool", "remove of one workload with %d free pool workers: result stream did not close (outcome %s)\n%s", c.TightRemove, jsonStr(out), histStr(h))
		}
		if key != "" {
			return vt.Failf("op=remove:"+key+" tight-pool", "remove of one workload with %d free pool workers: %s (outcome %s)\n%s", c.TightRemove, msg, jsonStr(out), histStr(h))
		}
	}
	return nil
}

var propC20 = vt.Prop[LockCase]{ID: "C20", Test: "TestC20", Gen: genC20, Run: runC20, Retry: timeoutFinding}

func TestC20(t *testing.T) { topT = t; propC20.Check(t) }
