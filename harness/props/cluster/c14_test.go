package cluster

import (
	"context"
	"fmt"
	"strings"
	"testing"
	"time"

	"pgregory.net/rapid"

	"verif/internal/vengine"
	"verif/internal/vt"
	"verif/internal/world"
)

// C14 — a crash during deployment is repaired by recovery.
// The deployment is run fault-free to record its steps, the world is restored, and the
// deployment is run again with the process "crashing" at a recorded step: from that step on no
// intercepted call of the old instance takes effect (they park forever), its leases are
// revoked, a new Calcium is built on the same store, WAL file and engine, and DisasterRecover runs.

type CrashCase struct {
	Setup  Setup            `json:"setup"`
	Prep   []Op             `json:"prep,omitempty"`
	Deploy world.DeploySpec `json:"deploy"`
	Pick   uint32           `json:"pick"`
	After  bool             `json:"after"` // the step takes effect, the process dies before seeing the result
	All    bool             `json:"all,omitempty"`
	At     *world.Fault     `json:"at,omitempty"` // explicit crash step (replays / findings) instead of Pick
	// FailStartMod > 0: the engine refuses to start every FailStartMod-th container it creates, so the
	// interrupted deployment is one with failing instances (its steps include their compensation)
	FailStartMod int `json:"fail_start_mod,omitempty"`
	// Late: the crash position is taken from the last third of the recorded steps (where the
	// compensation of failed instances and the final commits happen) instead of from all of them
	Late bool `json:"late,omitempty"`
}

func genC14(t *rapid.T) CrashCase {
	c := CrashCase{Setup: genSetup(t, 1)}
	if vt.Chance(t, "withPrep", 50) {
		c.Prep = genPrep(t, c.Setup)
	}
	c.Deploy = *genDeploy(t, c.Setup)
	// keep most deployments feasible: small requests
	if vt.Chance(t, "small", 70) {
		c.Deploy.Res = world.ResSpec{Bind: rapid.Bool().Draw(t, "bindSmall"), CPU: 0.25, Mem: 16 * MiB}
		c.Deploy.Includes, c.Deploy.NLabels = nil, nil
	}
	c.Pick = rapid.Uint32().Draw(t, "pick")
	c.After = rapid.Bool().Draw(t, "after")
	if vt.Chance(t, "failingInstances", 45) {
		c.FailStartMod = rapid.SampledFrom([]int{1, 2, 2, 3}).Draw(t, "failStartMod")
		c.Late = vt.Chance(t, "lateCrash", 60)
	}
	c.All = vt.Tier() == "thorough" && vt.Chance(t, "allSteps", 2) // every crash position of one deployment: ~200 crash/recover rounds
	return c
}

func doSteps(h []world.Step) []world.Step {
	var out []world.Step
	for _, st := range h {
		switch st.Name {
		case "lock.acquired", "lock.released", "plan":
			continue
		}
		out = append(out, st)
	}
	return out
}

// allowedLeaks counts, per node, the containers the dying instance had created without having
// (completely) logged them: the leak the property allows.
func allowedLeaks(h []world.Step) map[string]int {
	type gs struct {
		node    string
		created bool
	}
	pending := map[int64]*gs{}
	out := map[string]int{}
	for _, st := range h {
		switch {
		case strings.HasPrefix(st.Name, "engine.VirtualizationCreate@") && st.Done && st.Err == "":
			pending[st.G] = &gs{node: strings.TrimPrefix(st.Name, "engine.VirtualizationCreate@"), created: true}
		case st.Name == "wal.Log(create-workload)" && st.Done && st.Err == "":
			delete(pending, st.G)
		}
	}
	for _, p := range pending {
		out[p.node]++
	}
	return out
}

func runC14(x *vt.Ctx, c CrashCase) *vt.Finding {
	w, err := buildWorld(c.Setup)
	if err != nil {
		x.Label("setup-rejected")
		return nil
	}
	defer func() { w.Close() }()
	for _, op := range c.Prep {
		if out := runOp(w, op); !out.Closed {
			return vt.Failf("op="+op.Kind+":stream-not-closed fault=nofault", "fault-free %s of the prefix: result stream did not close: %s", op.Kind, jsonStr(op))
		}
		settle(w)
	}
	w.IC.Disable(true)
	s0 := takeSnapshot(w)
	w.IC.Disable(false)
	w.Eng.FailStartMod = c.FailStartMod
	if c.FailStartMod > 0 {
		x.Label("deployment-with-failing-instances")
	}

	w.IC.Begin()
	_, _, closed := w.Create(c.Deploy)
	if !closed {
		return vt.Failf("stream-not-closed:nofault", "fault-free create did not close its stream")
	}
	settle(w)
	steps := doSteps(w.IC.History())
	if len(steps) == 0 {
		return nil
	}
	x.Label("strategy=%s", c.Deploy.Strategy)
	positions := []int{int(c.Pick % uint32(len(steps)+1))}
	if c.Late {
		positions = []int{len(steps) - int(c.Pick%uint32(len(steps)/3+1))}
	}
	flavours := []bool{c.After}
	if c.At != nil {
		for i, st := range steps {
			if st.Name == c.At.Name && st.Occ == c.At.Occ {
				positions = []int{i}
			}
		}
	}
	if c.All {
		positions = positions[:0]
		for i := 0; i <= len(steps); i++ {
			positions = append(positions, i)
		}
		flavours = []bool{false, true}
	}
	for _, pos := range positions {
		for _, after := range flavours {
			if f := crashOnce(x, &w, c, s0, steps, pos, after); f != nil {
				return f
			}
		}
	}
	return nil
}

func crashOnce(x *vt.Ctx, wp **world.World, c CrashCase, s0 snapshot, steps []world.Step, pos int, after bool) *vt.Finding {
	w := *wp
	w.IC.Disable(true)
	restoreSnapshot(w, s0)
	w.IC.Disable(false)
	w.IC.Begin()
	crashName := "end"
	if pos < len(steps) {
		w.IC.SetCrash(steps[pos].Seq, after)
		crashName = stepClass(steps[pos].Name)
	}
	fl := "before"
	if after {
		fl = "after"
	}
	desc := fmt.Sprintf("crash %s %s", fl, crashName)
	_, _, closed := w.Create(c.Deploy)
	crashed := w.IC.IsCrashed()
	if !crashed {
		if !closed {
			return vt.Failf("stream-not-closed:"+desc, "create did not close its stream")
		}
		settle(w)
		x.Label("crash-point-not-reached")
	} else {
		// let calls that were in flight at the instant of the crash finish (they park afterwards)
		deadline := time.Now().Add(20 * time.Second)
		for w.IC.Inflight() > 0 && time.Now().Before(deadline) {
			time.Sleep(time.Millisecond)
		}
		time.Sleep(5 * time.Millisecond)
		x.Label("crash=%s:%s", fl, crashName)
	}
	oldHist := w.IC.History()
	leaks := allowedLeaks(oldHist)
	mid := strings.Contains(histStr(oldHist), "plugin.SetNodeResourceUsage") && !strings.Contains(histStr(oldHist), "wal.Commit(allocate-workload)")
	if crashed && mid {
		x.NonTrivial()
		x.Label("crash-between-alloc-and-last-commit")
	}

	// restart + recovery
	w.Restart()
	ctx, cancel := context.WithTimeout(w.Ctx, 120*time.Second)
	w.Cal.DisasterRecover(ctx)
	cancel()
	if !settle(w) {
		return vt.Failf("recovery-not-quiescent:"+desc, "world not quiescent 30s after recovery")
	}
	time.Sleep(20 * time.Millisecond)
	settle(w)

	w.IC.Disable(true)
	defer w.IC.Disable(false)
	fail := func(sym, format string, a ...any) *vt.Finding {
		return vt.Failf(sym+":"+desc, format+"\nold instance: %s\nrecovery: %s", append(a, histStr(oldHist), histStr(w.IC.History()))...)
	}
	if u := usageViolations(w); len(u) > 0 {
		return fail("usage!=sum", "after recovery: %s", strings.Join(u, "; "))
	}
	if keys := processingKeys(w, false); len(keys) > 0 {
		return fail("marker-left", "processing markers left after recovery: %v", keys)
	}
	after1 := takeSnapshot(w)
	conts := map[string]vengine.Container{}
	for _, ct := range after1.eng {
		conts[ct.ID] = ct
	}
	old := map[string]bool{}
	for _, ct := range s0.eng {
		old[ct.ID] = true
		if _, ok := conts[ct.ID]; !ok {
			return fail("old-container-removed", "container %.12s that existed before the deployment is gone", ct.ID)
		}
	}
	for k := range s0.kv {
		if strings.HasPrefix(k, "/workloads/") {
			if _, ok := after1.kv[k]; !ok {
				return fail("old-workload-removed", "workload record %s that existed before the deployment is gone", k)
			}
		}
	}
	recorded := map[string]bool{}
	for k := range after1.kv {
		if strings.HasPrefix(k, "/workloads/") {
			id := strings.TrimPrefix(k, "/workloads/")
			recorded[id] = true
			if _, was := s0.kv[k]; was {
				continue
			}
			ct, ok := conts[id]
			if !ok {
				return fail("recorded-without-container", "new workload %.12s is recorded but has no container", id)
			}
			if !ct.Running {
				return fail("recorded-not-started", "new workload %.12s is recorded but its container is not running", id)
			}
		}
	}
	strays := map[string]int{}
	for id, ct := range conts {
		if !old[id] && !recorded[id] {
			strays[ct.Node]++
		}
	}
	for node, n := range strays {
		if n > leaks[node] {
			return fail("container-left", "%d unrecorded containers left on %s, only %d were created without being logged before the crash", n, node, leaks[node])
		}
	}
	if len(strays) > 0 {
		x.Label("allowed-leak-observed")
	}
	return nil
}

var propC14 = vt.Prop[CrashCase]{ID: "C14", Test: "TestC14", Gen: genC14, Run: runC14, Retry: reproducibleOnly}

func TestC14(t *testing.T) { topT = t; propC14.Check(t) }
