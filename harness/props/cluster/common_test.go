package cluster

import (
	"context"
	"encoding/json"
	"fmt"
	"sort"
	"strings"
	"testing"
	"time"

	"pgregory.net/rapid"

	resourcetypes "github.com/projecteru2/core/resource/types"
	"github.com/projecteru2/core/types"

	"verif/internal/vt"
	"verif/internal/world"
)

func TestMain(m *testing.M) { vt.Main(m) }

// topT is the top-level *testing.T of the running test function: the embedded etcd is keyed by
// it, so every case of one test function shares one etcd (wiped per case).
var topT *testing.T

// ------------------------------------------------------------------------------- case model

// Setup is the cluster a case starts from.
type Setup struct {
	Redis     bool             `json:"redis,omitempty"`
	ShareBase int              `json:"share_base,omitempty"`
	Pods      []string         `json:"pods"`
	Nodes     []world.NodeSpec `json:"nodes"`
	PoolSize  int              `json:"-"` // capacity of calcium's task pool (0: the world's default); set by the runner, not generated
}

// SetNodeSpec is a set-node request. Resource changes are deltas that never push capacity below
// the current usage (a shrink is clipped at run time), because the properties quantify over
// allocations, not over operator-made overcommit.
type SetNodeSpec struct {
	Node     string            `json:"node"`
	Bypass   int               `json:"bypass"` // 0 keep, 1 true, 2 false
	Labels   map[string]string `json:"labels,omitempty"`
	MemDelta int64             `json:"mem_delta,omitempty"` // bytes, may be negative
	AddCore  int               `json:"add_core"`            // -1 none; else add one share to core id AddCore (a new core if it does not exist)
	Abs      bool              `json:"abs,omitempty"`       // absolute request (Delta=false): memory := capacity + max(MemDelta, 0); cores untouched
}

// Op is one cluster API call of a history.
type Op struct {
	Kind    string             `json:"kind"`
	Deploy  *world.DeploySpec  `json:"deploy,omitempty"`
	Targets []int              `json:"targets,omitempty"` // indexes into the live workload list (sorted by id), modulo its length
	Realloc *world.ReallocSpec `json:"realloc,omitempty"`
	SetNode *SetNodeSpec       `json:"set_node,omitempty"`
	Node    *world.NodeSpec    `json:"node,omitempty"`
	Name    string             `json:"name,omitempty"` // node or pod name
	Force   bool               `json:"force,omitempty"`
	Fault   *world.Fault       `json:"fault,omitempty"`
}

var (
	podNames  = []string{"p0", "p1"}
	nodeNames = []string{"n0", "n1", "n2", "n3"}
	appNames  = []string{"a", "b"}
	entries   = []string{"web", "job"}
	MiB       = int64(1 << 20)
)

func genSetup(t *rapid.T, minNodes int) Setup {
	var s Setup
	np := 1
	if vt.Chance(t, "twoPods", 40) {
		np = 2
	}
	s.Pods = podNames[:np]
	nn := rapid.IntRange(minNodes, 4).Draw(t, "nNodes")
	for i := 0; i < nn; i++ {
		ns := world.NodeSpec{Name: nodeNames[i], Pod: s.Pods[rapid.IntRange(0, np-1).Draw(t, "podOf")]}
		ns.CPU = rapid.IntRange(1, 4).Draw(t, "cpu")
		ns.Memory = int64(rapid.IntRange(2, 16).Draw(t, "mem64")) * 64 * MiB
		ns.NUMA = ns.CPU >= 2 && vt.Chance(t, "numa", 35)
		if vt.Chance(t, "label", 40) {
			ns.Labels = map[string]string{"zone": rapid.SampledFrom([]string{"x", "y"}).Draw(t, "zone")}
		}
		s.Nodes = append(s.Nodes, ns)
	}
	return s
}

func genRes(t *rapid.T) world.ResSpec {
	var r world.ResSpec
	r.Bind = vt.Chance(t, "bind", 55)
	if r.Bind {
		r.CPU = rapid.SampledFrom([]float64{0.5, 1, 1.5, 0.25, 2, 0.75}).Draw(t, "cpuBound")
	} else {
		r.CPU = rapid.SampledFrom([]float64{0.5, 0, 1, 0.25}).Draw(t, "cpuUnbound")
	}
	r.Mem = int64(rapid.SampledFrom([]int{32, 64, 0, 128, 256, 16}).Draw(t, "memMiB")) * MiB
	return r
}

func genDeploy(t *rapid.T, s Setup) *world.DeploySpec {
	d := &world.DeploySpec{
		App:   rapid.SampledFrom(appNames).Draw(t, "app"),
		Entry: rapid.SampledFrom(entries).Draw(t, "entry"),
		Pod:   rapid.SampledFrom(s.Pods).Draw(t, "pod"),
		Res:   genRes(t),
	}
	d.Strategy = rapid.SampledFrom([]string{"AUTO", "GLOBAL", "EACH", "FILL", "DRAINED"}).Draw(t, "strategy")
	d.Count = rapid.IntRange(1, 4).Draw(t, "count")
	if vt.Chance(t, "limit", 30) {
		d.Limit = rapid.IntRange(1, 3).Draw(t, "limit")
	}
	switch k := vt.Pct(t, "filter"); {
	case k < 25:
		n := rapid.IntRange(1, 3).Draw(t, "nInc")
		for i := 0; i < n; i++ {
			d.Includes = append(d.Includes, rapid.SampledFrom(s.Nodes).Draw(t, "inc").Name)
		}
	case k < 40:
		d.Excludes = []string{rapid.SampledFrom(s.Nodes).Draw(t, "exc").Name}
	case k < 50:
		d.NLabels = map[string]string{"zone": rapid.SampledFrom([]string{"x", "y"}).Draw(t, "zoneF")}
	}
	if vt.Chance(t, "files", 15) {
		d.Files = rapid.IntRange(1, 2).Draw(t, "nFiles")
	}
	return d
}

func genTargets(t *rapid.T, max int) []int {
	n := rapid.IntRange(1, max).Draw(t, "nTargets")
	out := make([]int, n)
	for i := range out {
		out[i] = rapid.IntRange(0, 7).Draw(t, "target")
	}
	return out
}

func genRealloc(t *rapid.T) *world.ReallocSpec {
	r := &world.ReallocSpec{}
	r.Bind = rapid.SampledFrom([]string{"keep", "bind", "unbind"}).Draw(t, "rebind")
	r.DCPU = rapid.SampledFrom([]float64{0, 0.5, -0.5, 1, -1, 0.25}).Draw(t, "dcpu")
	r.DMem = int64(rapid.SampledFrom([]int{0, 32, -32, 64, -16, 512}).Draw(t, "dmemMiB")) * MiB
	return r
}

func genSetNode(t *rapid.T, s Setup) *SetNodeSpec {
	sn := &SetNodeSpec{Node: rapid.SampledFrom(s.Nodes).Draw(t, "snNode").Name, AddCore: -1}
	sn.Bypass = rapid.IntRange(0, 2).Draw(t, "bypass")
	if vt.Chance(t, "snLabels", 30) {
		sn.Labels = map[string]string{"zone": rapid.SampledFrom([]string{"x", "y"}).Draw(t, "snZone")}
	}
	if vt.Chance(t, "snMem", 50) {
		sn.MemDelta = int64(rapid.SampledFrom([]int{64, -64, 128, -256, 512}).Draw(t, "snMemDelta")) * MiB
	}
	if vt.Chance(t, "snCore", 30) {
		sn.AddCore = rapid.IntRange(0, 4).Draw(t, "snCoreID")
	}
	if vt.Chance(t, "snAbs", 30) {
		sn.Abs = true
		sn.AddCore = -1
	}
	return sn
}

// ------------------------------------------------------------------------------- building

func buildWorld(s Setup) (*world.World, error) {
	w := world.New(topT, world.Options{Redis: s.Redis, ShareBase: s.ShareBase, PoolSize: s.PoolSize})
	w.IC.Disable(true)
	for _, p := range s.Pods {
		if err := w.AddPod(p); err != nil {
			w.Close()
			return nil, fmt.Errorf("setup add pod %s: %w", p, err)
		}
	}
	for _, n := range s.Nodes {
		if err := w.AddNode(n); err != nil {
			w.Close()
			return nil, fmt.Errorf("setup add node %s: %w", n.Name, err)
		}
	}
	w.IC.Disable(false)
	return w, nil
}

func liveIDs(w *world.World) []string {
	var ids []string
	for _, wl := range w.AllWorkloads() {
		ids = append(ids, wl.ID)
	}
	sort.Strings(ids)
	return ids
}

func pick(ids []string, targets []int) []string {
	if len(ids) == 0 {
		return nil
	}
	var out []string
	for _, t := range targets {
		out = append(out, ids[t%len(ids)])
	}
	return out
}

// Outcome is what an executed op reported.
type Outcome struct {
	Kind      string   `json:"kind"`
	Err       string   `json:"err,omitempty"`       // whole-call error
	Succeeded []string `json:"succeeded,omitempty"` // workload ids the call reports as done (created / removed / dissociated / realloc'ed / replaced-old)
	Created   []string `json:"created,omitempty"`   // new workload ids reported successful (create / replace)
	Failed    []string `json:"failed,omitempty"`    // workload ids (or "" placeholders) reported failed
	FailMsgs  []string `json:"fail_msgs,omitempty"`
	Messages  int      `json:"messages"`
	Closed    bool     `json:"closed"`
	Targets   []string `json:"targets,omitempty"`
}

func (r *opRunner) setNodeOptions(sn *SetNodeSpec) *types.SetNodeOptions {
	o := &types.SetNodeOptions{Nodename: sn.Node, Labels: sn.Labels, Delta: true}
	switch sn.Bypass {
	case 1:
		o.Bypass = types.TriTrue
	case 2:
		o.Bypass = types.TriFalse
	}
	p := resourcetypes.RawParams{}
	if sn.Abs {
		o.Delta = false
		r.w.IC.Disable(true)
		rec, ok := r.w.RawNodeRecord(sn.Node)
		r.w.IC.Disable(false)
		if ok {
			p["memory"] = fmt.Sprint(rec.Capacity.Memory + max(sn.MemDelta, 0))
			o.Resources = resourcetypes.Resources{"cpumem": p}
		}
		return o
	}
	if sn.MemDelta != 0 {
		d := sn.MemDelta
		if d < 0 {
			r.w.IC.Disable(true)
			rec, ok := r.w.RawNodeRecord(sn.Node)
			r.w.IC.Disable(false)
			if ok {
				room := rec.Capacity.Memory - rec.Usage.Memory
				for n, c := range rec.Capacity.NUMAMemory { // NUMA memory is not touched by a plain memory delta
					_ = n
					_ = c
				}
				if -d > room {
					d = -room
				}
			} else {
				d = 0
			}
		}
		if d != 0 {
			p["memory"] = fmt.Sprint(d)
		}
	}
	if sn.AddCore >= 0 {
		p["cpu"] = fmt.Sprintf("%d:100", sn.AddCore)
	}
	if len(p) > 0 {
		o.Resources = resourcetypes.Resources{"cpumem": p}
	}
	return o
}

type opRunner struct{ w *world.World }

// runOp executes one op against the world and reports its outcome. The fault (if any) is armed
// for the duration of the call; everything after it is quiescent.
func runOp(w *world.World, op Op) Outcome { return runOpWith(w, op, true) }

func runOpWith(w *world.World, op Op, begin bool) Outcome {
	out := Outcome{Kind: op.Kind, Closed: true}
	if begin {
		w.IC.Begin()
		if op.Fault != nil {
			w.IC.SetFault(op.Fault)
		}
	}
	ids := liveIDs0(w)
	switch op.Kind {
	case "create":
		msgs, err, closed := w.Create(*op.Deploy)
		out.Closed = closed
		out.Messages = len(msgs)
		if err != nil {
			out.Err = err.Error()
		}
		for _, m := range msgs {
			if m.Error != nil {
				out.Failed = append(out.Failed, m.WorkloadID)
				out.FailMsgs = append(out.FailMsgs, m.Error.Error())
			} else {
				out.Created = append(out.Created, m.WorkloadID)
			}
		}
	case "remove":
		out.Targets = pick(ids, op.Targets)
		if len(out.Targets) == 0 {
			break
		}
		msgs, err, closed := w.Remove(out.Targets, op.Force)
		out.Closed = closed
		out.Messages = len(msgs)
		if err != nil {
			out.Err = err.Error()
		}
		for _, m := range msgs {
			if m.Success {
				out.Succeeded = append(out.Succeeded, m.WorkloadID)
			} else {
				out.Failed = append(out.Failed, m.WorkloadID)
			}
		}
	case "dissociate":
		out.Targets = pick(ids, op.Targets)
		if len(out.Targets) == 0 {
			break
		}
		msgs, err, closed := w.Dissociate(out.Targets)
		out.Closed = closed
		out.Messages = len(msgs)
		if err != nil {
			out.Err = err.Error()
		}
		for _, m := range msgs {
			if m.Error == nil {
				out.Succeeded = append(out.Succeeded, m.WorkloadID)
			} else {
				out.Failed = append(out.Failed, m.WorkloadID)
				out.FailMsgs = append(out.FailMsgs, m.Error.Error())
			}
		}
	case "realloc":
		out.Targets = pick(ids, op.Targets[:1])
		if len(out.Targets) == 0 {
			break
		}
		if err := w.Realloc(out.Targets[0], *op.Realloc); err != nil {
			out.Err = err.Error()
			out.Failed = out.Targets
		} else {
			out.Succeeded = out.Targets
		}
	case "replace":
		out.Targets = uniq(pick(ids, op.Targets))
		if len(out.Targets) == 0 {
			break
		}
		msgs, err, closed := w.Replace(*op.Deploy, out.Targets)
		out.Closed = closed
		out.Messages = len(msgs)
		if err != nil {
			out.Err = err.Error()
		}
		for _, m := range msgs {
			old := ""
			if m.Remove != nil {
				old = m.Remove.WorkloadID
			}
			if m.Error == nil {
				out.Succeeded = append(out.Succeeded, old)
				if m.Create != nil {
					out.Created = append(out.Created, m.Create.WorkloadID)
				}
			} else {
				out.Failed = append(out.Failed, old)
				out.FailMsgs = append(out.FailMsgs, m.Error.Error())
			}
		}
	case "setnode":
		ctx, cancel := context.WithTimeout(w.Ctx, 60*time.Second)
		_, err := w.Cal.SetNode(ctx, (&opRunner{w}).setNodeOptions(op.SetNode))
		cancel()
		if err != nil {
			out.Err = err.Error()
		}
	case "addnode":
		if err := w.AddNode(*op.Node); err != nil {
			out.Err = err.Error()
		}
	case "removenode":
		ctx, cancel := context.WithTimeout(w.Ctx, 60*time.Second)
		err := w.Cal.RemoveNode(ctx, op.Name)
		cancel()
		if err != nil {
			out.Err = err.Error()
		}
	case "addpod":
		if err := w.AddPod(op.Name); err != nil {
			out.Err = err.Error()
		}
	case "removepod":
		ctx, cancel := context.WithTimeout(w.Ctx, 60*time.Second)
		err := w.Cal.RemovePod(ctx, op.Name)
		cancel()
		if err != nil {
			out.Err = err.Error()
		}
	case "control":
		out.Targets = pick(ids, op.Targets)
		if len(out.Targets) == 0 {
			break
		}
		ctx, cancel := context.WithTimeout(w.Ctx, 60*time.Second)
		ch, err := w.Cal.ControlWorkload(ctx, append([]string(nil), out.Targets...), op.Name, op.Force)
		if err != nil {
			out.Err = err.Error()
		} else {
			for m := range ch {
				out.Messages++
				if m.Error != nil {
					out.Failed = append(out.Failed, m.WorkloadID)
				} else {
					out.Succeeded = append(out.Succeeded, m.WorkloadID)
				}
			}
		}
		cancel()
	case "send":
		out.Targets = pick(ids, op.Targets)
		if len(out.Targets) == 0 {
			break
		}
		ctx, cancel := context.WithTimeout(w.Ctx, 60*time.Second)
		ch, err := w.Cal.Send(ctx, &types.SendOptions{IDs: append([]string(nil), out.Targets...), Files: []types.LinuxFile{{Filename: "/s", Content: []byte("data"), Mode: 0o644}}})
		if err != nil {
			out.Err = err.Error()
		} else {
			for m := range ch {
				out.Messages++
				if m.Error != nil {
					out.Failed = append(out.Failed, m.ID)
				} else {
					out.Succeeded = append(out.Succeeded, m.ID)
				}
			}
		}
		cancel()
	case "capacity":
		ctx, cancel := context.WithTimeout(w.Ctx, 60*time.Second)
		_, err := w.Cal.CalculateCapacity(ctx, op.Deploy.Options())
		cancel()
		if err != nil {
			out.Err = err.Error()
		}
	case "podresource":
		ctx, cancel := context.WithTimeout(w.Ctx, 60*time.Second)
		ch, err := w.Cal.PodResource(ctx, op.Name)
		if err != nil {
			out.Err = err.Error()
		} else {
			for range ch {
				out.Messages++
			}
		}
		cancel()
	case "fixnode":
		ctx, cancel := context.WithTimeout(w.Ctx, 60*time.Second)
		_, err := w.Cal.NodeResource(ctx, op.Name, true)
		cancel()
		if err != nil {
			out.Err = err.Error()
		}
	case "noderesource":
		ctx, cancel := context.WithTimeout(w.Ctx, 60*time.Second)
		_, err := w.Cal.NodeResource(ctx, op.Name, false)
		cancel()
		if err != nil {
			out.Err = err.Error()
		}
	default:
		panic("unknown op kind " + op.Kind)
	}
	if begin {
		w.IC.DisarmFault()
	}
	return out
}

func liveIDs0(w *world.World) []string {
	w.IC.Disable(true)
	defer w.IC.Disable(false)
	return liveIDs(w)
}

func uniq(s []string) []string {
	seen := map[string]bool{}
	var out []string
	for _, x := range s {
		if !seen[x] {
			seen[x] = true
			out = append(out, x)
		}
	}
	return out
}

// settle waits for the world to be quiescent; false = timed out.
func settle(w *world.World) bool { return w.Quiesce(30 * time.Second) }

// ------------------------------------------------------------------------------- oracles

// usageViolations runs the §3.3 usage oracle on every recorded node.
func usageViolations(w *world.World) []string {
	var out []string
	for _, n := range w.AllNodes() {
		for _, d := range w.CheckNodeUsage(n.Name) {
			out = append(out, n.Name+": "+d)
		}
	}
	sort.Strings(out)
	return out
}

func faultKey(op Op) string {
	if op.Fault == nil {
		return "nofault"
	}
	name := op.Fault.Name
	if i := strings.IndexByte(name, '@'); i >= 0 {
		name = name[:i]
	}
	return name
}

func jsonStr(v any) string { b, _ := json.Marshal(v); return string(b) }

// faultNames is the table of call classes an operation kind makes (observed from recorded
// histories); a generated fault is (name, k-th occurrence). Engine call names get "@node".
var faultNames = map[string][]string{
	"create": {"store.GetNodesByPod", "store.GetNode", "lock.Lock", "wal.Log(allocate-workload)", "plugin.GetNodesDeployCapacity",
		"store.GetDeployStatus", "plugin.CalculateDeploy", "plugin.SetNodeResourceUsage", "wal.Log(create-processing)",
		"store.CreateProcessing", "engine.VirtualizationCreate", "wal.Log(create-workload)", "store.AddWorkload",
		"engine.VirtualizationStart", "engine.VirtualizationInspect", "engine.VirtualizationCopyChunkTo", "store.UpdateWorkload",
		"wal.Commit(create-workload)", "wal.Commit(create-processing)", "wal.Commit(allocate-workload)", "store.DeleteProcessing"},
	"remove": {"store.GetWorkloads", "store.GetNode", "lock.Lock", "plugin.SetNodeResourceUsage", "store.RemoveWorkload",
		"engine.VirtualizationRemove"},
	"dissociate": {"store.GetWorkloads", "store.GetNode", "lock.Lock", "plugin.SetNodeResourceUsage", "store.RemoveWorkload"},
	"realloc": {"store.GetWorkload", "store.GetNode", "lock.Lock", "store.GetWorkloads", "plugin.CalculateRealloc",
		"plugin.SetNodeResourceUsage", "store.UpdateWorkload", "engine.VirtualizationUpdateResource"},
	"replace": {"store.GetWorkloads", "lock.Lock", "store.GetNode", "engine.VirtualizationStop", "engine.VirtualizationCreate",
		"wal.Log(create-workload)", "store.AddWorkload", "engine.VirtualizationStart", "engine.VirtualizationInspect",
		"store.RemoveWorkload", "engine.VirtualizationRemove", "wal.Commit(create-workload)"},
	"setnode":    {"store.GetNode", "lock.Lock", "plugin.GetNodeResourceInfo", "plugin.SetNodeResourceCapacity", "store.UpdateNodes"},
	"addnode":    {"engine.Info", "plugin.AddNode", "store.AddNode"},
	"removenode": {"store.GetNode", "lock.Lock", "store.ListNodeWorkloads", "store.SetNodeStatus", "store.RemoveNode", "plugin.RemoveNode"},
}

func genFault(t *rapid.T, kind string, s Setup) *world.Fault {
	names := faultNames[kind]
	if len(names) == 0 {
		return nil
	}
	name := rapid.SampledFrom(names).Draw(t, "faultName")
	if strings.HasPrefix(name, "engine.") {
		name += "@" + rapid.SampledFrom(s.Nodes).Draw(t, "faultNode").Name
	}
	return &world.Fault{Name: name, Occ: rapid.IntRange(1, 3).Draw(t, "faultOcc")}
}

// timeoutFinding: findings that rest on a watchdog (stream did not close, world not quiescent).
// reproducibleOnly: every finding of the fault / crash enumerations is run once more and counts only
// if it shows again with the same key. Their cases run dozens of real goroutines against real
// etcd; on a saturated machine a compensating step can fail on its own (a plugin call running
// into its deadline) or a straggler of the previous round can act late, which looks like a lasting
// effect once and never again. Genuine schedule-dependent defects (e.g. the remap-before-rollback
// one, 2ffb3eb) showed in several shards and survive this; a one-off is counted as inconclusive.
func reproducibleOnly(*vt.Finding) bool { return true }

func timeoutFinding(f *vt.Finding) bool {
	return strings.Contains(f.Key, "stream-not-closed") || strings.Contains(f.Key, "not-quiescent")
}
