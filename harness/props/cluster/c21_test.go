package cluster

import (
	"context"
	"fmt"
	"sort"
	"strings"
	"testing"
	"time"

	"pgregory.net/rapid"

	"github.com/projecteru2/core/types"

	"verif/internal/vt"
	"verif/internal/world"
)

// C21 — node selection yields exactly the filtered set of distinct nodes.
// Observed set = the nodes Calcium.CalculateCapacity(strategy DUMMY, zero request) offers (every
// selected node has unlimited capacity for an empty request), i.e. what filterNodes +
// withNodesPodLocked handed to the resource manager. Reference = written from the statement.

type SelNode struct {
	Spec   world.NodeSpec `json:"spec"`
	Up     bool           `json:"up"`     // non-test nodes only: has a heartbeat status
	Bypass bool           `json:"bypass"` // marked down by the operator
}

type SelCase struct {
	Redis  bool             `json:"redis,omitempty"`
	Pods   []string         `json:"pods"`
	Nodes  []SelNode        `json:"nodes"`
	Filter world.DeploySpec `json:"filter"` // only Pod/AnyPod/Includes/Excludes/NLabels/All matter
}

func genC21(t *rapid.T) SelCase {
	c := SelCase{Redis: vt.Chance(t, "redis", 30)}
	np := rapid.IntRange(1, 2).Draw(t, "nPods")
	c.Pods = podNames[:np]
	nn := rapid.IntRange(1, 5).Draw(t, "nNodes")
	names := []string{"n0", "n1", "n2", "n3", "n4"}
	for i := 0; i < nn; i++ {
		sn := SelNode{Spec: world.NodeSpec{Name: names[i], Pod: c.Pods[rapid.IntRange(0, np-1).Draw(t, "podOf")], CPU: 2, Memory: 256 * MiB}}
		sn.Spec.NonTest = vt.Chance(t, "nonTest", 60)
		sn.Up = vt.Chance(t, "up", 60)
		sn.Bypass = vt.Chance(t, "bypassed", 25)
		switch vt.Pct(t, "labels") / 25 {
		case 0:
			sn.Spec.Labels = map[string]string{"zone": "x"}
		case 1:
			sn.Spec.Labels = map[string]string{"zone": "y", "disk": "ssd"}
		case 2:
			sn.Spec.Labels = map[string]string{"disk": "ssd"}
		}
		if vt.Chance(t, "flagLabel", 30) { // a label that is a bare flag: present with an empty value
			if sn.Spec.Labels == nil {
				sn.Spec.Labels = map[string]string{}
			}
			sn.Spec.Labels["gpu"] = ""
		}
		c.Nodes = append(c.Nodes, sn)
	}
	f := world.DeploySpec{App: "a", Entry: "web", Strategy: "DUMMY", Count: 1}
	f.Pod = rapid.SampledFrom(c.Pods).Draw(t, "filterPod")
	f.AnyPod = vt.Chance(t, "anyPod", 20)
	f.All = vt.Chance(t, "all", 30)
	switch k := vt.Pct(t, "filterKind"); {
	case k < 40:
		n := rapid.IntRange(1, 5).Draw(t, "nInc")
		for i := 0; i < n; i++ {
			f.Includes = append(f.Includes, rapid.SampledFrom(names[:min(nn+1, 5)]).Draw(t, "inc"))
		}
	default:
		if k < 70 {
			n := rapid.IntRange(1, 2).Draw(t, "nExc")
			for i := 0; i < n; i++ {
				f.Excludes = append(f.Excludes, rapid.SampledFrom(names).Draw(t, "exc"))
			}
		}
		switch vt.Pct(t, "labelFilter") / 20 {
		case 0:
			f.NLabels = map[string]string{"zone": "x"}
		case 1:
			f.NLabels = map[string]string{"disk": "ssd"}
		case 2:
			f.NLabels = map[string]string{"zone": "y", "disk": "ssd"}
		case 3:
			f.NLabels = map[string]string{"gpu": ""}
			if vt.Chance(t, "flagAndZone", 40) {
				f.NLabels["zone"] = "x"
			}
		}
	}
	c.Filter = f
	return c
}

// expectedSelection is the reference, written from the statement. ok=false: the request must fail.
func (c SelCase) expectedSelection() (set []string, ok bool) {
	exists := map[string]SelNode{}
	for _, n := range c.Nodes {
		exists[n.Spec.Name] = n
	}
	seen := map[string]bool{}
	f := c.Filter
	if len(f.Includes) > 0 {
		for _, name := range f.Includes {
			if _, e := exists[name]; !e {
				return nil, false
			}
			if !seen[name] {
				seen[name] = true
				set = append(set, name)
			}
		}
		sort.Strings(set)
		return set, true
	}
	exc := map[string]bool{}
	for _, e := range f.Excludes {
		exc[e] = true
	}
	for _, n := range c.Nodes {
		if !f.AnyPod && n.Spec.Pod != f.Pod {
			continue
		}
		match := true
		for k, v := range f.NLabels {
			if have, carries := n.Spec.Labels[k]; !carries || have != v { // "carry the requested labels": present, with that value
				match = false
			}
		}
		down := n.Bypass || (n.Spec.NonTest && !n.Up)
		if !match || exc[n.Spec.Name] || (down && !f.All) {
			continue
		}
		set = append(set, n.Spec.Name)
	}
	sort.Strings(set)
	return set, true
}

func runC21(x *vt.Ctx, c SelCase) *vt.Finding {
	var specs []world.NodeSpec
	for _, n := range c.Nodes {
		specs = append(specs, n.Spec)
	}
	w, err := buildWorld(Setup{Redis: c.Redis, Pods: c.Pods, Nodes: specs})
	if err != nil {
		x.Label("setup-rejected")
		return nil
	}
	defer w.Close()
	w.IC.Disable(true)
	for _, n := range c.Nodes {
		ctx, cancel := context.WithTimeout(w.Ctx, 20*time.Second)
		if n.Spec.NonTest && n.Up {
			if err := w.RawStore.SetNodeStatus(ctx, &types.Node{NodeMeta: types.NodeMeta{Name: n.Spec.Name, Podname: n.Spec.Pod}}, 600); err != nil {
				cancel()
				return vt.Failf("harness:set-node-status", "%v", err)
			}
		}
		if n.Bypass {
			if _, err := w.Cal.SetNode(ctx, &types.SetNodeOptions{Nodename: n.Spec.Name, Bypass: types.TriTrue}); err != nil {
				cancel()
				return vt.Failf("harness:set-node-bypass", "%v", err)
			}
		}
		cancel()
	}
	settle(w)
	w.IC.Disable(false)
	f := c.Filter
	f.Res = world.ResSpec{}
	want, ok := c.expectedSelection()
	backend := "etcd"
	if c.Redis {
		backend = "redis"
	}
	x.Label("backend=%s", backend)
	repeats := len(f.Includes) != len(uniq(f.Includes))
	hasDown := false
	for _, n := range c.Nodes {
		if n.Bypass || (n.Spec.NonTest && !n.Up) {
			hasDown = true
		}
	}
	if repeats || hasDown {
		x.NonTrivial()
	}
	if repeats {
		x.Label("include-repeats")
	}
	ctx, cancel := context.WithTimeout(w.Ctx, 60*time.Second)
	msg, err := w.Cal.CalculateCapacity(ctx, f.Options())
	cancel()
	var got []string
	if err == nil {
		for n := range msg.NodeCapacities {
			got = append(got, n)
		}
		sort.Strings(got)
	}
	cls := "pod-filter"
	if len(f.Includes) > 0 {
		cls = "includes"
	}
	switch {
	case !ok:
		x.Label("expect-error")
		if err == nil {
			return vt.Failf(cls+":missing-node-accepted@"+backend, "include list %v names a missing node but selection succeeded with %v", f.Includes, got)
		}
	case len(want) == 0:
		x.Label("expect-empty")
		if err == nil && len(got) > 0 {
			return vt.Failf(cls+":extra-nodes@"+backend, "filter %s: expected no node, got %v", jsonStr(f), got)
		}
	default:
		if err != nil {
			return vt.Failf(cls+":selection-failed@"+backend, "filter %s: expected %v, call failed: %v", jsonStr(f), want, err)
		}
		if strings.Join(got, ",") != strings.Join(want, ",") {
			sym := "wrong-set"
			if len(got) < len(want) {
				sym = "nodes-dropped"
			}
			if repeats {
				sym += ":include-repeats"
			}
			return vt.Failf(fmt.Sprintf("%s:%s@%s", cls, sym, backend), "filter %s: expected %v, got %v", jsonStr(f), want, got)
		}
	}
	// the image operations select nodes through the same filter (pod or include list only) and act
	// once per selected node: ListImage answers with one message per node it asked
	if f.NLabels == nil && len(f.Excludes) == 0 && !f.All && !f.AnyPod {
		var wantImg []string
		okImg := true
		if len(f.Includes) > 0 {
			wantImg, okImg = want, ok
		} else {
			for _, n := range c.Nodes {
				down := n.Bypass || (n.Spec.NonTest && !n.Up)
				if n.Spec.Pod == f.Pod && !down {
					wantImg = append(wantImg, n.Spec.Name)
				}
			}
			sort.Strings(wantImg)
		}
		ctx, cancel := context.WithTimeout(w.Ctx, 60*time.Second)
		ch, err := w.Cal.ListImage(ctx, &types.ImageOptions{Podname: f.Pod, Nodenames: append([]string(nil), f.Includes...)})
		var gotImg []string
		if err == nil {
			for m := range ch {
				gotImg = append(gotImg, m.Nodename)
			}
		}
		cancel()
		sort.Strings(gotImg)
		x.Label("image-op-checked")
		if okImg && len(wantImg) > 0 {
			if err != nil {
				return vt.Failf(cls+":image-op-selection-failed@"+backend, "ListImage over %s: expected nodes %v, call failed: %v", jsonStr(f), wantImg, err)
			}
			if strings.Join(gotImg, ",") != strings.Join(wantImg, ",") {
				sym := "image-op-wrong-set"
				if len(gotImg) > len(uniq(gotImg)) {
					sym = "image-op-node-acted-on-twice"
				}
				return vt.Failf(fmt.Sprintf("%s:%s@%s", cls, sym, backend), "ListImage over %s acted on %v, expected each of %v exactly once", jsonStr(f), gotImg, wantImg)
			}
		} else if err == nil && len(gotImg) > 0 && okImg {
			return vt.Failf(cls+":image-op-extra-nodes@"+backend, "ListImage over %s acted on %v, expected no node", jsonStr(f), gotImg)
		}
	}
	return nil
}

var propC21 = vt.Prop[SelCase]{ID: "C21", Test: "TestC21", Gen: genC21, Run: runC21}

func TestC21(t *testing.T) { topT = t; propC21.Check(t) }
