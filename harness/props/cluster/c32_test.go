package cluster

import (
	"encoding/json"
	"fmt"
	"sort"
	"strings"
	"testing"
	"time"

	"pgregory.net/rapid"

	"verif/internal/vt"
	"verif/internal/world"
)

// C32 at the engine: props/cobalt decides what the resource manager ANSWERS for a remap; this
// property follows the answer to the containers. One node, bound and unbound workloads, then a
// change of binding (bound create / remove / dissociate / realloc) during which the engine may
// refuse ONE resource update (a container in trouble). At the quiescent end every unbound
// workload — except at most the one whose update was refused — must sit on exactly the cores with
// at least a whole core of free pieces (all cores if there are none), computed by the harness
// from the raw capacity record and the recorded workloads; bound workloads sit on their own cores.

type RemapCase struct {
	Cores   int       `json:"cores"`
	Unbound int       `json:"unbound"`
	Bound   []float64 `json:"bound"` // cpu of bound workloads created first
	Change  Op        `json:"change"`
	Fault   int       `json:"fault"` // -1 none; else the k-th engine resource update after the change began is refused
	// FailStep (create only): this step of the bound create fails instead, so the create allocates cores,
	// fails and gives them back — a change of binding and its reversal
	FailStep string `json:"fail_step,omitempty"`
}

func genC32World(t *rapid.T) RemapCase {
	c := RemapCase{Cores: rapid.IntRange(2, 5).Draw(t, "cores"), Fault: -1}
	c.Unbound = 1 + vt.Pct(t, "unbound")%4
	nb := vt.Pct(t, "nBound") % 3
	for i := 0; i < nb; i++ {
		c.Bound = append(c.Bound, rapid.SampledFrom([]float64{1, 1, 2, 1.5, 0.5}).Draw(t, "bcpu"))
	}
	kinds := []string{"create"}
	if nb > 0 {
		kinds = append(kinds, "remove", "dissociate", "realloc")
	}
	c.Change = Op{Kind: rapid.SampledFrom(kinds).Draw(t, "change")}
	switch c.Change.Kind {
	case "create":
		c.Change.Deploy = &world.DeploySpec{App: "b", Entry: "x", Pod: "p0", Strategy: "AUTO", Count: 1, Res: world.ResSpec{Bind: true, CPU: rapid.SampledFrom([]float64{1, 2, 1.5}).Draw(t, "ccpu"), Mem: 16 * MiB}}
	case "remove", "dissociate":
		c.Change.Targets = []int{rapid.IntRange(0, nb-1).Draw(t, "target")}
		c.Change.Force = true
	case "realloc":
		c.Change.Targets = []int{rapid.IntRange(0, nb-1).Draw(t, "target")}
		c.Change.Realloc = &world.ReallocSpec{Bind: "keep", DCPU: rapid.SampledFrom([]float64{1, -1, 1, 0.5}).Draw(t, "dcpu")}
	}
	if c.Change.Kind == "create" && vt.Chance(t, "failingCreate", 35) {
		c.FailStep = rapid.SampledFrom([]string{"engine.VirtualizationStart@n0", "store.AddWorkload", "engine.VirtualizationCreate@n0", "wal.Log(create-workload)"}).Draw(t, "failStep")
	} else if vt.Chance(t, "fault", 60) {
		c.Fault = rapid.IntRange(1, c.Unbound+1).Draw(t, "faultOcc")
	}
	return c
}

func cpusetOf(params any) []string {
	b, _ := json.Marshal(params)
	var p map[string]struct {
		CPUMap map[string]int `json:"cpu_map"`
	}
	_ = json.Unmarshal(b, &p)
	var out []string
	for c := range p["cpumem"].CPUMap {
		out = append(out, c)
	}
	sort.Strings(out)
	return out
}

func runC32World(x *vt.Ctx, c RemapCase) *vt.Finding {
	setup := Setup{Pods: []string{"p0"}, Nodes: []world.NodeSpec{{Name: "n0", Pod: "p0", CPU: c.Cores, Memory: 4096 * MiB}}}
	w, err := buildWorld(setup)
	if err != nil {
		x.Label("setup-rejected")
		return nil
	}
	defer w.Close()
	// bound workloads first (ids in creation order: the targets of the change index them)
	var boundIDs []string
	for _, cpu := range c.Bound {
		out := runOp(w, Op{Kind: "create", Deploy: &world.DeploySpec{App: "b", Entry: "x", Pod: "p0", Strategy: "AUTO", Count: 1, Res: world.ResSpec{Bind: true, CPU: cpu, Mem: 16 * MiB}}})
		boundIDs = append(boundIDs, out.Created...)
		settle(w)
	}
	out := runOp(w, Op{Kind: "create", Deploy: &world.DeploySpec{App: "u", Entry: "x", Pod: "p0", Strategy: "AUTO", Count: c.Unbound, Res: world.ResSpec{CPU: 0.2, Mem: 16 * MiB}}})
	if len(out.Created) != c.Unbound {
		x.Label("setup-create-failed")
		return nil
	}
	settle(w)
	poolBefore := strings.Join(expectedPool(w, c.Cores), ",")

	op := c.Change
	if len(op.Targets) > 0 {
		if op.Targets[0] >= len(boundIDs) {
			x.Label("no-target")
			return nil
		}
		pos := -1
		for i, id := range liveIDs0(w) {
			if id == boundIDs[op.Targets[0]] {
				pos = i
			}
		}
		if pos < 0 {
			x.Label("no-target")
			return nil
		}
		op.Targets = []int{pos}
	}
	// the fault stays armed after the call returned: the remap runs asynchronously
	w.IC.Begin()
	if c.FailStep != "" {
		w.IC.SetFault(&world.Fault{Name: c.FailStep, Occ: 1})
	} else if c.Fault >= 1 {
		w.IC.SetFault(&world.Fault{Name: "engine.VirtualizationUpdateResource@n0", Occ: c.Fault})
	}
	res := runOpWith(w, op, false)
	injected := false
	var bad []string
	var pool []string
	for try := 0; try < 6; try++ { // the remap is asynchronous: re-read before concluding
		settle(w)
		bad = bad[:0]
		pool = expectedPool(w, c.Cores)
		for _, wl := range w.NodeWorkloads("n0") {
			r := world.WorkloadRes(wl.Resources)
			ct, ok := w.Eng.Get(wl.ID)
			if !ok {
				continue
			}
			got := cpusetOf(ct.Params)
			if len(r.CPUMap) == 0 {
				if strings.Join(got, ",") != strings.Join(pool, ",") {
					bad = append(bad, fmt.Sprintf("unbound %.8s on cores [%s]", wl.ID, strings.Join(got, ",")))
				}
			}
		}
		if len(bad) == 0 {
			break
		}
		time.Sleep(40 * time.Millisecond)
	}
	for _, st := range w.IC.History() {
		if st.Injected {
			injected = true
		}
	}
	w.IC.DisarmFault()
	changed := strings.Join(pool, ",") != poolBefore
	x.Label("change=%s injected=%v pool-changed=%v failed=%v", c.Change.Kind, injected, changed, reportedFailure(res))
	if changed && c.Unbound >= 2 {
		x.NonTrivial()
	}
	allowed := 0
	if injected && c.FailStep == "" {
		allowed = 1
	}
	if c.FailStep != "" {
		x.Label("failing-create step=%s injected=%v", c.FailStep, injected)
	}
	sort.Strings(bad)
	if len(bad) > allowed {
		kind := c.Change.Kind
		if c.FailStep != "" {
			kind = "failed-create"
		}
		return vt.Failf(fmt.Sprintf("engine-cpuset-stale:change=%s:injected=%v", kind, injected),
			"after %s (injected failure fired: %v) the pool of cores with a whole free core is [%s], but %d unbound workloads sit elsewhere (at most %d may: a workload whose own engine update was refused): %s",
			kind, injected, strings.Join(pool, ","), len(bad), allowed, strings.Join(bad, "; "))
	}
	return nil
}

// expectedPool: cores with >= one whole core of free pieces (share base 100), all cores if none —
// from the raw capacity record and the workloads recorded on the node.
func expectedPool(w *world.World, cores int) []string {
	rec, ok := w.RawNodeRecord("n0")
	if !ok {
		return nil
	}
	sum := world.SumWorkloads(w.NodeWorkloads("n0"))
	var pool, all []string
	for core, cap := range rec.Capacity.CPUMap {
		all = append(all, core)
		if cap-sum.CPUMap[core] >= 100 {
			pool = append(pool, core)
		}
	}
	if len(pool) == 0 {
		pool = all
	}
	sort.Strings(pool)
	return pool
}

var propC32World = vt.Prop[RemapCase]{ID: "C32", Test: "TestC32World", Gen: genC32World, Run: runC32World}

func TestC32World(t *testing.T) { topT = t; propC32World.Check(t) }
