package cluster

import (
	"fmt"
	"sort"
	"strings"
	"testing"
	"time"

	"pgregory.net/rapid"

	"verif/internal/vengine"
	"verif/internal/vt"
	"verif/internal/world"
)

// C11 — a failed cluster operation leaves no lasting effect.
// One-shot: a fault-free prefix builds a state S0; the operation is run once fault-free to
// record the steps it performs; the world is restored to S0; the operation is run again with a
// single injected failure at a step drawn from the recorded list (thorough: at every step).

// FaultCase is one case of C11 (and, with Op.Kind == "create", of C12).
type FaultCase struct {
	Setup Setup        `json:"setup"`
	Prep  []Op         `json:"prep"`
	Op    Op           `json:"op"`
	Pick  uint32       `json:"pick"`            // fault position = Pick mod number of recorded steps
	All   bool         `json:"all,omitempty"`   // every recorded step in turn
	Fixed *world.Fault `json:"fixed,omitempty"` // explicit fault (replays, known findings) instead of Pick
}

var c11Kinds = []string{"create", "create", "remove", "dissociate", "realloc", "realloc", "replace", "replace", "addnode", "removenode", "setnode", "setnode"}

func genPrep(t *rapid.T, s Setup) []Op {
	n := rapid.IntRange(1, 4).Draw(t, "nPrep")
	var out []Op
	for i := 0; i < n; i++ {
		kinds := []string{"create"}
		if i > 0 {
			kinds = []string{"create", "create", "remove", "realloc", "setnode", "dissociate"}
		}
		out = append(out, genOp(t, s, kinds, false))
	}
	return out
}

func genC11Op(t *rapid.T, s Setup, kinds []string) Op {
	op := Op{Kind: rapid.SampledFrom(kinds).Draw(t, "opKind")}
	switch op.Kind {
	case "addnode":
		// a node name that may or may not exist already
		name := rapid.SampledFrom([]string{"n0", "n1", "n2", "n3", "n4", "n5"}).Draw(t, "newNode")
		ns := world.NodeSpec{Name: name, Pod: rapid.SampledFrom(s.Pods).Draw(t, "newNodePod"), CPU: rapid.IntRange(1, 4).Draw(t, "newNodeCPU"), Memory: 512 * MiB}
		op.Node = &ns
	case "removenode":
		op.Name = rapid.SampledFrom(s.Nodes).Draw(t, "rmNode").Name
	default:
		return genOp(t, s, []string{op.Kind}, false)
	}
	return op
}

func genC11(t *rapid.T) FaultCase {
	c := FaultCase{Setup: genSetup(t, 2)}
	c.Prep = genPrep(t, c.Setup)
	c.Op = genC11Op(t, c.Setup, c11Kinds)
	c.Pick = rapid.Uint32().Draw(t, "pick")
	c.All = vt.Tier() == "thorough" && vt.Chance(t, "allSteps", 30)
	return c
}

// snapshot of everything the property speaks about
type snapshot struct {
	kv  world.KV
	eng []vengine.Container
	seq int
}

var metaPrefixes = []string{"/pod", "/node", "/workloads", "/deploy", "/resource"}

func metaOnly(kv world.KV) world.KV {
	out := world.KV{}
	for k, v := range kv {
		for _, p := range metaPrefixes {
			if strings.HasPrefix(k, p) {
				out[k] = v
				break
			}
		}
	}
	return out
}

func takeSnapshot(w *world.World) snapshot {
	return snapshot{kv: w.DumpEtcd(), eng: w.Eng.Snapshot(), seq: w.Eng.Seq()}
}

func restoreSnapshot(w *world.World, s snapshot) {
	w.RestoreEtcd(s.kv)
	w.Eng.Restore(s.eng, s.seq)
}

func faultableSteps(h []world.Step) []world.Step {
	var out []world.Step
	for _, st := range h {
		if st.Name == "lock.acquired" || st.Name == "lock.released" || st.Name == "plan" {
			continue
		}
		out = append(out, st)
	}
	return out
}

func stepClass(name string) string {
	if i := strings.IndexByte(name, '@'); i >= 0 {
		return name[:i]
	}
	return name
}

// explain decides whether every metadata / engine difference between before and after is
// accounted for by a part of the call that reported success.
func explain(before, after snapshot, out Outcome, op Op) []string {
	okIDs := map[string]bool{}
	for _, id := range out.Succeeded {
		okIDs[id] = true
	}
	for _, id := range out.Created {
		okIDs[id] = true
	}
	anySuccess := len(okIDs) > 0 || (out.Err == "" && (op.Kind == "addnode" || op.Kind == "removenode" || op.Kind == "setnode"))
	b, a := metaOnly(before.kv), metaOnly(after.kv)
	var bad []string
	for _, d := range world.DiffKVAll(b, a) {
		explained := false
		for id := range okIDs {
			if id != "" && strings.Contains(d, id) {
				explained = true
			}
		}
		if !explained && anySuccess && strings.Contains(d, "/resource/cpumem/") && len(okIDs) > 0 {
			explained = true // usage of a node touched by a successful part: decided by the usage oracle
		}
		if !explained && out.Err == "" {
			switch op.Kind {
			case "addnode":
				explained = strings.Contains(d, op.Node.Name)
			case "removenode":
				explained = strings.Contains(d, op.Name)
			case "setnode":
				explained = strings.Contains(d, op.SetNode.Node)
			}
		}
		if !explained {
			bad = append(bad, "meta "+d)
		}
	}
	// engine
	bm := map[string]vengine.Container{}
	for _, c := range before.eng {
		bm[c.ID] = c
	}
	am := map[string]vengine.Container{}
	for _, c := range after.eng {
		am[c.ID] = c
	}
	for id, c := range bm {
		ac, ok := am[id]
		if !ok {
			if !(okIDs[id] && (op.Kind == "remove" || op.Kind == "replace")) {
				bad = append(bad, fmt.Sprintf("engine: container %.12s on %s disappeared", id, c.Node))
			}
			continue
		}
		if okIDs[id] {
			continue
		}
		if ac.Running != c.Running {
			bad = append(bad, fmt.Sprintf("engine: container %.12s running %v -> %v", id, c.Running, ac.Running))
		}
		if jsonStr(ac.Params) != jsonStr(c.Params) {
			if anySuccess && strings.Contains(jsonStr(ac.Params), `"remap":true`) {
				continue // a successful part changed bindings: the shared pool of unbound workloads legitimately moves
			}
			bad = append(bad, fmt.Sprintf("engine: container %.12s params %s -> %s", id, jsonStr(c.Params), jsonStr(ac.Params)))
		}
	}
	for id, c := range am {
		if _, ok := bm[id]; !ok && !okIDs[id] {
			bad = append(bad, fmt.Sprintf("engine: container %.12s on %s left behind (running=%v)", id, c.Node, c.Running))
		}
	}
	sort.Strings(bad)
	if len(bad) > 8 {
		bad = append(bad[:8], fmt.Sprintf("... %d more", len(bad)-8))
	}
	return bad
}

// explainSettled re-reads a few times: late asynchronous remaps may still be touching engine
// parameters when the world looks quiescent; a real leftover persists.
func explainSettled(w *world.World, before snapshot, out Outcome, op Op) []string {
	var bad []string
	for i := 0; i < 4; i++ {
		settle(w)
		bad = explain(before, takeSnapshot(w), out, op)
		if len(bad) == 0 {
			return nil
		}
		time.Sleep(30 * time.Millisecond)
	}
	return bad
}

func reportedFailure(out Outcome) bool { return out.Err != "" || len(out.Failed) > 0 }

func runC11(x *vt.Ctx, c FaultCase) *vt.Finding {
	w, err := buildWorld(c.Setup)
	if err != nil {
		x.Label("setup-rejected")
		return nil
	}
	defer w.Close()
	for _, op := range c.Prep {
		if out := runOp(w, op); !out.Closed {
			return vt.Failf("op="+op.Kind+":stream-not-closed fault=nofault", "fault-free %s of the prefix: result stream did not close: %s", op.Kind, jsonStr(op))
		}
		settle(w)
	}
	w.IC.Disable(true)
	s0 := takeSnapshot(w)
	w.IC.Disable(false)

	// record the steps of a fault-free run
	rec := runOp(w, c.Op)
	settle(w)
	steps := faultableSteps(w.IC.History())
	if !rec.Closed {
		return vt.Failf("op="+c.Op.Kind+":stream-not-closed fault=nofault", "fault-free %s: result stream did not close", c.Op.Kind)
	}
	x.Label("op=%s", c.Op.Kind)
	natural := false
	for _, st := range steps {
		if st.Err != "" {
			natural = true
		}
	}
	if natural {
		// the operation fails on its own (e.g. removing a running container without force): its
		// recorded steps contain compensating steps, which the property assumes to succeed, so no
		// fault is injected; the natural failure itself must leave no lasting effect either.
		x.Label("natural-failure op=%s", c.Op.Kind)
		if reportedFailure(rec) {
			x.NonTrivial()
			w.IC.Disable(true)
			bad := explainSettled(w, s0, rec, c.Op)
			usage := usageViolations(w)
			w.IC.Disable(false)
			if len(bad) > 0 {
				return vt.Failf(fmt.Sprintf("op=%s fault=natural:lasting-effect", c.Op.Kind), "%s failed on its own (%s) but left: %s\n%s", c.Op.Kind, jsonStr(rec), strings.Join(bad, "; "), histStr(steps))
			}
			if len(usage) > 0 {
				return vt.Failf(fmt.Sprintf("op=%s fault=natural:usage!=sum", c.Op.Kind), "%s failed on its own: %s", c.Op.Kind, strings.Join(usage, "; "))
			}
		}
		return nil
	}
	if len(steps) == 0 {
		x.Label("no-steps")
		return nil
	}
	positions := []int{int(c.Pick % uint32(len(steps)))}
	if c.All || len(steps) <= 10 { // short operations are enumerated completely, also in the quick tier
		positions = positions[:0]
		for i := range steps {
			positions = append(positions, i)
		}
	}
	if c.Fixed != nil {
		positions = []int{-1}
	}
	for _, pos := range positions {
		w.IC.Disable(true)
		restoreSnapshot(w, s0)
		w.IC.Disable(false)
		op := c.Op
		if pos < 0 {
			op.Fault = c.Fixed
		} else {
			op.Fault = &world.Fault{Name: steps[pos].Name, Occ: steps[pos].Occ}
		}
		if known := c11KnownRegion(op); known != "" && c.Fixed == nil && vt.Exclude("C11", known) {
			x.Label("excluded-known-finding")
			continue
		}
		out := runOp(w, op)
		fired := w.IC.FaultFired()
		x.Logf("fault at %s#%d fired=%v -> %s", op.Fault.Name, op.Fault.Occ, fired, jsonStr(out))
		x.Logf("  recorded fault-free steps: %s", histStr(steps))
		x.Logf("  faulted run: %s", histStr(w.IC.History()))
		if !out.Closed {
			return vt.Failf("op="+op.Kind+":stream-not-closed fault="+stepClass(op.Fault.Name), "%s with a failure of %s#%d: result stream did not close", op.Kind, op.Fault.Name, op.Fault.Occ)
		}
		if !settle(w) {
			return vt.Failf("op="+op.Kind+":not-quiescent fault="+stepClass(op.Fault.Name), "world not quiescent 30s after %s", op.Kind)
		}
		if !fired {
			x.Label("fault-not-reached")
			continue
		}
		x.Label("fault=%s", stepClass(op.Fault.Name))
		if reportedFailure(out) {
			x.NonTrivial()
			x.Label("reported-failure op=%s", op.Kind)
		} else {
			x.Label("fault-absorbed op=%s", op.Kind)
		}
		w.IC.Disable(true)
		bad := explainSettled(w, s0, out, op)
		usage := usageViolations(w)
		w.IC.Disable(false)
		if len(bad) > 0 {
			return vt.Failf(c11Key(op, "lasting-effect"),
				"%s with a failure of %s#%d reported %s but left: %s", op.Kind, op.Fault.Name, op.Fault.Occ, jsonStr(out), strings.Join(bad, "; "))
		}
		if len(usage) > 0 {
			return vt.Failf(c11Key(op, "usage!=sum"),
				"%s with a failure of %s#%d: %s", op.Kind, op.Fault.Name, op.Fault.Occ, strings.Join(usage, "; "))
		}
	}
	return nil
}

var propC11 = vt.Prop[FaultCase]{ID: "C11", Test: "TestC11", Gen: genC11, Run: runC11, Retry: reproducibleOnly}

func TestC11(t *testing.T) { topT = t; propC11.Check(t) }

func histStr(h []world.Step) string {
	var b strings.Builder
	for _, st := range h {
		fmt.Fprintf(&b, "%s#%d", st.Name, st.Occ)
		if st.Key != "" {
			b.WriteString("[" + st.Key + "]")
		}
		if st.Err != "" {
			b.WriteString("!")
			if !st.Injected { // a step that failed on its own: say why
				e := st.Err
				if len(e) > 60 {
					e = e[:60]
				}
				b.WriteString("(" + e + ")")
			}
		}
		b.WriteString(" ")
	}
	return b.String()
}

// c11Key names the class of a C11 failure: operation kind, class of the failing step, symptom.
// For remove-node every failing resource-manager (plugin) step has one root cause (the node
// metadata is removed before the resource records and nothing compensates), so they share a key.
func c11Key(op Op, symptom string) string {
	cls := stepClass(op.Fault.Name)
	if op.Kind == "removenode" && strings.HasPrefix(cls, "plugin.") {
		cls = "plugin.*"
	}
	return fmt.Sprintf("op=%s fault=%s:%s", op.Kind, cls, symptom)
}

// c11KnownRegion returns the known-finding key whose region the (op, fault) pair falls into, if any.
func c11KnownRegion(op Op) string {
	if op.Kind == "removenode" && strings.HasPrefix(stepClass(op.Fault.Name), "plugin.") {
		return c11Key(op, "lasting-effect")
	}
	return ""
}
