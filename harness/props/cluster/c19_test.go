package cluster

import (
	"context"
	"fmt"
	"strings"
	"testing"
	"time"

	"pgregory.net/rapid"

	clientv3 "go.etcd.io/etcd/client/v3"

	"verif/internal/vt"
	"verif/internal/world"
)

// C19 (cluster level): an operation that holds several distributed locks must be told when it
// loses ANY of them — the context its critical section runs under is the chain of the contexts
// the locks returned (cluster/calcium/lock.go). A create over nodes of two or three pods is
// parked (gate) inside its locked section, the lease of one of its pod locks is revoked through
// the raw etcd client, and the context of the parked store call must be cancelled within one
// keepalive interval (+ generous slack, retried once).

type ChainCase struct {
	Pods   int `json:"pods"`   // 2..3 pods, one node each, all included
	Victim int `json:"victim"` // index (in key order) of the pod lock that is lost
}

func genC19Chain(t *rapid.T) ChainCase {
	c := ChainCase{Pods: rapid.IntRange(2, 3).Draw(t, "pods")}
	c.Victim = rapid.IntRange(0, c.Pods-1).Draw(t, "victim")
	return c
}

func runC19Chain(x *vt.Ctx, c ChainCase) *vt.Finding {
	const ttl = 3 * time.Second
	w := world.New(topT, world.Options{LockTimeout: ttl})
	defer w.Close()
	w.IC.Disable(true)
	var includes []string
	for i := 0; i < c.Pods; i++ {
		p, n := fmt.Sprintf("p%d", i), fmt.Sprintf("n%d", i)
		if err := w.AddPod(p); err != nil {
			return vt.Failf("harness:setup", "%v", err)
		}
		if err := w.AddNode(world.NodeSpec{Name: n, Pod: p, CPU: 2, Memory: 512 * MiB}); err != nil {
			return vt.Failf("harness:setup", "%v", err)
		}
		includes = append(includes, n)
	}
	w.IC.Disable(false)
	w.IC.Begin()
	gate := world.NewGate()
	w.IC.SetGate(gate)
	done := make(chan struct{})
	go func() {
		defer close(done)
		w.Create(world.DeploySpec{App: "a", Entry: "web", Pod: "p0", Strategy: "AUTO", Count: c.Pods, Includes: includes, Res: world.ResSpec{CPU: 0.25, Mem: 16 * MiB}})
	}()
	finish := func() {
		w.IC.SetGate(nil)
		gate.ReleaseAll()
		select {
		case <-done:
		case <-time.After(60 * time.Second):
		}
		settle(w)
	}
	// run the create up to (not including) store.GetDeployStatus: it is then inside the locked section
	deadline := time.Now().Add(30 * time.Second)
	parked := false
	for time.Now().Before(deadline) && !parked {
		ws := gate.Waiting()
		if len(ws) == 0 {
			time.Sleep(500 * time.Microsecond)
			continue
		}
		if ws[0].Name == "store.GetDeployStatus" {
			parked = true
			break
		}
		gate.Release(0)
	}
	if !parked {
		finish()
		return vt.Failf("harness:not-parked", "create never reached store.GetDeployStatus")
	}
	lctx := w.IC.CtxOf("store.GetDeployStatus")
	if lctx == nil || lctx.Err() != nil {
		finish()
		return vt.Failf("harness:no-live-context", "context of the parked call: %v", lctx)
	}
	// lose one pod lock: revoke the lease its queue entry hangs on
	ctx, cancel := context.WithTimeout(context.Background(), 60*time.Second)
	defer cancel()
	key := fmt.Sprintf("/__lock__/verif/plock_p%d/", c.Victim)
	resp, err := w.Etcd.Get(ctx, key, clientv3.WithPrefix())
	if err != nil || len(resp.Kvs) == 0 || resp.Kvs[0].Lease == 0 {
		finish()
		return vt.Failf("harness:lock-key", "no leased lock entry under %s: %v", key, err)
	}
	if _, err := w.Etcd.Revoke(ctx, clientv3.LeaseID(resp.Kvs[0].Lease)); err != nil {
		finish()
		return vt.Failf("harness:revoke", "%v", err)
	}
	lost := time.Now()
	pos := "last"
	if c.Victim < c.Pods-1 {
		pos = "not-last"
	}
	x.Label("locks=%d victim=%s", c.Pods, pos)
	x.NonTrivial()
	// one keepalive interval is 1 s here and the measured latency is 0.1-0.6 s: 10 s is >= 20x that,
	// and it stays below the 20 s transaction deadline that would end the context anyway
	bound := 10 * time.Second
	var f *vt.Finding
	select {
	case <-lctx.Done():
		if lat := time.Since(lost); lat < time.Second {
			x.Label("notified<1s")
		} else {
			x.Label("notified>=1s")
		}
	case <-time.After(bound):
		f = vt.Failf("calcium:lost-lock-not-signalled:victim="+pos+"-in-key-order", "the operation holds %d pod locks; the lease of plock_p%d was revoked %v ago but the context of its critical section is still live", c.Pods, c.Victim, time.Since(lost).Round(time.Millisecond))
	}
	finish()
	return f
}

var propC19Chain = vt.Prop[ChainCase]{ID: "C19", Test: "TestC19Calcium", Gen: genC19Chain, Run: runC19Chain,
	Retry: func(f *vt.Finding) bool { return strings.HasPrefix(f.Key, "calcium:") }}

func TestC19Calcium(t *testing.T) { topT = t; propC19Chain.Check(t) }
