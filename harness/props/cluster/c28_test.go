package cluster

import (
	"context"
	"fmt"
	"sort"
	"strings"
	"testing"
	"time"

	"pgregory.net/rapid"

	clientv3 "go.etcd.io/etcd/client/v3"

	"github.com/projecteru2/core/selfmon"
	"github.com/projecteru2/core/types"

	"verif/internal/vt"
	"verif/internal/world"
)

// C28 — a failed node's workloads are reported down.
// Real selfmon.RunNodeStatusWatcher on the un-mocked world (etcd); non-test nodes with heartbeat
// statuses; some heartbeats disappear (deleted, or their lease revoked = expiry); every workload
// recorded on such a node must eventually show running=false, healthy=false.

type DownNode struct {
	Workloads int    `json:"workloads"` // 0..3 recorded on this node
	Lapse     string `json:"lapse"`     // "" keeps its heartbeat | "delete" | "expire"
	NoStatus  int    `json:"no_status"` // how many of its workloads never reported a status
	Unhealthy int    `json:"unhealthy"` // how many of the others last reported running=true, healthy=false
}

type DownCase struct {
	Nodes        []DownNode `json:"nodes"`
	WatcherFirst bool       `json:"watcher_first"` // watcher active before the lapse (else started after)
	GapMS        int        `json:"gap_ms"`        // pause between lapses
}

func genC28(t *rapid.T) DownCase {
	var c DownCase
	n := rapid.IntRange(1, 3).Draw(t, "nNodes")
	for i := 0; i < n; i++ {
		d := DownNode{Workloads: rapid.IntRange(0, 3).Draw(t, "workloads")}
		switch k := vt.Pct(t, "lapse"); {
		case k < 35:
			d.Lapse = "delete"
		case k < 70:
			d.Lapse = "expire"
		}
		if d.Workloads > 0 {
			d.NoStatus = rapid.IntRange(0, d.Workloads).Draw(t, "noStatus")
			if !vt.Chance(t, "someWithoutStatus", 30) {
				d.NoStatus = 0
			}
		}
		if d.Workloads-d.NoStatus > 0 && vt.Chance(t, "someUnhealthy", 35) {
			d.Unhealthy = rapid.IntRange(1, d.Workloads-d.NoStatus).Draw(t, "unhealthy")
		}
		c.Nodes = append(c.Nodes, d)
	}
	c.WatcherFirst = vt.Chance(t, "watcherFirst", 65)
	c.GapMS = rapid.IntRange(0, 200).Draw(t, "gap")
	return c
}

func runC28(x *vt.Ctx, c DownCase) *vt.Finding {
	setup := Setup{Pods: []string{"p0"}}
	for i := range c.Nodes {
		setup.Nodes = append(setup.Nodes, world.NodeSpec{Name: fmt.Sprintf("n%d", i), Pod: "p0", CPU: 4, Memory: 1024 * MiB, NonTest: true})
	}
	w, err := buildWorld(setup)
	if err != nil {
		return vt.Failf("harness:setup", "%v", err)
	}
	defer w.Close()
	w.IC.Disable(true)
	ctx, cancel := context.WithTimeout(w.Ctx, 120*time.Second)
	defer cancel()
	beat := func(node string) error {
		return w.RawStore.SetNodeStatus(ctx, &types.Node{NodeMeta: types.NodeMeta{Name: node, Podname: "p0"}}, 300)
	}
	byNode := map[string][]string{}
	for i, d := range c.Nodes {
		node := fmt.Sprintf("n%d", i)
		if err := beat(node); err != nil {
			return vt.Failf("harness:heartbeat", "%v", err)
		}
		if d.Workloads == 0 {
			continue
		}
		msgs, cerr, _ := w.Create(world.DeploySpec{App: "a", Entry: "web", Pod: "p0", Strategy: "AUTO", Count: d.Workloads, Includes: []string{node}, Res: world.ResSpec{CPU: 0.1, Mem: 16 * MiB}})
		if cerr != nil || len(msgs) != d.Workloads {
			return vt.Failf("harness:create", "%v (%d messages)", cerr, len(msgs))
		}
		for j, m := range msgs {
			if m.Error != nil {
				return vt.Failf("harness:create", "%v", m.Error)
			}
			byNode[node] = append(byNode[node], m.WorkloadID)
			if j >= d.NoStatus {
				if _, err := w.Cal.SetWorkloadsStatus(ctx, []*types.StatusMeta{{ID: m.WorkloadID, Running: true, Healthy: j >= d.NoStatus+d.Unhealthy}}, nil); err != nil {
					return vt.Failf("harness:set-status", "%v", err)
				}
			}
		}
	}
	settle(w)

	wctx, wcancel := context.WithCancel(w.Ctx)
	defer wcancel()
	startWatcher := func() *vt.Finding {
		cfg := w.Cfg
		cfg.HAKeepaliveInterval = 2 * time.Second
		cfg.ConnectionTimeout = 200 * time.Millisecond
		go selfmon.RunNodeStatusWatcher(wctx, cfg, w.Cal, topT)
		deadline := time.Now().Add(20 * time.Second)
		for time.Now().Before(deadline) {
			resp, err := w.Etcd.Get(ctx, selfmon.ActiveKey)
			if err == nil && len(resp.Kvs) > 0 {
				time.Sleep(150 * time.Millisecond) // let monitor() open its status stream
				return nil
			}
			time.Sleep(10 * time.Millisecond)
		}
		return vt.Failf("watcher-not-active", "the node status watcher did not become active within 20 s")
	}
	if c.WatcherFirst {
		if f := startWatcher(); f != nil {
			return f
		}
	}
	lapsed := 0
	for i, d := range c.Nodes {
		node := fmt.Sprintf("n%d", i)
		switch d.Lapse {
		case "delete":
			if err := w.RawStore.SetNodeStatus(ctx, &types.Node{NodeMeta: types.NodeMeta{Name: node, Podname: "p0"}}, -1); err != nil {
				return vt.Failf("harness:delete-status", "%v", err)
			}
		case "expire":
			resp, err := w.Etcd.Get(ctx, "/status:node/"+node)
			if err != nil || len(resp.Kvs) == 0 || resp.Kvs[0].Lease == 0 {
				return vt.Failf("harness:status-lease", "no leased status key for %s: %v", node, err)
			}
			if _, err := w.Etcd.Revoke(ctx, clientv3.LeaseID(resp.Kvs[0].Lease)); err != nil {
				return vt.Failf("harness:revoke", "%v", err)
			}
		default:
			continue
		}
		lapsed++
		x.Label("lapse=%s workloads=%d", d.Lapse, d.Workloads)
		time.Sleep(time.Duration(c.GapMS) * time.Millisecond)
	}
	if !c.WatcherFirst {
		if f := startWatcher(); f != nil {
			return f
		}
	}
	x.Label("watcher-first=%v", c.WatcherFirst)

	// every workload of a lapsed node must eventually be reported down
	pending := map[string]string{}
	for i, d := range c.Nodes {
		if d.Lapse != "" {
			for _, id := range byNode[fmt.Sprintf("n%d", i)] {
				pending[id] = fmt.Sprintf("n%d", i)
			}
		}
	}
	if len(pending) > 0 {
		x.NonTrivial()
	}
	for _, d := range c.Nodes {
		if d.Lapse != "" && d.Unhealthy > 0 {
			x.Label("lapsed-node-with-unhealthy-workload")
		}
	}
	deadline := time.Now().Add(30 * time.Second)
	for len(pending) > 0 && time.Now().Before(deadline) {
		for id := range pending {
			st, err := w.RawStore.GetWorkloadStatus(ctx, id)
			if err == nil && st != nil && !st.Running && !st.Healthy {
				delete(pending, id)
			}
		}
		time.Sleep(15 * time.Millisecond)
	}
	if len(pending) > 0 {
		var ids []string
		cls := "with-prior-status"
		for id, node := range pending {
			ids = append(ids, fmt.Sprintf("%.10s@%s", id, node))
		}
		sort.Strings(ids)
		for i, d := range c.Nodes {
			if d.NoStatus > 0 && d.Lapse != "" && len(byNode[fmt.Sprintf("n%d", i)]) > 0 {
				cls = "some-without-prior-status"
			}
		}
		order := "watcher-first"
		if !c.WatcherFirst {
			order = "watcher-after-lapse"
		}
		return vt.Failf("not-reported-down:"+order+":"+cls, "30 s after the heartbeat of their node disappeared these workloads are not reported running=false, healthy=false: %s", strings.Join(ids, " "))
	}
	// no collateral: workloads on nodes that kept their heartbeat keep their status
	for i, d := range c.Nodes {
		if d.Lapse != "" {
			continue
		}
		for j, id := range byNode[fmt.Sprintf("n%d", i)] {
			if j < d.NoStatus {
				continue
			}
			st, err := w.RawStore.GetWorkloadStatus(ctx, id)
			if err != nil || st == nil || !st.Running || st.Healthy != (j >= d.NoStatus+d.Unhealthy) {
				return vt.Failf("collateral:healthy-node-workload-marked-down", "workload %.10s on n%d (heartbeat intact) shows %+v, %v", id, i, st, err)
			}
		}
	}
	return nil
}

var propC28 = vt.Prop[DownCase]{ID: "C28", Test: "TestC28", Gen: genC28, Run: runC28,
	Retry: func(f *vt.Finding) bool {
		return strings.HasPrefix(f.Key, "not-reported-down") || f.Key == "watcher-not-active"
	}}

func TestC28(t *testing.T) { topT = t; propC28.Check(t) }
