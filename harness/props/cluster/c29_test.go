package cluster

import (
	"bytes"
	"context"
	"fmt"
	"io"
	"sort"
	"strings"
	"testing"
	"time"

	"pgregory.net/rapid"

	pb "github.com/projecteru2/core/rpc/gen"
	"github.com/projecteru2/core/types"

	"verif/internal/stats"
	"verif/internal/vengine"
	"verif/internal/vt"
	"verif/internal/world"
)

// C29 — file transfers deliver identical content and always finish.

type Target struct {
	Kind string             `json:"kind"`          // "existing" (index into the created workloads) | "missing"
	Idx  int                `json:"idx,omitempty"` // which created workload
	Copy vengine.CopyScript `json:"copy"`          // engine behaviour for an existing target
}

type FileSpec struct {
	Name string `json:"name"`
	Size int    `json:"size"`
	Seed byte   `json:"seed"`
	UID  int    `json:"uid"`
	GID  int    `json:"gid"`
	Mode int64  `json:"mode"`
}

type SendCase struct {
	Workloads int        `json:"workloads"` // created before the call (1..4)
	Targets   []Target   `json:"targets"`   // in call order; may repeat
	Files     []FileSpec `json:"files"`     // rpc mode: 1-2 files; direct mode: exactly 1
	Mode      string     `json:"mode"`      // "rpc" (Vibranium.Send over bufconn) | "direct" (Calcium.SendLargeFile) | "send" (Calcium.Send, the whole-file API)
	Chunk     int        `json:"chunk"`     // direct mode chunk size
}

const chunkSize = types.SendLargeFileChunkSize

func genC29(t *rapid.T) SendCase {
	c := SendCase{Workloads: rapid.IntRange(1, 4).Draw(t, "workloads")}
	c.Mode = "rpc"
	if vt.Chance(t, "wholeFile", 25) {
		c.Mode = "send"
	} else if vt.Chance(t, "direct", 40) {
		c.Mode = "direct"
		c.Chunk = rapid.SampledFrom([]int{chunkSize, 1, 7, 512, 4096, 100}).Draw(t, "chunk")
	}
	nt := rapid.IntRange(1, 4).Draw(t, "nTargets")
	for i := 0; i < nt; i++ {
		var tg Target
		switch k := vt.Pct(t, "targetKind"); {
		case k < 18:
			tg.Kind = "missing"
			tg.Idx = rapid.IntRange(0, 1).Draw(t, "missingIdx")
		default:
			tg.Kind = "existing"
			tg.Idx = rapid.IntRange(0, c.Workloads-1).Draw(t, "idx")
			switch m := vt.Pct(t, "copyMode"); {
			case m < 12:
				tg.Copy.Mode = "fail"
			case m < 24:
				tg.Copy.Mode = "partial"
				tg.Copy.FailAfter = rapid.IntRange(0, 5000).Draw(t, "failAfter")
			}
		}
		c.Targets = append(c.Targets, tg)
	}
	nf := 1
	if c.Mode != "direct" && vt.Chance(t, "twoFiles", 30) {
		nf = 2
	}
	for i := 0; i < nf; i++ {
		f := FileSpec{Name: fmt.Sprintf("/data/f%d", i), Seed: byte(rapid.IntRange(0, 255).Draw(t, "seed"))}
		f.Size = rapid.SampledFrom([]int{0, 1, chunkSize - 1, chunkSize, chunkSize + 1, 2 * chunkSize, 11*chunkSize + 3, 13 * chunkSize, 24*chunkSize + 1, 300, 40000}).Draw(t, "size")
		if c.Mode == "direct" && c.Chunk < 64 && f.Size > 6000 {
			f.Size = 6000 + f.Size%100 // keep tiny-chunk cases cheap; still > 11 chunks
		}
		if vt.Chance(t, "randSize", 25) {
			f.Size = rapid.IntRange(0, 65536).Draw(t, "randSize")
		}
		f.UID, f.GID = rapid.IntRange(0, 2000).Draw(t, "uid"), rapid.IntRange(0, 2000).Draw(t, "gid")
		f.Mode = rapid.SampledFrom([]int64{0o644, 0o755, 0o600, 0o400}).Draw(t, "mode")
		c.Files = append(c.Files, f)
	}
	return c
}

func (f FileSpec) content() []byte {
	b := make([]byte, f.Size)
	x := uint32(f.Seed)*2654435761 + 12345
	for i := range b {
		x = x*1664525 + 1013904223
		b[i] = byte(x >> 24)
	}
	return b
}

type sendResult struct {
	ID, Path, Err string
}

func runC29(x *vt.Ctx, c SendCase) *vt.Finding {
	f, inconclusive := runC29once(x, c)
	if f != nil && inconclusive {
		// a watchdog expiry is retried once: only a reproducing hang counts
		stats.Inconclusive()
		f2, _ := runC29once(&vt.Ctx{}, c)
		if f2 == nil || f2.Key != f.Key {
			return nil
		}
	}
	return f
}

func runC29once(x *vt.Ctx, c SendCase) (*vt.Finding, bool) {
	setup := Setup{Pods: []string{"p0"}, Nodes: []world.NodeSpec{{Name: "n0", Pod: "p0", CPU: 4, Memory: 1024 * MiB}, {Name: "n1", Pod: "p0", CPU: 4, Memory: 1024 * MiB}}}
	w, err := buildWorld(setup)
	if err != nil {
		return vt.Failf("harness:setup", "%v", err), false
	}
	defer w.Close()
	w.IC.Disable(true)
	msgs, cerr, _ := w.Create(world.DeploySpec{App: "a", Entry: "web", Pod: "p0", Strategy: "AUTO", Count: c.Workloads, Res: world.ResSpec{CPU: 0.1, Mem: 16 * MiB}})
	if cerr != nil || len(msgs) != c.Workloads {
		return vt.Failf("harness:create", "%v %d", cerr, len(msgs)), false
	}
	var created []string
	for _, m := range msgs {
		if m.Error != nil {
			return vt.Failf("harness:create", "%v", m.Error), false
		}
		created = append(created, m.WorkloadID)
	}
	sort.Strings(created)
	settle(w)

	// resolve targets
	var ids []string
	expectErr := map[string]string{} // id -> why an error is expected ("" = success expected)
	for _, tg := range c.Targets {
		if tg.Kind == "missing" {
			id := fmt.Sprintf("%064d", 900+tg.Idx)
			ids = append(ids, id)
			expectErr[id] = "missing"
			continue
		}
		id := created[tg.Idx%len(created)]
		ids = append(ids, id)
		if _, seen := expectErr[id]; !seen {
			expectErr[id] = ""
		}
		if tg.Copy.Mode != "" {
			w.Eng.Copy[id] = tg.Copy
			expectErr[id] = "engine-" + tg.Copy.Mode
		}
	}
	distinct := uniq(ids)
	dup := len(distinct) != len(ids)
	x.Label("mode=%s", c.Mode)
	if dup {
		x.Label("duplicated-target")
	}

	ctx, cancel := context.WithCancel(w.Ctx)
	defer cancel()
	type outcome struct {
		res []sendResult
		err error
	}
	done := make(chan outcome, 1)
	go func() {
		var out outcome
		if c.Mode == "rpc" {
			rpcf := w.NewRPC()
			defer rpcf.Close()
			opts := &pb.SendOptions{IDs: ids, Data: map[string][]byte{}, Modes: map[string]*pb.FileMode{}, Owners: map[string]*pb.FileOwner{}}
			for _, f := range c.Files {
				opts.Data[f.Name] = f.content()
				opts.Modes[f.Name] = &pb.FileMode{Mode: f.Mode}
				opts.Owners[f.Name] = &pb.FileOwner{Uid: int32(f.UID), Gid: int32(f.GID)}
			}
			st, err := rpcf.Client.Send(ctx, opts)
			if err != nil {
				out.err = err
				done <- out
				return
			}
			for {
				m, err := st.Recv()
				if err == io.EOF {
					break
				}
				if err != nil {
					out.err = err
					break
				}
				out.res = append(out.res, sendResult{m.Id, m.Path, m.Error})
			}
		} else if c.Mode == "send" {
			opts := &types.SendOptions{IDs: ids}
			for _, f := range c.Files {
				opts.Files = append(opts.Files, types.LinuxFile{Filename: f.Name, Content: f.content(), UID: f.UID, GID: f.GID, Mode: f.Mode})
			}
			ch, err := w.Cal.Send(ctx, opts)
			if err != nil {
				out.err = err
				done <- out
				return
			}
			for m := range ch {
				e := ""
				if m.Error != nil {
					e = m.Error.Error()
				}
				out.res = append(out.res, sendResult{m.ID, m.Path, e})
			}
		} else {
			f := c.Files[0]
			content := f.content()
			in := make(chan *types.SendLargeFileOptions)
			resp := w.Cal.SendLargeFile(ctx, in)
			go func() {
				defer close(in)
				for off := 0; off == 0 || off < len(content); off += c.Chunk {
					end := min(off+c.Chunk, len(content))
					select {
					case in <- &types.SendLargeFileOptions{IDs: ids, Dst: f.Name, Size: int64(len(content)), Mode: f.Mode, UID: f.UID, GID: f.GID, Chunk: content[off:end]}:
					case <-ctx.Done():
						return
					}
				}
			}()
			for m := range resp {
				e := ""
				if m.Error != nil {
					e = m.Error.Error()
				}
				out.res = append(out.res, sendResult{m.ID, m.Path, e})
			}
		}
		done <- out
	}()
	var out outcome
	select {
	case out = <-done:
	case <-time.After(10 * time.Second):
		cancel()
		cls := "all-targets-fine"
		for _, why := range expectErr {
			if why != "" {
				cls = "with-" + why
			}
		}
		big := "small"
		for _, f := range c.Files {
			if f.Size > 11*chunkSize {
				big = "more-than-11-chunks"
			}
		}
		return vt.Failf("hang:"+c.Mode+":"+cls+":"+big, "the call did not finish within 10 s (targets %v)", expectErr), true
	}
	w.IC.Disable(false)
	if out.err != nil {
		return vt.Failf("call-failed:"+c.Mode, "the call failed as a whole: %v", out.err), false
	}
	nontrivial := dup
	for _, f := range c.Files {
		if f.Size > chunkSize {
			nontrivial = true
		}
	}
	for _, why := range expectErr {
		if why != "" {
			nontrivial = true
		}
	}
	if nontrivial {
		x.NonTrivial()
	}
	// exactly one result per (distinct target, file)
	count := map[string]int{}
	errOf := map[string]string{}
	for _, r := range out.res {
		count[r.ID+"|"+r.Path]++
		errOf[r.ID+"|"+r.Path] = r.Err
	}
	for _, f := range c.Files {
		sz := "nonempty"
		if f.Size == 0 {
			sz = "empty-file"
		}
		for _, id := range distinct {
			k := id + "|" + f.Name
			n := count[k]
			why := expectErr[id]
			if why == "missing" && n == 0 && count[id+"|"] > 0 {
				// a missing target is reported without the path: accept one such message per file
				n = count[id+"|"]
				if n > len(c.Files) {
					n = 2
				} else {
					n = 1
				}
				errOf[k] = errOf[id+"|"]
			}
			cls := why
			if cls == "" {
				cls = "ok-target"
			}
			if dup {
				cls += ":duplicated-ids"
			}
			if n != 1 {
				return vt.Failf(fmt.Sprintf("results!=1:%s:%s:%s", c.Mode, sz, cls), "target %.8s file %s (%d bytes): %d results, want exactly 1; all results: %v", id, f.Name, f.Size, n, out.res), false
			}
			if why == "" {
				if errOf[k] != "" {
					return vt.Failf(fmt.Sprintf("unexpected-error:%s:%s:%s", c.Mode, sz, cls), "target %.8s file %s (%d bytes): error %q although the target exists and its engine accepts the copy", id, f.Name, f.Size, errOf[k]), false
				}
				ct, _ := w.Eng.Get(id)
				got, ok := ct.Files[f.Name]
				if !ok {
					return vt.Failf(fmt.Sprintf("not-written:%s:%s:%s", c.Mode, sz, cls), "target %.8s reports success for %s but the engine holds no such file", id, f.Name), false
				}
				wantMode := f.Mode
				if !bytes.Equal(got.Content, f.content()) {
					return vt.Failf(fmt.Sprintf("content-differs:%s:%s:%s", c.Mode, sz, cls), "target %.8s file %s: %d bytes written, %d sent, first difference at %d", id, f.Name, len(got.Content), f.Size, firstDiff(got.Content, f.content())), false
				}
				if got.UID != f.UID || got.GID != f.GID || got.Mode != wantMode {
					return vt.Failf(fmt.Sprintf("owner-mode-differs:%s", c.Mode), "target %.8s file %s: uid/gid/mode %d/%d/%o, want %d/%d/%o", id, f.Name, got.UID, got.GID, got.Mode, f.UID, f.GID, wantMode), false
				}
			} else if errOf[k] == "" {
				return vt.Failf(fmt.Sprintf("error-not-reported:%s:%s", c.Mode, cls), "target %.8s file %s: success reported although %s", id, f.Name, why), false
			}
		}
	}
	// no results for anything else
	for k, n := range count {
		id := k[:strings.IndexByte(k, '|')]
		if _, ok := expectErr[id]; !ok {
			return vt.Failf("result-for-unknown-target:"+c.Mode, "%d results for %s which was not a target", n, k), false
		}
	}
	return nil, false
}

func firstDiff(a, b []byte) int {
	for i := 0; i < len(a) && i < len(b); i++ {
		if a[i] != b[i] {
			return i
		}
	}
	return min(len(a), len(b))
}

var propC29 = vt.Prop[SendCase]{ID: "C29", Test: "TestC29", Gen: genC29, Run: runC29}

func TestC29(t *testing.T) { topT = t; propC29.Check(t) }
