// Package fakedocker is an in-process Docker daemon stand-in: an httptest server that answers
// the handful of Engine API endpoints the eru docker engine touches when it creates a container
// and when it updates the resources of a running one, and records the request bodies it got.
//
// The bodies are decoded into structs declared HERE, by JSON field name of the Docker Engine
// API (v1.32 .. v1.43: "CpuShares", "CpuPeriod", "CpuQuota", "CpusetCpus", "CpusetMems",
// "Memory", "MemorySwap", "MemoryReservation"), not into the client library's Go types, so
// that what the oracle sees is what a real daemon would read off the wire.
package fakedocker

import (
	"encoding/json"
	"fmt"
	"io"
	"net/http"
	"net/http/httptest"
	"regexp"
	"strings"
	"sync"
)

// Resources are the cgroup settings of the Engine API ("Resources" object, embedded both in
// HostConfig of POST /containers/create and at the top level of POST /containers/{id}/update).
type Resources struct {
	CPUShares         int64  `json:"CpuShares"`
	CPUPeriod         int64  `json:"CpuPeriod"`
	CPUQuota          int64  `json:"CpuQuota"`
	NanoCPUs          int64  `json:"NanoCpus"`
	CPURealtimePeriod int64  `json:"CpuRealtimePeriod"`
	CPURealtimeRun    int64  `json:"CpuRealtimeRuntime"`
	CpusetCpus        string `json:"CpusetCpus"`
	CpusetMems        string `json:"CpusetMems"`
	Memory            int64  `json:"Memory"`
	MemorySwap        int64  `json:"MemorySwap"`
	MemoryReservation int64  `json:"MemoryReservation"`
}

// Request is one recorded state-changing call.
type Request struct {
	Kind string    // "create" | "update"
	ID   string    // container id (update) or assigned id (create)
	Name string    // ?name= of create
	Res  Resources // the resources on the wire
	Raw  string    // raw JSON body
}

// Daemon is the fake.
type Daemon struct {
	srv *httptest.Server

	mu    sync.Mutex
	ncpu  int
	mem   int64
	reqs  []Request
	seq   int
	other []string // unexpected endpoints that were hit (answered 404)
}

var (
	reCreate = regexp.MustCompile(`^(/v[0-9.]+)?/containers/create$`)
	reUpdate = regexp.MustCompile(`^(/v[0-9.]+)?/containers/([^/]+)/update$`)
	reInfo   = regexp.MustCompile(`^(/v[0-9.]+)?/info$`)
	rePing   = regexp.MustCompile(`^(/v[0-9.]+)?/_ping$`)
	reVer    = regexp.MustCompile(`^(/v[0-9.]+)?/version$`)
)

// New starts a daemon on a loopback TCP port.
func New() *Daemon {
	d := &Daemon{ncpu: 1}
	d.srv = httptest.NewServer(http.HandlerFunc(d.serve))
	return d
}

// Endpoint is the eru node endpoint ("tcp://127.0.0.1:port").
func (d *Daemon) Endpoint() string {
	return "tcp://" + strings.TrimPrefix(d.srv.URL, "http://")
}

// Close stops the server.
func (d *Daemon) Close() { d.srv.Close() }

// SetHost sets what GET /info reports.
func (d *Daemon) SetHost(ncpu int, mem int64) {
	d.mu.Lock()
	d.ncpu, d.mem = ncpu, mem
	d.mu.Unlock()
}

// Reset forgets the recorded requests.
func (d *Daemon) Reset() {
	d.mu.Lock()
	d.reqs, d.other = nil, nil
	d.mu.Unlock()
}

// Take returns and forgets the recorded requests and the unexpected endpoints.
func (d *Daemon) Take() ([]Request, []string) {
	d.mu.Lock()
	defer d.mu.Unlock()
	r, o := d.reqs, d.other
	d.reqs, d.other = nil, nil
	return r, o
}

func (d *Daemon) serve(w http.ResponseWriter, r *http.Request) {
	body, _ := io.ReadAll(r.Body)
	p := r.URL.Path
	w.Header().Set("Content-Type", "application/json")
	w.Header().Set("Api-Version", "1.43")
	switch {
	case rePing.MatchString(p):
		w.Header().Set("Content-Type", "text/plain")
		_, _ = w.Write([]byte("OK"))
	case reVer.MatchString(p):
		_, _ = w.Write([]byte(`{"Version":"24.0.9","ApiVersion":"1.43","MinAPIVersion":"1.12","Os":"linux","Arch":"amd64"}`))
	case reInfo.MatchString(p) && r.Method == http.MethodGet:
		d.mu.Lock()
		n, m := d.ncpu, d.mem
		d.mu.Unlock()
		_, _ = fmt.Fprintf(w, `{"ID":"FAKE:DOCKER","NCPU":%d,"MemTotal":%d,"OSType":"linux","Architecture":"x86_64"}`, n, m)
	case reCreate.MatchString(p) && r.Method == http.MethodPost:
		var b struct {
			HostConfig *Resources `json:"HostConfig"`
		}
		if err := json.Unmarshal(body, &b); err != nil || b.HostConfig == nil {
			http.Error(w, `{"message":"bad create body"}`, http.StatusBadRequest)
			return
		}
		d.mu.Lock()
		d.seq++
		id := fmt.Sprintf("c%08d", d.seq)
		d.reqs = append(d.reqs, Request{Kind: "create", ID: id, Name: r.URL.Query().Get("name"), Res: *b.HostConfig, Raw: string(body)})
		d.mu.Unlock()
		w.WriteHeader(http.StatusCreated)
		_, _ = fmt.Fprintf(w, `{"Id":%q,"Warnings":[]}`, id)
	case reUpdate.MatchString(p) && r.Method == http.MethodPost:
		var res Resources
		if err := json.Unmarshal(body, &res); err != nil {
			http.Error(w, `{"message":"bad update body"}`, http.StatusBadRequest)
			return
		}
		id := reUpdate.FindStringSubmatch(p)[2]
		d.mu.Lock()
		d.reqs = append(d.reqs, Request{Kind: "update", ID: id, Res: res, Raw: string(body)})
		d.mu.Unlock()
		_, _ = w.Write([]byte(`{"Warnings":[]}`))
	default:
		d.mu.Lock()
		d.other = append(d.other, r.Method+" "+p)
		d.mu.Unlock()
		http.Error(w, `{"message":"fakedocker: endpoint not implemented"}`, http.StatusNotFound)
	}
}
