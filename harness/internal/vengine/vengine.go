// Package vengine is a stateful fake container engine (engine.API) owned by the harness.
// Nodes whose endpoint starts with "vengine://" resolve (through the verif-tagged factory hook)
// to a Proxy that looks up the CURRENT Cluster at call time, so that the process-global engine
// cache of core never pins the state of an earlier case.
//
// The engine copies what it needs from its arguments during the call and never touches them
// afterwards, so it cannot be one side of a data race with the code under test.
package vengine

import (
	"bytes"
	"context"
	"errors"
	"fmt"
	"io"
	"sort"
	"strings"
	"sync"
	"sync/atomic"
	"time"

	"github.com/projecteru2/core/engine"
	enginefactory "github.com/projecteru2/core/engine/factory"
	"github.com/projecteru2/core/engine/fake"
	enginetypes "github.com/projecteru2/core/engine/types"
	resourcetypes "github.com/projecteru2/core/resource/types"
	coretypes "github.com/projecteru2/core/types"
)

// Prefix of endpoints served by this engine.
const Prefix = "vengine://"

// ErrInjected is returned by faulted calls.
var ErrInjected = errors.New("vengine: injected engine failure")

// Hook intercepts every engine call: name is "engine.<Method>", node the node name. It must
// call do (or return an injected error instead).
type Hook func(name, node string, blocking bool, do func() error) error

// File is what a copy wrote.
type File struct {
	Content []byte `json:"content"`
	UID     int    `json:"uid"`
	GID     int    `json:"gid"`
	Mode    int64  `json:"mode"`
}

// LambdaScript scripts logs/attach/wait of a container (C30).
type LambdaScript struct {
	Stdout    []string `json:"stdout,omitempty"`
	Stderr    []string `json:"stderr,omitempty"`
	ExitCode  int64    `json:"exit_code"`
	LogsErr   bool     `json:"logs_err,omitempty"`
	AttachErr bool     `json:"attach_err,omitempty"`
	WaitErr   bool     `json:"wait_err,omitempty"`
}

// CopyScript scripts VirtualizationCopyChunkTo for one container (C29).
type CopyScript struct {
	// Mode: "" read everything; "fail" fail at once without reading; "partial" read FailAfter bytes then fail
	Mode      string `json:"mode,omitempty"`
	FailAfter int    `json:"fail_after,omitempty"`
}

// Container is the engine-side truth about one container.
type Container struct {
	ID       string
	Name     string
	Node     string
	Running  bool
	Suspend  bool
	Params   resourcetypes.Resources // last engine params applied (create or update)
	Updates  int
	Labels   map[string]string
	Image    string
	User     string
	Lambda   bool
	Files    map[string]File
	Ordinal  int // k-th container created in this cluster
	Starts   int
	Ancestor string
}

// Cluster is the engine state of all nodes of one case.
type Cluster struct {
	mu         sync.Mutex
	hook       Hook
	containers map[string]*Container // by id
	seq        int
	// scripts
	Lambda      map[int]LambdaScript  // by creation ordinal (0-based); default = empty logs, exit 0
	Copy        map[string]CopyScript // by container id
	InspectUser string                // "" = echo the created user
	NCPU        int
	MemTotal    int64
	// FailStartMod > 0 makes VirtualizationStart fail for containers whose creation ordinal is a
	// multiple of it (scripted engine failures that need no interception layer, for C34).
	FailStartMod int
}

var current atomic.Pointer[Cluster]

var registerOnce sync.Once

// Register installs the factory hook (once per process).
func Register() {
	registerOnce.Do(func() {
		enginefactory.VerifRegisterEngine(Prefix, func(_ context.Context, _ coretypes.Config, nodename, endpoint, ca, cert, key string) (engine.API, error) {
			p := &Proxy{node: nodename}
			p.EngineWithErr.DefaultErr = errors.New("vengine: method not implemented")
			p.EngineWithErr.EP = &enginetypes.Params{Nodename: nodename, Endpoint: endpoint, CA: ca, Cert: cert, Key: key}
			return p, nil
		})
	})
}

// New makes a fresh cluster and installs it as the current one.
func New(hook Hook) *Cluster {
	c := &Cluster{hook: hook, containers: map[string]*Container{}, Lambda: map[int]LambdaScript{}, Copy: map[string]CopyScript{}, NCPU: 4, MemTotal: 8 << 30}
	current.Store(c)
	return c
}

// Install makes c the current cluster again (after a restore).
func (c *Cluster) Install() { current.Store(c) }

// SetHook replaces the hook.
func (c *Cluster) SetHook(h Hook) { c.mu.Lock(); c.hook = h; c.mu.Unlock() }

func (c *Cluster) call(name, node string, blocking bool, do func() error) error {
	c.mu.Lock()
	h := c.hook
	c.mu.Unlock()
	if h == nil {
		return do()
	}
	return h(name, node, blocking, do)
}

// Snapshot returns a deep copy of all containers, sorted by id.
func (c *Cluster) Snapshot() []Container {
	c.mu.Lock()
	defer c.mu.Unlock()
	out := make([]Container, 0, len(c.containers))
	for _, ct := range c.containers {
		out = append(out, cloneContainer(ct))
	}
	sort.Slice(out, func(i, j int) bool { return out[i].ID < out[j].ID })
	return out
}

// Restore replaces the container set (deep copy) and the id counter.
func (c *Cluster) Restore(cs []Container, seq int) {
	c.mu.Lock()
	defer c.mu.Unlock()
	c.containers = map[string]*Container{}
	for i := range cs {
		ct := cloneContainer(&cs[i])
		c.containers[ct.ID] = &ct
	}
	c.seq = seq
}

// Seq returns the id counter.
func (c *Cluster) Seq() int { c.mu.Lock(); defer c.mu.Unlock(); return c.seq }

// Get returns a copy of one container.
func (c *Cluster) Get(id string) (Container, bool) {
	c.mu.Lock()
	defer c.mu.Unlock()
	ct, ok := c.containers[id]
	if !ok {
		return Container{}, false
	}
	return cloneContainer(ct), true
}

func cloneContainer(ct *Container) Container {
	out := *ct
	out.Params = cloneResources(ct.Params)
	out.Labels = map[string]string{}
	for k, v := range ct.Labels {
		out.Labels[k] = v
	}
	out.Files = map[string]File{}
	for k, v := range ct.Files {
		v.Content = append([]byte(nil), v.Content...)
		out.Files[k] = v
	}
	return out
}

func cloneResources(r resourcetypes.Resources) resourcetypes.Resources {
	if r == nil {
		return nil
	}
	out := resourcetypes.Resources{}
	for k, v := range r {
		m := resourcetypes.RawParams{}
		for kk, vv := range v {
			m[kk] = cloneAny(vv)
		}
		out[k] = m
	}
	return out
}

func cloneAny(v any) any {
	switch x := v.(type) {
	case map[string]any:
		m := map[string]any{}
		for k, e := range x {
			m[k] = cloneAny(e)
		}
		return m
	case resourcetypes.RawParams:
		m := resourcetypes.RawParams{}
		for k, e := range x {
			m[k] = cloneAny(e)
		}
		return m
	case map[string]int:
		m := map[string]int{}
		for k, e := range x {
			m[k] = e
		}
		return m
	case map[string]int64:
		m := map[string]int64{}
		for k, e := range x {
			m[k] = e
		}
		return m
	case []any:
		s := make([]any, len(x))
		for i, e := range x {
			s[i] = cloneAny(e)
		}
		return s
	case []string:
		return append([]string(nil), x...)
	default:
		return v // scalars; other map types are rendered by fmt below when compared
	}
}

// ---------------------------------------------------------------------------------------

// Proxy is the engine.API handed to core for one node.
type Proxy struct {
	fake.EngineWithErr
	node string
}

func (p *Proxy) cl() *Cluster { return current.Load() }

// Info .
func (p *Proxy) Info(context.Context) (*enginetypes.Info, error) {
	c := p.cl()
	var out *enginetypes.Info
	err := c.call("engine.Info", p.node, false, func() error {
		out = &enginetypes.Info{Type: "vengine", ID: p.node, NCPU: c.NCPU, MemTotal: c.MemTotal}
		return nil
	})
	return out, err
}

// Ping is not a step (the engine cache pings in the background).
func (p *Proxy) Ping(context.Context) error { return nil }

// CloseConn .
func (p *Proxy) CloseConn() error { return nil }

// ImageLocalDigests .
func (p *Proxy) ImageLocalDigests(_ context.Context, image string) ([]string, error) {
	if strings.HasPrefix(image, MissingImagePrefix) {
		return nil, errors.New("vengine: no such image " + image)
	}
	return []string{"sha256:v"}, nil
}

// MissingImagePrefix: images whose reference starts with it exist nowhere — the local check and the
// pull fail on every node (a scripted failure of node preparation that needs no interception layer).
const MissingImagePrefix = "missing/"

// ImageRemoteDigest .
func (p *Proxy) ImageRemoteDigest(context.Context, string) (string, error) { return "sha256:v", nil }

// ImagePull .
func (p *Proxy) ImagePull(_ context.Context, image string, _ bool) (io.ReadCloser, error) {
	if strings.HasPrefix(image, MissingImagePrefix) {
		return nil, errors.New("vengine: pull of " + image + " failed: not found")
	}
	return io.NopCloser(bytes.NewReader(nil)), nil
}

// VirtualizationCreate .
func (p *Proxy) VirtualizationCreate(_ context.Context, opts *enginetypes.VirtualizationCreateOptions) (*enginetypes.VirtualizationCreated, error) {
	c := p.cl()
	var out *enginetypes.VirtualizationCreated
	name, params, image, user, lambda, anc := opts.Name, cloneResources(opts.EngineParams), opts.Image, opts.User, opts.Lambda, opts.AncestorWorkloadID
	labels := map[string]string{}
	for k, v := range opts.Labels {
		labels[k] = v
	}
	err := c.call("engine.VirtualizationCreate", p.node, false, func() error {
		c.mu.Lock()
		defer c.mu.Unlock()
		ord := c.seq
		c.seq++
		id := fmt.Sprintf("%064x", ord+1)
		id = "c" + id[1:]
		c.containers[id] = &Container{ID: id, Name: name, Node: p.node, Params: params, Labels: labels, Image: image, User: user, Lambda: lambda, Files: map[string]File{}, Ordinal: ord, Ancestor: anc}
		out = &enginetypes.VirtualizationCreated{ID: id, Name: name, Labels: map[string]string{}}
		return nil
	})
	return out, err
}

func (p *Proxy) with(name, id string, f func(ct *Container) error) error {
	c := p.cl()
	return c.call(name, p.node, false, func() error {
		c.mu.Lock()
		defer c.mu.Unlock()
		ct, ok := c.containers[id]
		if !ok || ct.Node != p.node {
			return coretypes.ErrWorkloadNotExists
		}
		return f(ct)
	})
}

// VirtualizationStart .
func (p *Proxy) VirtualizationStart(_ context.Context, id string) error {
	c := p.cl()
	return p.with("engine.VirtualizationStart", id, func(ct *Container) error {
		if c.FailStartMod > 0 && ct.Ordinal%c.FailStartMod == 0 && ct.Starts == 0 {
			return ErrInjected
		}
		ct.Running = true
		ct.Starts++
		return nil
	})
}

// VirtualizationStop .
func (p *Proxy) VirtualizationStop(_ context.Context, id string, _ time.Duration) error {
	return p.with("engine.VirtualizationStop", id, func(ct *Container) error { ct.Running = false; return nil })
}

// VirtualizationSuspend .
func (p *Proxy) VirtualizationSuspend(_ context.Context, id string) error {
	return p.with("engine.VirtualizationSuspend", id, func(ct *Container) error { ct.Suspend = true; return nil })
}

// VirtualizationResume .
func (p *Proxy) VirtualizationResume(_ context.Context, id string) error {
	return p.with("engine.VirtualizationResume", id, func(ct *Container) error { ct.Suspend = false; return nil })
}

// VirtualizationRemove .
func (p *Proxy) VirtualizationRemove(_ context.Context, id string, _, force bool) error {
	c := p.cl()
	return c.call("engine.VirtualizationRemove", p.node, false, func() error {
		c.mu.Lock()
		defer c.mu.Unlock()
		ct, ok := c.containers[id]
		if !ok || ct.Node != p.node {
			return coretypes.ErrWorkloadNotExists
		}
		if ct.Running && !force {
			return errors.New("vengine: container is running, use force")
		}
		delete(c.containers, id)
		return nil
	})
}

// VirtualizationInspect .
func (p *Proxy) VirtualizationInspect(_ context.Context, id string) (*enginetypes.VirtualizationInfo, error) {
	var out *enginetypes.VirtualizationInfo
	c := p.cl()
	err := p.with("engine.VirtualizationInspect", id, func(ct *Container) error {
		user := ct.User
		if c.InspectUser != "" {
			user = c.InspectUser
		}
		out = &enginetypes.VirtualizationInfo{ID: ct.ID, User: user, Image: ct.Image, Running: ct.Running, Labels: map[string]string{}, Networks: map[string]string{}}
		for k, v := range ct.Labels {
			out.Labels[k] = v
		}
		return nil
	})
	return out, err
}

// VirtualizationUpdateResource .
func (p *Proxy) VirtualizationUpdateResource(_ context.Context, id string, params resourcetypes.Resources) error {
	cp := cloneResources(params)
	return p.with("engine.VirtualizationUpdateResource", id, func(ct *Container) error {
		ct.Params = cp
		ct.Updates++
		return nil
	})
}

// VirtualizationCopyTo .
func (p *Proxy) VirtualizationCopyTo(ctx context.Context, id, target string, content []byte, uid, gid int, mode int64) error {
	return p.VirtualizationCopyChunkTo(ctx, id, target, int64(len(content)), bytes.NewReader(content), uid, gid, mode)
}

// VirtualizationCopyChunkTo reads from content OUTSIDE the cluster mutex and is a "blocking"
// step (it may wait for another goroutine feeding a pipe).
func (p *Proxy) VirtualizationCopyChunkTo(_ context.Context, id, target string, size int64, content io.Reader, uid, gid int, mode int64) error {
	c := p.cl()
	return c.call("engine.VirtualizationCopyChunkTo", p.node, true, func() error {
		c.mu.Lock()
		ct, ok := c.containers[id]
		script := c.Copy[id]
		c.mu.Unlock()
		if !ok || ct.Node != p.node {
			return coretypes.ErrWorkloadNotExists
		}
		switch script.Mode {
		case "fail":
			return ErrInjected
		case "partial":
			buf := make([]byte, script.FailAfter)
			_, _ = io.ReadFull(content, buf)
			return ErrInjected
		}
		data, err := io.ReadAll(content)
		if err != nil {
			return err
		}
		if int64(len(data)) != size {
			// the docker engine writes a tar header with the declared size: a mismatch fails the copy
			return fmt.Errorf("vengine: declared size %d but received %d bytes", size, len(data))
		}
		c.mu.Lock()
		defer c.mu.Unlock()
		if ct2, ok := c.containers[id]; ok {
			ct2.Files[target] = File{Content: data, UID: uid, GID: gid, Mode: mode}
		}
		return nil
	})
}

// VirtualizationCopyFrom .
func (p *Proxy) VirtualizationCopyFrom(_ context.Context, id, path string) (content []byte, uid, gid int, mode int64, err error) {
	err = p.with("engine.VirtualizationCopyFrom", id, func(ct *Container) error {
		f, ok := ct.Files[path]
		if !ok {
			return errors.New("vengine: no such file")
		}
		content, uid, gid, mode = append([]byte(nil), f.Content...), f.UID, f.GID, f.Mode
		return nil
	})
	return
}

func (c *Cluster) lambdaOf(id string) (LambdaScript, bool) {
	c.mu.Lock()
	defer c.mu.Unlock()
	ct, ok := c.containers[id]
	if !ok {
		return LambdaScript{}, false
	}
	return c.Lambda[ct.Ordinal], true
}

func lines(ls []string) io.ReadCloser {
	var b strings.Builder
	for _, l := range ls {
		b.WriteString(l)
		b.WriteByte('\n')
	}
	return io.NopCloser(strings.NewReader(b.String()))
}

// VirtualizationLogs .
func (p *Proxy) VirtualizationLogs(_ context.Context, opts *enginetypes.VirtualizationLogStreamOptions) (stdout, stderr io.ReadCloser, err error) {
	c := p.cl()
	id := opts.ID
	err = c.call("engine.VirtualizationLogs", p.node, false, func() error {
		s, ok := c.lambdaOf(id)
		if !ok {
			return coretypes.ErrWorkloadNotExists
		}
		if s.LogsErr {
			return ErrInjected
		}
		stdout, stderr = lines(s.Stdout), lines(s.Stderr)
		return nil
	})
	return
}

type nopWriteCloser struct{ io.Writer }

func (nopWriteCloser) Close() error { return nil }

// VirtualizationAttach .
func (p *Proxy) VirtualizationAttach(_ context.Context, id string, _, _ bool) (stdout, stderr io.ReadCloser, stdin io.WriteCloser, err error) {
	c := p.cl()
	err = c.call("engine.VirtualizationAttach", p.node, false, func() error {
		s, ok := c.lambdaOf(id)
		if !ok {
			return coretypes.ErrWorkloadNotExists
		}
		if s.AttachErr {
			return ErrInjected
		}
		stdout, stderr, stdin = lines(s.Stdout), lines(s.Stderr), nopWriteCloser{io.Discard}
		return nil
	})
	return
}

// VirtualizationResize .
func (p *Proxy) VirtualizationResize(context.Context, string, uint, uint) error { return nil }

// VirtualizationWait .
func (p *Proxy) VirtualizationWait(_ context.Context, id, _ string) (*enginetypes.VirtualizationWaitResult, error) {
	c := p.cl()
	var out *enginetypes.VirtualizationWaitResult
	err := c.call("engine.VirtualizationWait", p.node, false, func() error {
		s, ok := c.lambdaOf(id)
		if !ok {
			return coretypes.ErrWorkloadNotExists
		}
		if s.WaitErr {
			return ErrInjected
		}
		c.mu.Lock()
		if ct, ok := c.containers[id]; ok {
			ct.Running = false
		}
		c.mu.Unlock()
		out = &enginetypes.VirtualizationWaitResult{Code: s.ExitCode, Message: "exit"}
		return nil
	})
	return out, err
}
