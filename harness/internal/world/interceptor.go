// Package world builds the un-mocked cluster "world": real calcium.Calcium, real cobalt manager
// with the real cpumem plugin, real metadata store (etcd Mercury on the embedded etcd, or Redis
// Rediaron on miniredis), real bbolt WAL, and the harness-owned stateful fake engine — with an
// interception layer at every component boundary that the generator controls.
package world

import (
	"bytes"
	"context"
	"errors"
	"fmt"
	"runtime"
	"strconv"
	"strings"
	"sync"
	"sync/atomic"
	"time"
	"verif/internal/envwatch"
)

// ErrInjected is the error an injected fault returns.
var ErrInjected = errors.New("verif: injected failure")

// Step is one intercepted call.
type Step struct {
	Seq      int    `json:"seq"`
	Name     string `json:"name"` // e.g. store.AddWorkload, plugin.SetNodeResourceUsage, engine.VirtualizationCreate@n1, wal.Log(create-workload)
	Occ      int    `json:"occ"`  // occurrence number of Name since Begin (1-based)
	G        int64  `json:"g"`    // goroutine id
	Err      string `json:"err,omitempty"`
	Injected bool   `json:"injected,omitempty"`
	Done     bool   `json:"done,omitempty"` // the real call returned (its effect, if any, took place)
	Key      string `json:"key,omitempty"`  // lock key for lock.* events
	AtUS     int64  `json:"at_us"`          // microseconds since Begin (diagnostics only)
}

// Fault names the single call to fail: the Occ-th call named Name.
type Fault struct {
	Name string `json:"name"`
	Occ  int    `json:"occ"`
}

// Interceptor is shared by all wrappers of one world.
type Interceptor struct {
	mu      sync.Mutex
	t0      time.Time
	history []Step
	occ     map[string]int
	seq     int

	fault      *Fault
	faultFired bool

	crashAt    int  // park the world when the step with this Seq arrives (0 = never)
	crashAfter bool // let that step take effect first, then park before its caller sees the result
	crashed    atomic.Bool
	crashedCh  chan struct{}

	observer func() // runs while no non-blocking intercepted call is in flight
	rw       sync.RWMutex

	gate *Gate

	ctxs     map[string]context.Context // last context seen by selected calls (C19)
	inflight atomic.Int64
	disabled atomic.Bool // pass-through (setup / oracle phases)
}

// NewInterceptor .
func NewInterceptor() *Interceptor {
	return &Interceptor{occ: map[string]int{}, crashedCh: make(chan struct{})}
}

// Begin starts a new operation epoch: history and occurrence counters are cleared, fault state reset.
func (ic *Interceptor) Begin() {
	ic.mu.Lock()
	ic.history = nil
	ic.t0 = time.Now()
	ic.occ = map[string]int{}
	ic.seq = 0
	ic.fault = nil
	ic.faultFired = false
	ic.crashAt = 0
	ic.mu.Unlock()
}

// SetFault arms one fault (nil disarms).
func (ic *Interceptor) SetFault(f *Fault) {
	ic.mu.Lock()
	ic.fault = f
	ic.faultFired = false
	ic.mu.Unlock()
}

// DisarmFault removes the armed fault but keeps the fired flag readable.
func (ic *Interceptor) DisarmFault() { ic.mu.Lock(); ic.fault = nil; ic.mu.Unlock() }

// FaultFired reports whether the armed fault was hit.
func (ic *Interceptor) FaultFired() bool { ic.mu.Lock(); defer ic.mu.Unlock(); return ic.faultFired }

// SetCrash arms a crash at step seq (1-based within the epoch).
func (ic *Interceptor) SetCrash(seq int, after bool) {
	ic.mu.Lock()
	ic.crashAt, ic.crashAfter = seq, after
	ic.mu.Unlock()
}

// Crashed is closed-channel style notification.
func (ic *Interceptor) Crashed() <-chan struct{} { return ic.crashedCh }

// IsCrashed .
func (ic *Interceptor) IsCrashed() bool { return ic.crashed.Load() }

// SetObserver installs an observer run at every step boundary (nil removes).
func (ic *Interceptor) SetObserver(f func()) {
	ic.rw.Lock()
	ic.observer = f
	ic.rw.Unlock()
}

// SetGate installs a gate scheduler (nil removes).
func (ic *Interceptor) SetGate(g *Gate) { ic.mu.Lock(); ic.gate = g; ic.mu.Unlock() }

// Disable makes the interceptor a pass-through (still counts in-flight calls).
func (ic *Interceptor) Disable(v bool) { ic.disabled.Store(v) }

// NoteCtx remembers the context a call was made with.
func (ic *Interceptor) NoteCtx(name string, ctx context.Context) {
	ic.mu.Lock()
	if ic.ctxs == nil {
		ic.ctxs = map[string]context.Context{}
	}
	ic.ctxs[name] = ctx
	ic.mu.Unlock()
}

// CtxOf returns the context last noted for a call name.
func (ic *Interceptor) CtxOf(name string) context.Context {
	ic.mu.Lock()
	defer ic.mu.Unlock()
	return ic.ctxs[name]
}

// History returns a copy of the steps since Begin.
func (ic *Interceptor) History() []Step {
	ic.mu.Lock()
	defer ic.mu.Unlock()
	return append([]Step(nil), ic.history...)
}

// Inflight is the number of intercepted calls currently executing.
func (ic *Interceptor) Inflight() int64 { return ic.inflight.Load() }

func gid() int64 {
	var buf [64]byte
	n := runtime.Stack(buf[:], false)
	b := bytes.TrimPrefix(buf[:n], []byte("goroutine "))
	if i := bytes.IndexByte(b, ' '); i > 0 {
		b = b[:i]
	}
	id, _ := strconv.ParseInt(string(b), 10, 64)
	return id
}

func park() { select {} }

// Event records a non-faultable event (lock acquired / released).
func (ic *Interceptor) Event(name, key string) {
	if ic.disabled.Load() {
		return
	}
	g := gid()
	ic.mu.Lock()
	ic.seq++
	ic.occ[name]++
	ic.history = append(ic.history, Step{Seq: ic.seq, Name: name, Occ: ic.occ[name], G: g, Key: key, AtUS: time.Since(ic.t0).Microseconds()})
	ic.mu.Unlock()
}

// Do is the interception point. blocking marks calls that may wait for another goroutine's
// progress (lock waits, pipe-fed copies): they are recorded and faultable but never hold the
// observer's read lock.
func (ic *Interceptor) Do(name string, blocking bool, do func() error) error {
	if ic.crashed.Load() {
		park()
	}
	if ic.disabled.Load() {
		ic.inflight.Add(1)
		defer ic.inflight.Add(-1)
		err := do()
		if err != nil && envwatch.IsEnvErr(err.Error()) {
			envwatch.Bump()
		}
		return err
	}
	g := gid()
	ic.mu.Lock()
	ic.seq++
	ic.occ[name]++
	st := Step{Seq: ic.seq, Name: name, Occ: ic.occ[name], G: g, AtUS: time.Since(ic.t0).Microseconds()}
	idx := len(ic.history)
	ic.history = append(ic.history, st)
	inject := ic.fault != nil && !ic.faultFired && ic.fault.Name == name && ic.fault.Occ == st.Occ
	if inject {
		ic.faultFired = true
		ic.history[idx].Injected = true
		ic.history[idx].Err = ErrInjected.Error()
	}
	crashHere := ic.crashAt != 0 && st.Seq == ic.crashAt
	crashAfter := ic.crashAfter
	gate := ic.gate
	ic.mu.Unlock()

	if crashHere && !crashAfter {
		ic.crash()
		park()
	}
	if inject {
		return fmt.Errorf("%w at %s#%d", ErrInjected, name, st.Occ)
	}
	if gate != nil && !blocking {
		gate.wait(st)
		if ic.crashed.Load() {
			park()
		}
	}
	ic.inflight.Add(1)
	var err error
	if blocking {
		err = do()
	} else {
		ic.rw.RLock()
		obs := ic.observer
		ic.rw.RUnlock()
		if obs != nil {
			ic.rw.Lock()
			if ic.observer != nil {
				ic.observer()
			}
			ic.rw.Unlock()
		}
		ic.rw.RLock()
		err = do()
		ic.rw.RUnlock()
	}
	ic.inflight.Add(-1)
	if err != nil && (envwatch.IsEnvErr(err.Error()) || (!strings.HasPrefix(name, "lock.") && strings.Contains(err.Error(), "context deadline exceeded"))) {
		// the embedded etcd is overloaded (or so slow that a store / plugin / engine call ran into
		// its deadline — the harness never sets deadlines that short): not a failure the properties
		// quantify over
		envwatch.Bump()
	}
	if gate != nil && !blocking {
		gate.done(st)
	}
	ic.mu.Lock()
	if idx < len(ic.history) && ic.history[idx].Seq == st.Seq {
		ic.history[idx].Done = true
		if err != nil {
			ic.history[idx].Err = err.Error()
		}
	}
	ic.mu.Unlock()
	if crashHere && crashAfter {
		ic.crash()
		park()
	}
	if ic.crashed.Load() {
		park()
	}
	return err
}

func (ic *Interceptor) crash() {
	if ic.crashed.CompareAndSwap(false, true) {
		close(ic.crashedCh)
	}
}

// ---------------------------------------------------------------------------------------
// Gate: harness-owned scheduling of intercepted calls (C22).

// Gate parks every non-blocking intercepted call until the scheduler releases it.
type Gate struct {
	mu      sync.Mutex
	waiting []*gateReq
	running int
	wake    chan struct{}
}

type gateReq struct {
	st Step
	ch chan struct{}
}

// NewGate .
func NewGate() *Gate { return &Gate{wake: make(chan struct{}, 1)} }

func (g *Gate) signal() {
	select {
	case g.wake <- struct{}{}:
	default:
	}
}

func (g *Gate) wait(st Step) {
	r := &gateReq{st: st, ch: make(chan struct{})}
	g.mu.Lock()
	g.waiting = append(g.waiting, r)
	g.mu.Unlock()
	g.signal()
	<-r.ch
}

func (g *Gate) done(Step) {
	g.mu.Lock()
	g.running--
	g.mu.Unlock()
	g.signal()
}

// Waiting returns the steps currently parked at the gate (sorted by arrival).
func (g *Gate) Waiting() []Step {
	g.mu.Lock()
	defer g.mu.Unlock()
	out := make([]Step, len(g.waiting))
	for i, r := range g.waiting {
		out[i] = r.st
	}
	return out
}

// Running is the number of released calls that have not returned yet.
func (g *Gate) Running() int { g.mu.Lock(); defer g.mu.Unlock(); return g.running }

// Release lets the i-th waiting call proceed.
func (g *Gate) Release(i int) Step {
	g.mu.Lock()
	r := g.waiting[i]
	g.waiting = append(g.waiting[:i], g.waiting[i+1:]...)
	g.running++
	g.mu.Unlock()
	close(r.ch)
	return r.st
}

// ReleaseAll opens the gate for everything parked (used at teardown).
func (g *Gate) ReleaseAll() {
	g.mu.Lock()
	ws := g.waiting
	g.waiting = nil
	g.running += len(ws)
	g.mu.Unlock()
	for _, r := range ws {
		close(r.ch)
	}
}

// Wake is signalled whenever the set of waiting/running calls changes.
func (g *Gate) Wake() <-chan struct{} { return g.wake }
