package world

import (
	"context"
	"fmt"
	"strings"
	"time"
	"verif/internal/envwatch"

	resourcetypes "github.com/projecteru2/core/resource/types"
	"github.com/projecteru2/core/types"

	"verif/internal/vengine"
)

// NodeSpec describes a node to add (JSON-serialisable: part of replay files).
type NodeSpec struct {
	Name    string            `json:"name"`
	Pod     string            `json:"pod"`
	CPU     int               `json:"cpu"`
	Share   int               `json:"share,omitempty"` // pieces per core; 0 = share base
	Memory  int64             `json:"memory"`
	NUMA    bool              `json:"numa,omitempty"` // two NUMA nodes: first half / second half of the cores, memory split evenly
	Labels  map[string]string `json:"labels,omitempty"`
	NonTest bool              `json:"non_test,omitempty"` // needs a heartbeat status to be "up"
}

// ResSpec is a cpumem resource request (request == limit).
type ResSpec struct {
	Bind bool    `json:"bind,omitempty"`
	CPU  float64 `json:"cpu"`
	Mem  int64   `json:"mem"`
}

// Resources renders the request as core does from the RPC layer.
func (r ResSpec) Resources() resourcetypes.Resources {
	p := resourcetypes.RawParams{
		"cpu-request": r.CPU, "cpu-limit": r.CPU,
		"memory-request": r.Mem, "memory-limit": r.Mem,
	}
	if r.Bind {
		p["cpu-bind"] = true
	}
	return resourcetypes.Resources{"cpumem": p}
}

// DeploySpec describes a create request.
type DeploySpec struct {
	App      string            `json:"app"`
	Entry    string            `json:"entry"`
	Pod      string            `json:"pod"`
	Strategy string            `json:"strategy"`
	Count    int               `json:"count"`
	Limit    int               `json:"limit,omitempty"`
	Includes []string          `json:"includes,omitempty"`
	Excludes []string          `json:"excludes,omitempty"`
	NLabels  map[string]string `json:"node_labels,omitempty"`
	Res      ResSpec           `json:"res"`
	Files    int               `json:"files,omitempty"` // number of small files to copy in
	User     string            `json:"user,omitempty"`
	All      bool              `json:"all,omitempty"`     // NodeFilter.All
	AnyPod   bool              `json:"any_pod,omitempty"` // NodeFilter.Podname = "" (request still names Pod)
	Image    string            `json:"image,omitempty"`   // "" = img:1; vengine.MissingImagePrefix... cannot be pulled anywhere
}

func (d DeploySpec) filterPod() string {
	if d.AnyPod {
		return ""
	}
	return d.Pod
}

func (d DeploySpec) image() string {
	if d.Image == "" {
		return "img:1"
	}
	return d.Image
}

// Options renders the DeployOptions.
func (d DeploySpec) Options() *types.DeployOptions {
	o := &types.DeployOptions{
		Resources:      d.Res.Resources(),
		Name:           d.App,
		Entrypoint:     &types.Entrypoint{Name: d.Entry, Commands: []string{"sleep", "1"}},
		Podname:        d.Pod,
		NodeFilter:     &types.NodeFilter{All: d.All, Podname: d.filterPod(), Includes: append([]string(nil), d.Includes...), Excludes: append([]string(nil), d.Excludes...), Labels: d.NLabels},
		Image:          d.image(),
		Count:          d.Count,
		DeployStrategy: d.Strategy,
		NodesLimit:     d.Limit,
		Labels:         map[string]string{},
		User:           d.User,
	}
	for i := 0; i < d.Files; i++ {
		o.Files = append(o.Files, types.LinuxFile{Filename: fmt.Sprintf("/f%d", i), Content: []byte(strings.Repeat("x", 10+i)), UID: 1, GID: 2, Mode: 0o644})
	}
	return o
}

// opTimeout is the watchdog for result streams: normal latency is 10-500 ms, so 30 s is > 50x slack
// even on a loaded machine; an expiry is re-run once by the properties before it counts.
const opTimeout = 30 * time.Second

func (w *World) opCtx() (context.Context, context.CancelFunc) {
	return context.WithTimeout(w.Ctx, opTimeout)
}

// AddPod .
func (w *World) AddPod(name string) error {
	ctx, cancel := w.opCtx()
	defer cancel()
	_, err := w.Cal.AddPod(ctx, name, "")
	return err
}

// AddNodeOptions renders the options for a spec.
func (ns NodeSpec) AddNodeOptions() *types.AddNodeOptions {
	p := resourcetypes.RawParams{"cpu": int64(ns.CPU), "memory": ns.Memory}
	if ns.Share != 0 {
		p["share"] = int64(ns.Share)
	}
	if ns.NUMA && ns.CPU >= 2 {
		var a, b []string
		for i := 0; i < ns.CPU; i++ {
			if i < ns.CPU/2 {
				a = append(a, fmt.Sprint(i))
			} else {
				b = append(b, fmt.Sprint(i))
			}
		}
		p["numa-cpu"] = []string{strings.Join(a, ","), strings.Join(b, ",")}
		p["numa-memory"] = []string{fmt.Sprint(ns.Memory / 2), fmt.Sprint(ns.Memory - ns.Memory/2)}
	}
	return &types.AddNodeOptions{
		Nodename: ns.Name, Endpoint: vengine.Prefix + ns.Name, Podname: ns.Pod,
		Labels: ns.Labels, Resources: resourcetypes.Resources{"cpumem": p}, Test: !ns.NonTest,
	}
}

// AddNode .
func (w *World) AddNode(ns NodeSpec) error {
	ctx, cancel := w.opCtx()
	defer cancel()
	_, err := w.Cal.AddNode(ctx, ns.AddNodeOptions())
	return err
}

// Create runs a deployment and drains its result stream. closed=false means the stream did
// not close within the watchdog.
func (w *World) Create(d DeploySpec) (msgs []*types.CreateWorkloadMessage, err error, closed bool) {
	ctx, cancel := w.opCtx()
	defer cancel()
	return w.CreateCtx(ctx, d)
}

// CreateCtx is Create under a caller-owned context (which the caller may cancel mid-deployment).
func (w *World) CreateCtx(ctx context.Context, d DeploySpec) (msgs []*types.CreateWorkloadMessage, err error, closed bool) {
	ch, err := w.Cal.CreateWorkload(ctx, d.Options())
	if err != nil {
		return nil, err, true
	}
	timer := time.NewTimer(opTimeout)
	defer timer.Stop()
	for {
		select {
		case m, ok := <-ch:
			if !ok {
				return msgs, nil, true
			}
			msgs = append(msgs, m)
		case <-timer.C:
			return msgs, nil, false
		case <-w.IC.Crashed():
			return msgs, nil, false
		}
	}
}

// Remove removes workloads and drains the result stream.
func (w *World) Remove(ids []string, force bool) (msgs []*types.RemoveWorkloadMessage, err error, closed bool) {
	ctx, cancel := w.opCtx()
	defer cancel()
	ch, err := w.Cal.RemoveWorkload(ctx, append([]string(nil), ids...), force)
	if err != nil {
		return nil, err, true
	}
	timer := time.NewTimer(opTimeout)
	defer timer.Stop()
	for {
		select {
		case m, ok := <-ch:
			if !ok {
				return msgs, nil, true
			}
			msgs = append(msgs, m)
		case <-timer.C:
			return msgs, nil, false
		}
	}
}

// Dissociate .
func (w *World) Dissociate(ids []string) (msgs []*types.DissociateWorkloadMessage, err error, closed bool) {
	ctx, cancel := w.opCtx()
	defer cancel()
	ch, err := w.Cal.DissociateWorkload(ctx, append([]string(nil), ids...))
	if err != nil {
		return nil, err, true
	}
	timer := time.NewTimer(opTimeout)
	defer timer.Stop()
	for {
		select {
		case m, ok := <-ch:
			if !ok {
				return msgs, nil, true
			}
			msgs = append(msgs, m)
		case <-timer.C:
			return msgs, nil, false
		}
	}
}

// ReallocSpec describes a realloc request: deltas on CPU and memory, binding change.
type ReallocSpec struct {
	DCPU float64 `json:"dcpu"`
	DMem int64   `json:"dmem"`
	Bind string  `json:"bind"` // "keep" | "bind" | "unbind"
}

// Resources renders the realloc request.
func (r ReallocSpec) Resources() resourcetypes.Resources {
	p := resourcetypes.RawParams{
		"cpu-request": r.DCPU, "cpu-limit": r.DCPU,
		"memory-request": r.DMem, "memory-limit": r.DMem,
	}
	switch r.Bind {
	case "keep":
		p["keep-cpu-bind"] = true
	case "bind":
		p["cpu-bind"] = true
	}
	return resourcetypes.Resources{"cpumem": p}
}

// Realloc .
func (w *World) Realloc(id string, r ReallocSpec) error {
	ctx, cancel := w.opCtx()
	defer cancel()
	return w.Cal.ReallocResource(ctx, &types.ReallocOptions{ID: id, Resources: r.Resources()})
}

// Replace replaces workloads by id.
func (w *World) Replace(d DeploySpec, ids []string) (msgs []*types.ReplaceWorkloadMessage, err error, closed bool) {
	ctx, cancel := w.opCtx()
	defer cancel()
	opts := &types.ReplaceOptions{DeployOptions: *d.Options(), IDs: append([]string(nil), ids...)}
	ch, err := w.Cal.ReplaceWorkload(ctx, opts)
	if err != nil {
		return nil, err, true
	}
	timer := time.NewTimer(opTimeout)
	defer timer.Stop()
	for {
		select {
		case m, ok := <-ch:
			if !ok {
				return msgs, nil, true
			}
			msgs = append(msgs, m)
		case <-timer.C:
			return msgs, nil, false
		}
	}
}

// AllWorkloads lists every recorded workload through the raw store.
func (w *World) AllWorkloads() []*types.Workload {
	ctx, cancel := context.WithTimeout(context.Background(), 10*time.Second)
	defer cancel()
	ws, err := w.RawStore.ListWorkloads(ctx, "", "", "", 0, nil)
	if err != nil {
		panic(envwatch.HarnessErr{What: "list workloads", Err: err})
	}
	return ws
}

// AllNodes lists every recorded node (all pods, including down ones) through the raw store.
func (w *World) AllNodes() []*types.Node {
	ctx, cancel := context.WithTimeout(context.Background(), 10*time.Second)
	defer cancel()
	ns, err := w.RawStore.GetNodesByPod(ctx, &types.NodeFilter{All: true})
	if err != nil {
		panic(envwatch.HarnessErr{What: "list nodes", Err: err})
	}
	return ns
}
