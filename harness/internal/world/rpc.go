package world

import (
	"context"
	"net"
	"verif/internal/envwatch"

	"google.golang.org/grpc"
	"google.golang.org/grpc/credentials/insecure"
	"google.golang.org/grpc/test/bufconn"

	"github.com/projecteru2/core/rpc"
	pb "github.com/projecteru2/core/rpc/gen"
)

// RPC is an in-process gRPC front end (the real rpc.Vibranium over bufconn) for a world.
type RPC struct {
	Client pb.CoreRPCClient
	V      *rpc.Vibranium
	srv    *grpc.Server
	conn   *grpc.ClientConn
}

// NewRPC serves the world's Calcium through the real Vibranium.
func (w *World) NewRPC() *RPC {
	lis := bufconn.Listen(1 << 20)
	v := rpc.New(w.Cal, w.Cfg, make(chan struct{}))
	srv := grpc.NewServer()
	pb.RegisterCoreRPCServer(srv, v)
	go func() { _ = srv.Serve(lis) }()
	conn, err := grpc.DialContext(context.Background(), "bufnet",
		grpc.WithContextDialer(func(ctx context.Context, _ string) (net.Conn, error) { return lis.DialContext(ctx) }),
		grpc.WithTransportCredentials(insecure.NewCredentials()))
	if err != nil {
		panic(envwatch.HarnessErr{What: "dial bufconn", Err: err})
	}
	return &RPC{Client: pb.NewCoreRPCClient(conn), V: v, srv: srv, conn: conn}
}

// Close tears the front end down.
func (r *RPC) Close() {
	_ = r.conn.Close()
	r.srv.Stop()
}
