package world

import (
	"context"
	"encoding/json"
	"fmt"
	"math"
	"os"
	"path/filepath"
	"sort"
	"strings"
	"sync"
	"sync/atomic"
	"testing"
	"time"
	"verif/internal/envwatch"

	"github.com/alicebob/miniredis/v2"
	clientv3 "go.etcd.io/etcd/client/v3"

	"github.com/projecteru2/core/cluster/calcium"
	enginefactory "github.com/projecteru2/core/engine/factory"
	"github.com/projecteru2/core/resource/cobalt"
	"github.com/projecteru2/core/resource/plugins"
	resourcetypes "github.com/projecteru2/core/resource/types"
	"github.com/projecteru2/core/store"
	"github.com/projecteru2/core/store/etcdv3/embedded"
	"github.com/projecteru2/core/types"
	"github.com/projecteru2/core/wal"
	"github.com/projecteru2/core/wal/kv"

	"verif/internal/vengine"
)

// Options of a world.
type Options struct {
	Redis       bool          // metadata store on miniredis instead of etcd (the plugin always uses etcd)
	ShareBase   int           // default 100
	MaxShare    int           // default -1
	LockTimeout time.Duration // default 20 s (== TTL of lock sessions)
	PoolSize    int           // capacity of calcium's task pool (MaxConcurrency); default 5000
	Raw         bool          // no interception at all (C34: the interceptor's own synchronisation would hide races)
}

// World is one un-mocked cluster.
type World struct {
	T        *testing.T
	Ctx      context.Context
	cancel   context.CancelFunc
	Cfg      types.Config
	Cal      *calcium.Calcium
	RawStore store.Store
	Plugin   plugins.Plugin // the real cpumem plugin
	RawWAL   wal.WAL
	Eng      *vengine.Cluster
	Etcd     *clientv3.Client
	Redis    *miniredis.Miniredis
	IC       *Interceptor
	busy     *atomic.Int64 // tasks executing in the calcium pool (verif hook)
	dir      string
	opts     Options
}

const etcdPrefix = "/verif"
const lockPrefix = "__lock__/verif"

var (
	engineCacheOnce sync.Once
	redisOnce       sync.Once
	redisSrv        *miniredis.Miniredis
)

func (o Options) config(walFile string) types.Config {
	sb, ms := o.ShareBase, o.MaxShare
	if sb == 0 {
		sb = 100
	}
	if ms == 0 {
		ms = -1
	}
	lt := o.LockTimeout
	if lt == 0 {
		lt = 20 * time.Second
	}
	cfg := types.Config{
		LockTimeout:         lt,
		GlobalTimeout:       20 * time.Second,
		ConnectionTimeout:   10 * time.Second,
		HAKeepaliveInterval: 16 * time.Second,
		MaxConcurrency:      5000,
		WALFile:             walFile,
		WALOpenTimeout:      8 * time.Second,
		ProbeTarget:         "8.8.8.8:80",
		Etcd:                types.EtcdConfig{Prefix: etcdPrefix, LockPrefix: lockPrefix},
		Scheduler:           types.SchedulerConfig{MaxShare: ms, ShareBase: sb, MaxDeployCount: 10000},
		GRPCConfig:          types.GRPCConfig{ServiceDiscoveryPushInterval: 15 * time.Second},
	}
	if o.PoolSize > 0 {
		cfg.MaxConcurrency = o.PoolSize
	}
	if o.Redis {
		cfg.Store = types.Redis
		cfg.Redis = types.RedisConfig{Addr: redisSrv.Addr(), LockPrefix: "/lock", DB: 0}
	}
	return cfg
}

// New builds a fresh world on the (per top-level test) embedded etcd: all metadata is wiped, a
// new WAL file, a new engine cluster, a new Calcium with intercepted collaborators.
func New(t *testing.T, o Options) *World {
	vengine.Register()
	if o.Redis {
		redisOnce.Do(func() {
			var err error
			if redisSrv, err = miniredis.Run(); err != nil {
				panic(err)
			}
		})
		redisSrv.FlushAll()
	}
	dir, err := os.MkdirTemp("", "verif-world-")
	if err != nil {
		t.Fatal(err)
	}
	w := &World{T: t, dir: dir, opts: o, Redis: redisSrv}
	w.Cfg = o.config(filepath.Join(dir, "core.wal"))
	w.Etcd = embedded.NewCluster(t, etcdPrefix).RandClient()
	w.WipeEtcd()
	w.IC = NewInterceptor()
	if o.Raw {
		w.Eng = vengine.New(nil)
	} else {
		w.Eng = vengine.New(w.engineHook(w.IC))
	}
	w.start()
	return w
}

func (w *World) engineHook(ic *Interceptor) vengine.Hook {
	return func(name, node string, blocking bool, do func() error) error {
		return ic.Do(name+"@"+node, blocking, do)
	}
}

func (w *World) start() {
	w.Ctx, w.cancel = context.WithCancel(context.Background())
	engineCacheOnce.Do(func() { enginefactory.InitEngineCache(context.Background(), w.Cfg, nil) })
	cal, err := calcium.New(w.Ctx, w.Cfg, w.T)
	if err != nil {
		panic(envwatch.HarnessErr{What: "calcium.New", Err: err})
	}
	w.Cal = cal
	if !w.opts.Raw {
		w.busy = cal.VerifCountTasks()
	}
	st, rm, wl := cal.VerifDeps()
	w.RawStore, w.RawWAL = st, wl
	mgr := rm.(*cobalt.Manager)
	w.Plugin = mgr.GetPlugins()[0]
	if w.opts.Raw {
		return
	}
	nm, _ := cobalt.New(w.Cfg)
	nm.AddPlugins(&pluginWrap{in: w.Plugin, ic: w.IC})
	cal.VerifSetDeps(&storeWrap{in: st, ic: w.IC}, nm, &walWrap{in: wl, ic: w.IC})
}

// Close releases the world (the embedded etcd lives as long as the top-level test).
func (w *World) Close() {
	if w.IC.gate != nil {
		w.IC.gate.ReleaseAll()
	}
	if w.Cal != nil && !w.IC.IsCrashed() {
		w.Cal.Finalizer()
	}
	if w.RawWAL != nil {
		_ = w.RawWAL.Close()
	}
	w.cancel()
	_ = os.RemoveAll(w.dir)
}

// Restart models a process restart after a crash: the old instance is abandoned (its
// intercepted calls park forever), its WAL file is closed, every etcd lease is revoked (locks
// and sessions of the dead process expire), and a new Calcium is built on the same store, WAL
// file and engine cluster with a fresh interceptor.
func (w *World) Restart() {
	_ = w.RawWAL.Close()
	w.cancel()
	w.RevokeAllLeases()
	w.IC = NewInterceptor()
	w.Eng.SetHook(w.engineHook(w.IC))
	w.start()
}

// RevokeAllLeases revokes every lease in the embedded etcd.
func (w *World) RevokeAllLeases() {
	ctx, cancel := context.WithTimeout(context.Background(), 10*time.Second)
	defer cancel()
	resp, err := w.Etcd.Leases(ctx)
	if err != nil {
		panic(envwatch.HarnessErr{What: "list leases", Err: err})
	}
	for _, l := range resp.Leases {
		_, _ = w.Etcd.Revoke(ctx, l.ID)
	}
}

// WipeEtcd deletes every key under the harness prefix.
func (w *World) WipeEtcd() {
	ctx, cancel := context.WithTimeout(context.Background(), 10*time.Second)
	defer cancel()
	if _, err := w.Etcd.Delete(ctx, "", clientv3.WithPrefix()); err != nil {
		panic(envwatch.HarnessErr{What: "wipe etcd", Err: err})
	}
}

// ---------------------------------------------------------------------------------------
// raw snapshots

// KV is a raw metadata dump (etcd keys below the harness prefix, without locks).
type KV map[string]string

func skipKey(k string) bool {
	return strings.HasPrefix(k, lockPrefix) || strings.HasPrefix(k, "/"+lockPrefix) || strings.HasPrefix(k, "/services")
}

// DumpEtcd reads all metadata keys.
func (w *World) DumpEtcd() KV {
	ctx, cancel := context.WithTimeout(context.Background(), 10*time.Second)
	defer cancel()
	resp, err := w.Etcd.Get(ctx, "", clientv3.WithPrefix())
	if err != nil {
		panic(envwatch.HarnessErr{What: "dump etcd", Err: err})
	}
	out := KV{}
	for _, kv := range resp.Kvs {
		k := string(kv.Key)
		if skipKey(k) {
			continue
		}
		out[k] = string(kv.Value)
	}
	return out
}

// RestoreEtcd makes the metadata equal to the dump.
func (w *World) RestoreEtcd(kv KV) {
	ctx, cancel := context.WithTimeout(context.Background(), 20*time.Second)
	defer cancel()
	cur := w.DumpEtcd()
	var ops []clientv3.Op
	for k := range cur {
		if _, ok := kv[k]; !ok {
			ops = append(ops, clientv3.OpDelete(k))
		}
	}
	for k, v := range kv {
		if cv, ok := cur[k]; !ok || cv != v {
			ops = append(ops, clientv3.OpPut(k, v))
		}
	}
	for len(ops) > 0 {
		n := min(len(ops), 100)
		if _, err := w.Etcd.Txn(ctx).Then(ops[:n]...).Commit(); err != nil {
			panic(envwatch.HarnessErr{What: "restore etcd", Err: err})
		}
		ops = ops[n:]
	}
}

// DiffKV lists differences between two dumps (sorted, at most 12 for messages).
func DiffKV(a, b KV) []string {
	out := DiffKVAll(a, b)
	if len(out) > 12 {
		out = append(out[:12], fmt.Sprintf("... %d more", len(out)-12))
	}
	return out
}

// DiffKVAll lists every difference between two dumps (sorted).
func DiffKVAll(a, b KV) []string {
	var out []string
	for k, v := range a {
		if bv, ok := b[k]; !ok {
			out = append(out, "removed "+k)
		} else if bv != v {
			out = append(out, fmt.Sprintf("changed %s: %s -> %s", k, v, bv))
		}
	}
	for k := range b {
		if _, ok := a[k]; !ok {
			out = append(out, "added "+k+" = "+b[k])
		}
	}
	sort.Strings(out)
	return out
}

// ---------------------------------------------------------------------------------------
// independent usage oracle

// Res is the harness's own reading of a cpumem resource record.
type Res struct {
	CPU        float64          `json:"cpu"`
	CPURequest float64          `json:"cpu_request"`
	CPUMap     map[string]int   `json:"cpu_map"`
	Memory     int64            `json:"memory"`
	MemRequest int64            `json:"memory_request"`
	NUMAMemory map[string]int64 `json:"numa_memory"`
	NUMANode   string           `json:"numa_node"`
}

// NodeRecord is the raw plugin record of a node.
type NodeRecord struct {
	Capacity Res `json:"capacity"`
	Usage    Res `json:"usage"`
}

// RawNodeRecord reads /resource/cpumem/<node> directly from etcd.
func (w *World) RawNodeRecord(node string) (*NodeRecord, bool) {
	ctx, cancel := context.WithTimeout(context.Background(), 10*time.Second)
	defer cancel()
	resp, err := w.Etcd.Get(ctx, "/resource/cpumem/"+node)
	if err != nil {
		panic(envwatch.HarnessErr{What: "read node record", Err: err})
	}
	if len(resp.Kvs) == 0 {
		return nil, false
	}
	r := &NodeRecord{}
	if err := json.Unmarshal(resp.Kvs[0].Value, r); err != nil {
		panic(envwatch.HarnessErr{What: "decode node record " + string(resp.Kvs[0].Value), Err: err})
	}
	return r, true
}

// WorkloadRes parses the cpumem record of a workload with the harness's own decoder.
func WorkloadRes(r resourcetypes.Resources) Res {
	var out Res
	raw, ok := r["cpumem"]
	if !ok {
		return out
	}
	b, _ := json.Marshal(raw)
	_ = json.Unmarshal(b, &out)
	return out
}

// SumWorkloads adds up workload records.
func SumWorkloads(ws []*types.Workload) Res {
	sum := Res{CPUMap: map[string]int{}, NUMAMemory: map[string]int64{}}
	for _, wl := range ws {
		r := WorkloadRes(wl.Resources)
		sum.CPU += r.CPURequest
		sum.Memory += r.MemRequest
		for c, p := range r.CPUMap {
			sum.CPUMap[c] += p
		}
		for n, m := range r.NUMAMemory {
			sum.NUMAMemory[n] += m
		}
	}
	return sum
}

// CompareUsage compares a usage record with a sum of workloads; returns differences.
func CompareUsage(usage, sum Res) []string {
	var d []string
	if math.Abs(usage.CPU-sum.CPU) > 1e-6 {
		d = append(d, fmt.Sprintf("cpu: usage %v != sum of workloads %v", usage.CPU, sum.CPU))
	}
	if usage.Memory != sum.Memory {
		d = append(d, fmt.Sprintf("memory: usage %d != sum of workloads %d", usage.Memory, sum.Memory))
	}
	cores := map[string]struct{}{}
	for c := range usage.CPUMap {
		cores[c] = struct{}{}
	}
	for c := range sum.CPUMap {
		cores[c] = struct{}{}
	}
	for c := range cores {
		if usage.CPUMap[c] != sum.CPUMap[c] {
			d = append(d, fmt.Sprintf("core %s: usage %d != sum of workloads %d", c, usage.CPUMap[c], sum.CPUMap[c]))
		}
	}
	nn := map[string]struct{}{}
	for n := range usage.NUMAMemory {
		nn[n] = struct{}{}
	}
	for n := range sum.NUMAMemory {
		nn[n] = struct{}{}
	}
	for n := range nn {
		if usage.NUMAMemory[n] != sum.NUMAMemory[n] {
			d = append(d, fmt.Sprintf("numa %s memory: usage %d != sum of workloads %d", n, usage.NUMAMemory[n], sum.NUMAMemory[n]))
		}
	}
	sort.Strings(d)
	return d
}

// OverCapacity lists dimensions where usage exceeds capacity.
func OverCapacity(rec *NodeRecord) []string {
	var d []string
	// total CPU is deliberately not compared: CPU of workloads without binding is a quota that the
	// scheduler oversells by design; the statement speaks of core (pieces) and memory usage.
	if rec.Usage.Memory > rec.Capacity.Memory {
		d = append(d, fmt.Sprintf("memory usage %d > capacity %d", rec.Usage.Memory, rec.Capacity.Memory))
	}
	for c, p := range rec.Usage.CPUMap {
		if p > rec.Capacity.CPUMap[c] {
			d = append(d, fmt.Sprintf("core %s usage %d > capacity %d", c, p, rec.Capacity.CPUMap[c]))
		}
		if p < 0 {
			d = append(d, fmt.Sprintf("core %s usage %d < 0", c, p))
		}
	}
	for n, m := range rec.Usage.NUMAMemory {
		if m > rec.Capacity.NUMAMemory[n] {
			d = append(d, fmt.Sprintf("numa %s memory usage %d > capacity %d", n, m, rec.Capacity.NUMAMemory[n]))
		}
		if m < 0 {
			d = append(d, fmt.Sprintf("numa %s memory usage %d < 0", n, m))
		}
	}
	if rec.Usage.Memory < 0 || rec.Usage.CPU < -1e-6 {
		d = append(d, fmt.Sprintf("negative usage cpu=%v memory=%d", rec.Usage.CPU, rec.Usage.Memory))
	}
	sort.Strings(d)
	return d
}

// NodeWorkloads lists the workloads recorded on a node through the raw store.
func (w *World) NodeWorkloads(node string) []*types.Workload {
	ctx, cancel := context.WithTimeout(context.Background(), 10*time.Second)
	defer cancel()
	ws, err := w.RawStore.ListNodeWorkloads(ctx, node, nil)
	if err != nil {
		panic(envwatch.HarnessErr{What: "list node workloads " + node, Err: err})
	}
	return ws
}

// CheckNodeUsage is the §3.3 oracle for one node: raw usage record == Σ recorded workloads, and
// usage within capacity. It returns human-readable differences.
func (w *World) CheckNodeUsage(node string) []string {
	rec, ok := w.RawNodeRecord(node)
	if !ok {
		return []string{"node " + node + " has no resource record"}
	}
	d := CompareUsage(rec.Usage, SumWorkloads(w.NodeWorkloads(node)))
	d = append(d, OverCapacity(rec)...)
	return d
}

// ---------------------------------------------------------------------------------------
// SaturatePool occupies every worker of calcium's task pool with a task that blocks until the
// returned release function is called (idempotent), the way long-running concurrent requests
// (streams, deployments) do: from then on the non-blocking pool refuses every further task.
// Returns the number of workers occupied.
func (w *World) SaturatePool() (occupied int, release func()) { return w.OccupyPool(0) }

// OccupyPool is SaturatePool that leaves leaveFree workers available: the pool then accepts
// exactly that many concurrently running tasks and refuses the next one.
func (w *World) OccupyPool(leaveFree int) (occupied int, release func()) {
	ch := make(chan struct{})
	var once sync.Once
	release = func() { once.Do(func() { close(ch) }) }
	deadline := time.Now().Add(2 * time.Second)
	for occupied < w.Cfg.MaxConcurrency-leaveFree && time.Now().Before(deadline) {
		if err := w.Cal.VerifPoolInvoke(func() { <-ch }); err != nil {
			time.Sleep(2 * time.Millisecond) // an earlier task is still winding down: try again
			continue
		}
		occupied++
	}
	return occupied, release
}

// quiescence

// Quiesce waits until the calcium pool executes no task and no intercepted call is in flight,
// for a few consecutive observations. Returns false on timeout. A task that was handed to a
// pool worker but not yet picked up is invisible for a moment, so oracles on state that late
// asynchronous tasks (remap) may still touch must re-read before they conclude.
func (w *World) Quiesce(timeout time.Duration) bool {
	if w.busy == nil { // raw world: no task counter (it would add synchronisation); just give async tasks time
		time.Sleep(150 * time.Millisecond)
		return true
	}
	deadline := time.Now().Add(timeout)
	calm := 0
	for time.Now().Before(deadline) {
		if w.busy.Load() == 0 && w.IC.Inflight() == 0 {
			calm++
			if calm >= 5 {
				return true
			}
		} else {
			calm = 0
		}
		time.Sleep(time.Millisecond)
	}
	return false
}

// WALEvents closes the WAL of the current instance and scans its bbolt file with the exported
// kv.Lithium: returns "type" of every event still stored. The world cannot log afterwards.
func (w *World) WALEvents() ([]string, error) {
	_ = w.RawWAL.Close()
	l := kv.NewLithium()
	if err := l.Open(w.Cfg.WALFile, 0o600, 5*time.Second); err != nil {
		return nil, err
	}
	defer l.Close()
	ch, abort := l.Scan([]byte("/events/"))
	defer abort()
	var out []string
	for e := range ch {
		if e.Error() != nil {
			return out, e.Error()
		}
		_, v := e.Pair()
		var ev struct {
			Type string `json:"type"`
		}
		_ = json.Unmarshal(v, &ev)
		out = append(out, ev.Type)
	}
	return out, nil
}
