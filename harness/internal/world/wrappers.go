package world

import (
	"context"
	"fmt"
	"time"

	enginetypes "github.com/projecteru2/core/engine/types"
	"github.com/projecteru2/core/lock"
	"github.com/projecteru2/core/resource/plugins"
	plugintypes "github.com/projecteru2/core/resource/plugins/types"
	"github.com/projecteru2/core/store"
	"github.com/projecteru2/core/types"
	"github.com/projecteru2/core/wal"
)

// ------------------------------------------------------------------------------ store

type storeWrap struct {
	in store.Store
	ic *Interceptor
}

func (s *storeWrap) ServiceStatusStream(ctx context.Context) (chan []string, error) {
	return s.in.ServiceStatusStream(ctx)
}
func (s *storeWrap) RegisterService(ctx context.Context, a string, d time.Duration) (<-chan struct{}, func(), error) {
	return s.in.RegisterService(ctx, a, d)
}
func (s *storeWrap) StartEphemeral(ctx context.Context, path string, hb time.Duration) (<-chan struct{}, func(), error) {
	return s.in.StartEphemeral(ctx, path, hb)
}
func (s *storeWrap) AddPod(ctx context.Context, name, desc string) (r *types.Pod, err error) {
	err = s.ic.Do("store.AddPod", false, func() error { r, err = s.in.AddPod(ctx, name, desc); return err })
	return
}
func (s *storeWrap) GetPod(ctx context.Context, podname string) (r *types.Pod, err error) {
	err = s.ic.Do("store.GetPod", false, func() error { r, err = s.in.GetPod(ctx, podname); return err })
	return
}
func (s *storeWrap) RemovePod(ctx context.Context, podname string) error {
	return s.ic.Do("store.RemovePod", false, func() error { return s.in.RemovePod(ctx, podname) })
}
func (s *storeWrap) GetAllPods(ctx context.Context) (r []*types.Pod, err error) {
	err = s.ic.Do("store.GetAllPods", false, func() error { r, err = s.in.GetAllPods(ctx); return err })
	return
}
func (s *storeWrap) AddNode(ctx context.Context, o *types.AddNodeOptions) (r *types.Node, err error) {
	err = s.ic.Do("store.AddNode", false, func() error { r, err = s.in.AddNode(ctx, o); return err })
	return
}
func (s *storeWrap) RemoveNode(ctx context.Context, node *types.Node) error {
	return s.ic.Do("store.RemoveNode", false, func() error { return s.in.RemoveNode(ctx, node) })
}
func (s *storeWrap) GetNode(ctx context.Context, nodename string) (r *types.Node, err error) {
	err = s.ic.Do("store.GetNode", false, func() error { r, err = s.in.GetNode(ctx, nodename); return err })
	return
}
func (s *storeWrap) GetNodes(ctx context.Context, nodenames []string) (r []*types.Node, err error) {
	err = s.ic.Do("store.GetNodes", false, func() error { r, err = s.in.GetNodes(ctx, nodenames); return err })
	return
}
func (s *storeWrap) GetNodesByPod(ctx context.Context, nf *types.NodeFilter, opts ...store.Option) (r []*types.Node, err error) {
	err = s.ic.Do("store.GetNodesByPod", false, func() error { r, err = s.in.GetNodesByPod(ctx, nf, opts...); return err })
	return
}
func (s *storeWrap) UpdateNodes(ctx context.Context, nodes ...*types.Node) error {
	return s.ic.Do("store.UpdateNodes", false, func() error { return s.in.UpdateNodes(ctx, nodes...) })
}
func (s *storeWrap) SetNodeStatus(ctx context.Context, node *types.Node, ttl int64) error {
	return s.ic.Do("store.SetNodeStatus", false, func() error { return s.in.SetNodeStatus(ctx, node, ttl) })
}
func (s *storeWrap) GetNodeStatus(ctx context.Context, nodename string) (r *types.NodeStatus, err error) {
	err = s.ic.Do("store.GetNodeStatus", false, func() error { r, err = s.in.GetNodeStatus(ctx, nodename); return err })
	return
}
func (s *storeWrap) NodeStatusStream(ctx context.Context) chan *types.NodeStatus {
	return s.in.NodeStatusStream(ctx)
}
func (s *storeWrap) LoadNodeCert(ctx context.Context, node *types.Node) error {
	return s.in.LoadNodeCert(ctx, node)
}
func (s *storeWrap) AddWorkload(ctx context.Context, w *types.Workload, p *types.Processing) error {
	return s.ic.Do("store.AddWorkload", false, func() error { return s.in.AddWorkload(ctx, w, p) })
}
func (s *storeWrap) UpdateWorkload(ctx context.Context, w *types.Workload) error {
	return s.ic.Do("store.UpdateWorkload", false, func() error { return s.in.UpdateWorkload(ctx, w) })
}
func (s *storeWrap) RemoveWorkload(ctx context.Context, w *types.Workload) error {
	return s.ic.Do("store.RemoveWorkload", false, func() error { return s.in.RemoveWorkload(ctx, w) })
}
func (s *storeWrap) GetWorkload(ctx context.Context, id string) (r *types.Workload, err error) {
	err = s.ic.Do("store.GetWorkload", false, func() error { r, err = s.in.GetWorkload(ctx, id); return err })
	return
}
func (s *storeWrap) GetWorkloads(ctx context.Context, ids []string) (r []*types.Workload, err error) {
	err = s.ic.Do("store.GetWorkloads", false, func() error { r, err = s.in.GetWorkloads(ctx, ids); return err })
	return
}
func (s *storeWrap) GetWorkloadStatus(ctx context.Context, id string) (r *types.StatusMeta, err error) {
	err = s.ic.Do("store.GetWorkloadStatus", false, func() error { r, err = s.in.GetWorkloadStatus(ctx, id); return err })
	return
}
func (s *storeWrap) SetWorkloadStatus(ctx context.Context, st *types.StatusMeta, ttl int64) error {
	return s.ic.Do("store.SetWorkloadStatus", false, func() error { return s.in.SetWorkloadStatus(ctx, st, ttl) })
}
func (s *storeWrap) ListWorkloads(ctx context.Context, app, entry, node string, limit int64, labels map[string]string) (r []*types.Workload, err error) {
	err = s.ic.Do("store.ListWorkloads", false, func() error { r, err = s.in.ListWorkloads(ctx, app, entry, node, limit, labels); return err })
	return
}
func (s *storeWrap) ListNodeWorkloads(ctx context.Context, node string, labels map[string]string) (r []*types.Workload, err error) {
	err = s.ic.Do("store.ListNodeWorkloads", false, func() error { r, err = s.in.ListNodeWorkloads(ctx, node, labels); return err })
	return
}
func (s *storeWrap) WorkloadStatusStream(ctx context.Context, app, entry, node string, labels map[string]string) chan *types.WorkloadStatus {
	return s.in.WorkloadStatusStream(ctx, app, entry, node, labels)
}
func (s *storeWrap) GetDeployStatus(ctx context.Context, app, entry string) (r map[string]int, err error) {
	s.ic.NoteCtx("store.GetDeployStatus", ctx)
	err = s.ic.Do("store.GetDeployStatus", false, func() error { r, err = s.in.GetDeployStatus(ctx, app, entry); return err })
	return
}
func (s *storeWrap) CreateProcessing(ctx context.Context, p *types.Processing, count int) error {
	s.ic.Event("plan", fmt.Sprintf("%s=%d", p.Nodename, count)) // the planned count per node, for observers (C13)
	return s.ic.Do("store.CreateProcessing", false, func() error { return s.in.CreateProcessing(ctx, p, count) })
}
func (s *storeWrap) DeleteProcessing(ctx context.Context, p *types.Processing) error {
	return s.ic.Do("store.DeleteProcessing", false, func() error { return s.in.DeleteProcessing(ctx, p) })
}
func (s *storeWrap) CreateLock(key string, ttl time.Duration) (lock.DistributedLock, error) {
	l, err := s.in.CreateLock(key, ttl)
	if err != nil {
		return l, err
	}
	return &lockWrap{in: l, key: key, ic: s.ic}, nil
}

// ------------------------------------------------------------------------------ lock

type lockWrap struct {
	in  lock.DistributedLock
	key string
	ic  *Interceptor
}

func (l *lockWrap) Lock(ctx context.Context) (r context.Context, err error) {
	err = l.ic.Do("lock.Lock", true, func() error { r, err = l.in.Lock(ctx); return err })
	if err == nil {
		l.ic.Event("lock.acquired", l.key)
	}
	return
}
func (l *lockWrap) TryLock(ctx context.Context) (r context.Context, err error) {
	err = l.ic.Do("lock.TryLock", true, func() error { r, err = l.in.TryLock(ctx); return err })
	if err == nil {
		l.ic.Event("lock.acquired", l.key)
	}
	return
}
func (l *lockWrap) Unlock(ctx context.Context) error {
	// not faultable: releasing is a compensating step
	l.ic.Event("lock.released", l.key)
	return l.in.Unlock(ctx)
}

// ------------------------------------------------------------------------------ plugin

type pluginWrap struct {
	in plugins.Plugin
	ic *Interceptor
}

func (p *pluginWrap) Name() string { return p.in.Name() }
func (p *pluginWrap) CalculateDeploy(ctx context.Context, node string, n int, req plugintypes.WorkloadResourceRequest) (r *plugintypes.CalculateDeployResponse, err error) {
	err = p.ic.Do("plugin.CalculateDeploy", false, func() error { r, err = p.in.CalculateDeploy(ctx, node, n, req); return err })
	return
}
func (p *pluginWrap) CalculateRealloc(ctx context.Context, node string, res plugintypes.WorkloadResource, req plugintypes.WorkloadResourceRequest) (r *plugintypes.CalculateReallocResponse, err error) {
	err = p.ic.Do("plugin.CalculateRealloc", false, func() error { r, err = p.in.CalculateRealloc(ctx, node, res, req); return err })
	return
}
func (p *pluginWrap) CalculateRemap(ctx context.Context, node string, ws map[string]plugintypes.WorkloadResource) (r *plugintypes.CalculateRemapResponse, err error) {
	err = p.ic.Do("plugin.CalculateRemap", false, func() error { r, err = p.in.CalculateRemap(ctx, node, ws); return err })
	return
}
func (p *pluginWrap) AddNode(ctx context.Context, node string, req plugintypes.NodeResourceRequest, info *enginetypes.Info) (r *plugintypes.AddNodeResponse, err error) {
	err = p.ic.Do("plugin.AddNode", false, func() error { r, err = p.in.AddNode(ctx, node, req, info); return err })
	return
}
func (p *pluginWrap) RemoveNode(ctx context.Context, node string) (r *plugintypes.RemoveNodeResponse, err error) {
	err = p.ic.Do("plugin.RemoveNode", false, func() error { r, err = p.in.RemoveNode(ctx, node); return err })
	return
}
func (p *pluginWrap) GetNodesDeployCapacity(ctx context.Context, nodes []string, req plugintypes.WorkloadResourceRequest) (r *plugintypes.GetNodesDeployCapacityResponse, err error) {
	err = p.ic.Do("plugin.GetNodesDeployCapacity", false, func() error { r, err = p.in.GetNodesDeployCapacity(ctx, nodes, req); return err })
	return
}
func (p *pluginWrap) SetNodeResourceCapacity(ctx context.Context, node string, res plugintypes.NodeResource, req plugintypes.NodeResourceRequest, delta, incr bool) (r *plugintypes.SetNodeResourceCapacityResponse, err error) {
	err = p.ic.Do("plugin.SetNodeResourceCapacity", false, func() error {
		r, err = p.in.SetNodeResourceCapacity(ctx, node, res, req, delta, incr)
		return err
	})
	return
}
func (p *pluginWrap) GetNodeResourceInfo(ctx context.Context, node string, ws []plugintypes.WorkloadResource) (r *plugintypes.GetNodeResourceInfoResponse, err error) {
	err = p.ic.Do("plugin.GetNodeResourceInfo", false, func() error { r, err = p.in.GetNodeResourceInfo(ctx, node, ws); return err })
	return
}
func (p *pluginWrap) SetNodeResourceInfo(ctx context.Context, node string, capacity, usage plugintypes.NodeResource) (r *plugintypes.SetNodeResourceInfoResponse, err error) {
	err = p.ic.Do("plugin.SetNodeResourceInfo", false, func() error { r, err = p.in.SetNodeResourceInfo(ctx, node, capacity, usage); return err })
	return
}
func (p *pluginWrap) SetNodeResourceUsage(ctx context.Context, node string, res plugintypes.NodeResource, req plugintypes.NodeResourceRequest, ws []plugintypes.WorkloadResource, delta, incr bool) (r *plugintypes.SetNodeResourceUsageResponse, err error) {
	err = p.ic.Do("plugin.SetNodeResourceUsage", false, func() error {
		r, err = p.in.SetNodeResourceUsage(ctx, node, res, req, ws, delta, incr)
		return err
	})
	return
}
func (p *pluginWrap) GetMostIdleNode(ctx context.Context, nodes []string) (*plugintypes.GetMostIdleNodeResponse, error) {
	return p.in.GetMostIdleNode(ctx, nodes)
}
func (p *pluginWrap) FixNodeResource(ctx context.Context, node string, ws []plugintypes.WorkloadResource) (r *plugintypes.GetNodeResourceInfoResponse, err error) {
	err = p.ic.Do("plugin.FixNodeResource", false, func() error { r, err = p.in.FixNodeResource(ctx, node, ws); return err })
	return
}
func (p *pluginWrap) GetMetricsDescription(ctx context.Context) (*plugintypes.GetMetricsDescriptionResponse, error) {
	return p.in.GetMetricsDescription(ctx)
}
func (p *pluginWrap) GetMetrics(ctx context.Context, pod, node string) (*plugintypes.GetMetricsResponse, error) {
	return p.in.GetMetrics(ctx, pod, node)
}

// ------------------------------------------------------------------------------ wal

type walWrap struct {
	in wal.WAL
	ic *Interceptor
}

func (w *walWrap) Register(h wal.EventHandler) { w.in.Register(h) }
func (w *walWrap) Recover(ctx context.Context) { w.in.Recover(ctx) }
func (w *walWrap) Close() error                { return w.in.Close() }
func (w *walWrap) Log(typ string, item any) (c wal.Commit, err error) {
	err = w.ic.Do("wal.Log("+typ+")", false, func() error { c, err = w.in.Log(typ, item); return err })
	if err != nil || c == nil {
		return c, err
	}
	inner := c
	return func() error {
		return w.ic.Do("wal.Commit("+typ+")", false, func() error { return inner() })
	}, nil
}
