// Package vt is the glue between a property (generator + oracle), rapid, the known-findings
// file and the stats collector. Every property is written as
//
//	Gen: *rapid.T -> Case        (all randomness comes from rapid)
//	Run: Case -> *Finding        (pure function of the case and the code under test)
//
// so that the same Run decides generated cases, shrunk replays, committed regression inputs
// and the reproductions stored in known_findings.json.
package vt

import (
	"encoding/json"
	"fmt"
	"os"
	"path/filepath"
	"runtime/debug"
	"sort"
	"strings"
	"sync"
	"testing"
	"time"
	"verif/internal/envwatch"

	"pgregory.net/rapid"

	"verif/internal/stats"
)

// Finding is a violation of the property on one case. Key names the class of the failure
// (it is what known_findings.json matches on); Msg says what was observed vs expected.
type Finding struct {
	Key string
	Msg string
}

// Failf builds a finding.
func Failf(key, format string, a ...any) *Finding {
	return &Finding{Key: key, Msg: fmt.Sprintf(format, a...)}
}

// Ctx is handed to Run for classification.
type Ctx struct {
	labels     []string
	nontrivial bool
	ntKey      any
	logs       []string
}

// Label puts the case in a class (evidence histogram).
func (x *Ctx) Label(format string, a ...any) { x.labels = append(x.labels, fmt.Sprintf(format, a...)) }

// NonTrivial marks the case as non-trivial by the property's stated rule.
func (x *Ctx) NonTrivial() { x.nontrivial = true }

// Logf keeps a line for the failure report.
func (x *Ctx) Logf(format string, a ...any) { x.logs = append(x.logs, fmt.Sprintf(format, a...)) }

// ---------------------------------------------------------------------------------------
// known findings

// Entry is one record of /verif/known_findings.json.
type Entry struct {
	Status   string          `json:"status"` // "known" | "fixed"
	Property string          `json:"property"`
	Test     string          `json:"test"`
	Key      string          `json:"key"`
	What     string          `json:"what"`
	Commit   string          `json:"commit,omitempty"`
	Repro    json.RawMessage `json:"repro,omitempty"`
}

var (
	knownOnce sync.Once
	entries   []Entry
)

func loadKnown() {
	knownOnce.Do(func() {
		p := os.Getenv("VERIF_KNOWN")
		if p == "" {
			p = "/verif/known_findings.json"
		}
		b, err := os.ReadFile(p)
		if err != nil {
			return
		}
		var f struct {
			Findings []Entry `json:"findings"`
		}
		if err := json.Unmarshal(b, &f); err != nil {
			panic("known_findings.json: " + err.Error())
		}
		entries = f.Findings
	})
}

// Known reports whether a finding with this key is listed as known (not fixed) for the property.
func Known(property, key string) bool {
	loadKnown()
	for _, e := range entries {
		if e.Status == "known" && e.Property == property && e.Key == key {
			return true
		}
	}
	return false
}

// Exclude is Known plus an exclusion counter: generators call it when they steer away from
// the region of a known finding.
func Exclude(property, key string) bool {
	if Known(property, key) {
		stats.Excluded(property + ":" + key)
		return true
	}
	return false
}

// Entries returns the entries for one property/test.
func Entries(property, test string) []Entry {
	loadKnown()
	var out []Entry
	for _, e := range entries {
		if e.Property == property && (e.Test == test || e.Test == "") {
			out = append(out, e)
		}
	}
	return out
}

// Mode is the driver-selected mode: "search" (rapid), "known" (regress + known findings replay),
// "replay" (one file, $VERIF_REPLAY).
func Mode() string {
	m := os.Getenv("VERIF_MODE")
	if m == "" {
		return "search"
	}
	return m
}

// Tier is "quick" or "thorough".
func Tier() string {
	if os.Getenv("VERIF_TIER") == "thorough" {
		return "thorough"
	}
	return "quick"
}

// ---------------------------------------------------------------------------------------

// Prop is a property over cases of type C.
type Prop[C any] struct {
	ID   string // property id, e.g. "C01"
	Test string // Go test name, used as the stats / regress key
	Gen  func(t *rapid.T) C
	Run  func(x *Ctx, c C) *Finding
	// PanicKey, when non-empty, turns a panic inside Run into a finding with that key prefix
	// (properties that state "never panics"). Otherwise a panic propagates (harness error).
	PanicKey string
	// Retry, when set and true for a finding, marks it as resting on a real-time bound (watchdog):
	// the case is run once more and the finding only counts if it reproduces with the same key;
	// a single expiry is "inconclusive" (counted), never a violation.
	Retry func(f *Finding) bool
}

func (p Prop[C]) run(c C) (x *Ctx, f *Finding) {
	// environment trouble (overloaded embedded etcd, see package envwatch) is not behaviour of the
	// code under test: the case is run again after a pause, and discarded if it stays disturbed
	for attempt := 0; ; attempt++ {
		before := envwatch.Count()
		x, f = p.runRetry(c)
		if f != nil && (envwatch.IsEnvErr(f.Msg) || envwatch.IsEnvErr(f.Key)) {
			envwatch.Bump()
		}
		if envwatch.Count() == before {
			return x, f
		}
		stats.Label("environment-disturbed-attempt")
		if attempt >= 2 {
			envDiscarded++
			if envDiscarded > 200 {
				panic(fmt.Sprintf("harness: %d cases discarded because the embedded etcd kept timing out: the machine is too overloaded for this run", envDiscarded))
			}
			x = &Ctx{}
			x.Label("discarded:environment-disturbed")
			return x, nil
		}
		time.Sleep(time.Duration(2+3*attempt) * time.Second)
	}
}

var envDiscarded int

func (p Prop[C]) runRetry(c C) (x *Ctx, f *Finding) {
	x, f = p.runOnce(c)
	if f != nil && p.Retry != nil && p.Retry(f) {
		stats.Inconclusive()
		_, f2 := p.runOnce(c)
		if f2 == nil || f2.Key != f.Key {
			return x, nil
		}
	}
	return x, f
}

func (p Prop[C]) runOnce(c C) (x *Ctx, f *Finding) {
	x = &Ctx{}
	defer func() {
		r := recover()
		if r == nil {
			return
		}
		if he, ok := r.(envwatch.HarnessErr); ok && he.Env() {
			envwatch.Bump()
			f = nil
			return
		}
		if envwatch.IsEnvErr(fmt.Sprint(r)) {
			envwatch.Bump()
			f = nil
			return
		}
		if p.PanicKey != "" {
			f = &Finding{Key: p.PanicKey, Msg: fmt.Sprintf("panic: %v\n%s", r, trimStack(debug.Stack()))}
			return
		}
		fmt.Fprintf(os.Stderr, "panic in property %s: %v\n%s\n", p.Test, r, debug.Stack())
		panic(r)
	}()
	f = p.Run(x, c)
	return x, f
}

func trimStack(b []byte) string {
	lines := strings.Split(string(b), "\n")
	var keep []string
	for i := 0; i < len(lines); i++ {
		if strings.Contains(lines[i], "projecteru2/core") {
			keep = append(keep, strings.TrimSpace(lines[i]))
		}
		if len(keep) >= 12 {
			break
		}
	}
	return strings.Join(keep, "\n")
}

func (p Prop[C]) account(x *Ctx, c C) {
	stats.Eval()
	for _, l := range x.labels {
		stats.Label(l)
	}
	if x.nontrivial {
		stats.NonTrivial(c)
	} else {
		stats.Sample(c)
	}
}

// Check dispatches on the mode.
func (p Prop[C]) Check(t *testing.T) {
	switch Mode() {
	case "known":
		p.replayKnown(t)
	case "replay":
		p.replayFile(t, os.Getenv("VERIF_REPLAY"))
	default:
		p.search(t)
	}
}

func (p Prop[C]) search(t *testing.T) {
	rapid.Check(t, func(rt *rapid.T) {
		c := p.Gen(rt)
		x, f := p.run(c)
		p.account(x, c)
		if f == nil {
			return
		}
		if Known(p.ID, f.Key) {
			// generator exclusion was imperfect: count it, keep searching behind it
			stats.Label("hit-known-finding:" + f.Key)
			return
		}
		stats.RecordViolation(p.Test, f.Key, f.Msg, c)
		rt.Fatalf("VIOLATION %s key=%s: %s\n%s", p.ID, f.Key, f.Msg, strings.Join(x.logs, "\n"))
	})
	if !t.Failed() {
		stats.ClearViolation(p.Test)
	}
}

// RunCase runs one decoded case outside rapid (regression inputs, replays).
func (p Prop[C]) RunCase(c C) *Finding {
	x, f := p.run(c)
	p.account(x, c)
	return f
}

func (p Prop[C]) replayKnown(t *testing.T) {
	// committed regression inputs: must pass
	files, _ := filepath.Glob(filepath.Join("testdata", "regress", p.Test, "*.json"))
	sort.Strings(files)
	for _, fn := range files {
		b, err := os.ReadFile(fn)
		if err != nil {
			t.Fatalf("read %s: %v", fn, err)
		}
		var c C
		if err := json.Unmarshal(b, &c); err != nil {
			t.Fatalf("decode %s: %v", fn, err)
		}
		stats.Replayed()
		if f := p.RunCase(c); f != nil {
			if Known(p.ID, f.Key) {
				continue
			}
			stats.RecordViolation(p.Test+"/regress/"+filepath.Base(fn), f.Key, f.Msg, c)
			t.Errorf("VIOLATION %s regress %s key=%s: %s", p.ID, fn, f.Key, f.Msg)
		}
	}
	for _, e := range Entries(p.ID, p.Test) {
		if len(e.Repro) == 0 {
			continue
		}
		var c C
		if err := json.Unmarshal(e.Repro, &c); err != nil {
			t.Fatalf("decode repro of %s: %v", e.Key, err)
		}
		stats.Replayed()
		f := p.RunCase(c)
		switch {
		case f == nil:
			// known: no longer reproduces (no KNOWN-FINDING line); fixed: stays fixed
		case e.Status == "known" && f.Key == e.Key:
			stats.RecordKnown(e.Key, e.What+" — "+firstLine(f.Msg))
		case e.Status == "known" && Known(p.ID, f.Key):
			// the reproduction of one listed finding showed another listed finding of the same property
			// (schedule-dependent reproductions): still a listed finding, reported under its own key
			stats.RecordKnown(f.Key, "(seen while reproducing "+e.Key+") "+firstLine(f.Msg))
		default:
			stats.RecordViolation(p.Test+"/entry/"+e.Key, f.Key, f.Msg, c)
			t.Errorf("VIOLATION %s entry %s (%s) key=%s: %s", p.ID, e.Key, e.Status, f.Key, f.Msg)
		}
	}
}

func firstLine(s string) string {
	if i := strings.IndexByte(s, '\n'); i >= 0 {
		return s[:i]
	}
	return s
}

func (p Prop[C]) replayFile(t *testing.T, path string) {
	b, err := os.ReadFile(path)
	if err != nil {
		t.Fatalf("read %s: %v", path, err)
	}
	// accept either a bare case or a stats violation record {test,key,msg,case}
	var rec struct {
		Test string          `json:"test"`
		Case json.RawMessage `json:"case"`
	}
	if json.Unmarshal(b, &rec) == nil && len(rec.Case) > 0 {
		if rec.Test != "" && !strings.HasPrefix(rec.Test, p.Test) {
			t.Skip("replay file is for another test")
		}
		b = rec.Case
	}
	var c C
	if err := json.Unmarshal(b, &c); err != nil {
		t.Fatalf("decode %s: %v", path, err)
	}
	if f := p.RunCase(c); f != nil {
		stats.RecordViolation(p.Test, f.Key, f.Msg, c)
		t.Errorf("VIOLATION %s key=%s: %s", p.ID, f.Key, f.Msg)
	}
}

// Main is the TestMain body shared by all property packages.
func Main(m *testing.M) {
	code := m.Run()
	stats.Flush()
	os.Exit(code)
}

// Pct draws an (approximately) uniform number in 0..99. rapid's IntRange is deliberately biased
// towards small values (IntRange(0,99) is < 10 in 42 % of draws), which is wrong for
// "with probability p" choices; mixing a drawn uint64 removes the bias and stays replayable.
func Pct(t *rapid.T, label string) int {
	u := rapid.Uint64().Draw(t, label)
	for i := 0; i < len(label); i++ { // salt with the label: the frequent draw 0 maps elsewhere per choice
		u = (u ^ uint64(label[i])) * 0x100000001B3
	}
	u += 0x9E3779B97F4A7C15
	u ^= u >> 31
	u *= 0x9E3779B97F4A7C15
	u ^= u >> 29
	u *= 0xBF58476D1CE4E5B9
	u ^= u >> 32
	return int(u % 100)
}

// Chance is true with probability pct/100.
func Chance(t *rapid.T, label string, pct int) bool { return Pct(t, label) < pct }
