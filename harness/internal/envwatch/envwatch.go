// Package envwatch separates trouble of the test ENVIRONMENT from behaviour of the code under
// test. The embedded etcd of a test process shares disk and cores with whatever else the machine
// runs; under heavy load its requests time out ("etcdserver: request timed out", slow fdatasync).
// Such an error is neither a property violation (the properties quantify over at most one
// injected failure, not over an overloaded store) nor a reason to give up on the whole run: the
// case in which it happened is retried and, if the environment stays disturbed, discarded and
// counted (stats label "discarded:environment-disturbed").
package envwatch

import (
	"fmt"
	"strings"
	"sync/atomic"
)

var count atomic.Int64

// Bump records one observation of environment trouble.
func Bump() { count.Add(1) }

// Count returns the number of observations so far.
func Count() int64 { return count.Load() }

var serverSide = []string{
	"etcdserver: request timed out",
	"etcdserver: too many requests",
	"etcdserver: leader changed",
	"etcdserver: no leader",
	"etcdserver: not capable",
	"i/o timeout", // the in-process redis (miniredis) starved of CPU: the client's read deadline fires
}

// IsEnvErr reports whether an error text names overload of the embedded etcd server (or the in-process redis) itself
// (never produced by core, never injected by the harness).
func IsEnvErr(s string) bool {
	for _, p := range serverSide {
		if strings.Contains(s, p) {
			return true
		}
	}
	return false
}

// HarnessErr is the panic value of harness-side plumbing (raw reads the ORACLE makes, set-up of a
// fixture) that failed. When its cause is a timeout or an unavailable store it is environment
// trouble; anything else is a harness bug and propagates.
type HarnessErr struct {
	What string
	Err  error
}

func (h HarnessErr) Error() string { return fmt.Sprintf("harness: %s: %v", h.What, h.Err) }

// Env reports whether the harness error is environment trouble.
func (h HarnessErr) Env() bool {
	s := h.Err.Error()
	return IsEnvErr(s) || strings.Contains(s, "context deadline exceeded") || strings.Contains(s, "code = Unavailable") ||
		strings.Contains(s, "i/o timeout") || strings.Contains(s, "connection refused")
}

// Must panics with a HarnessErr when err is not nil.
func Must(what string, err error) {
	if err != nil {
		panic(HarnessErr{What: what, Err: err})
	}
}
