// Package stats collects what a check actually explored (evaluations, class
// histogram, distinct non-trivial cases, samples, violations) and writes it as
// JSON to $VERIF_STATS so that bin/check can assemble evidence/<id>.json.
package stats

import (
	"encoding/binary"
	"encoding/json"
	"hash/fnv"
	"os"
	"sort"
	"sync"
)

// Violation is one failing case as recorded by a property.
type Violation struct {
	Test string          `json:"test"`
	Key  string          `json:"key"`
	Msg  string          `json:"msg"`
	Case json.RawMessage `json:"case"`
}

// KnownHit reports a known-findings entry that still reproduces (or a fixed one
// that regressed, which is recorded as a Violation instead).
type KnownHit struct {
	Key string `json:"key"`
	Msg string `json:"msg"`
}

type collector struct {
	mu          sync.Mutex
	evals       int64
	labels      map[string]int64
	nontrivial  map[uint64]struct{}
	ntOverflow  int64
	samples     []json.RawMessage
	ntSamples   []json.RawMessage
	violations  map[string]*Violation // last one per test (the shrunk one)
	knownHits   []KnownHit
	excluded    map[string]int64
	notes       []string
	replayed    int64
	tolerate    bool
	inconclusiv int64
}

var c = &collector{
	labels:     map[string]int64{},
	nontrivial: map[uint64]struct{}{},
	violations: map[string]*Violation{},
	excluded:   map[string]int64{},
}

const maxNT = 4_000_000
const maxSamples = 6

// Eval counts one evaluated case.
func Eval() { c.mu.Lock(); c.evals++; c.mu.Unlock() }

// Evals adds n evaluated cases.
func Evals(n int) { c.mu.Lock(); c.evals += int64(n); c.mu.Unlock() }

// Label counts a case in a class.
func Label(l string) { c.mu.Lock(); c.labels[l]++; c.mu.Unlock() }

// Excluded counts a case region skipped by construction because of a known finding.
func Excluded(key string) { c.mu.Lock(); c.excluded[key]++; c.mu.Unlock() }

// Inconclusive counts a case that hit a real-time bound once and was retried.
func Inconclusive() { c.mu.Lock(); c.inconclusiv++; c.mu.Unlock() }

// Replayed counts a regression / known-finding input re-run outside rapid.
func Replayed() { c.mu.Lock(); c.replayed++; c.mu.Unlock() }

// TolerateExit tells the driver that a non-zero exit of this process without a recorded violation
// is expected (the Go race detector fails the test binary for races listed as known findings).
func TolerateExit() { c.mu.Lock(); c.tolerate = true; c.mu.Unlock() }

// Note adds a free-text note to the evidence (deduplicated).
func Note(s string) {
	c.mu.Lock()
	defer c.mu.Unlock()
	for _, n := range c.notes {
		if n == s {
			return
		}
	}
	c.notes = append(c.notes, s)
}

// Hash of an arbitrary JSON-able value.
func Hash(v any) uint64 {
	b, _ := json.Marshal(v)
	h := fnv.New64a()
	h.Write(b)
	return h.Sum64()
}

// NonTrivial records a non-trivial case (by the property's stated rule); distinctness is by
// hash of the JSON form of v.
func NonTrivial(v any) {
	b, _ := json.Marshal(v)
	h := fnv.New64a()
	h.Write(b)
	k := h.Sum64()
	c.mu.Lock()
	defer c.mu.Unlock()
	if _, ok := c.nontrivial[k]; ok {
		return
	}
	if len(c.nontrivial) >= maxNT {
		c.ntOverflow++
		return
	}
	c.nontrivial[k] = struct{}{}
	if len(c.ntSamples) < maxSamples {
		c.ntSamples = append(c.ntSamples, b)
	}
}

// Sample offers a case for the samples list (first few kept).
func Sample(v any) {
	c.mu.Lock()
	defer c.mu.Unlock()
	if len(c.samples) >= maxSamples {
		return
	}
	b, _ := json.Marshal(v)
	c.samples = append(c.samples, b)
}

// RecordViolation stores the failing case for test (overwrites: rapid re-runs the shrunk case last).
func RecordViolation(test, key, msg string, cs any) {
	b, _ := json.Marshal(cs)
	c.mu.Lock()
	c.violations[test] = &Violation{Test: test, Key: key, Msg: msg, Case: b}
	c.mu.Unlock()
}

// ClearViolation forgets a recorded violation for test (used when rapid reports a run as
// passing after all, e.g. flaky).
func ClearViolation(test string) { c.mu.Lock(); delete(c.violations, test); c.mu.Unlock() }

// RecordKnown stores a known finding that still reproduces.
func RecordKnown(key, msg string) {
	c.mu.Lock()
	c.knownHits = append(c.knownHits, KnownHit{key, msg})
	c.mu.Unlock()
}

type out struct {
	Evaluations  int64             `json:"evaluations"`
	Labels       map[string]int64  `json:"labels"`
	NonTrivial   int               `json:"distinct_nontrivial"`
	NTOverflow   int64             `json:"nontrivial_uncounted_after_cap"`
	Samples      []json.RawMessage `json:"samples"`
	Violations   []*Violation      `json:"violations"`
	KnownHits    []KnownHit        `json:"known_hits"`
	Excluded     map[string]int64  `json:"excluded_by_known_finding"`
	Notes        []string          `json:"notes"`
	Replayed     int64             `json:"replayed_inputs"`
	Inconclusive int64             `json:"inconclusive_retried"`
	Tolerate     bool              `json:"tolerate_exit"`
}

// Flush writes the JSON stats file ($VERIF_STATS) and the hash side file ($VERIF_STATS.nt).
func Flush() {
	path := os.Getenv("VERIF_STATS")
	if path == "" {
		return
	}
	c.mu.Lock()
	defer c.mu.Unlock()
	o := out{
		Evaluations: c.evals, Labels: c.labels, NonTrivial: len(c.nontrivial), NTOverflow: c.ntOverflow,
		Excluded: c.excluded, Notes: c.notes, KnownHits: c.knownHits, Replayed: c.replayed, Inconclusive: c.inconclusiv, Tolerate: c.tolerate,
	}
	o.Samples = append(o.Samples, c.ntSamples...)
	for _, s := range c.samples {
		if len(o.Samples) >= maxSamples {
			break
		}
		o.Samples = append(o.Samples, s)
	}
	keys := make([]string, 0, len(c.violations))
	for k := range c.violations {
		keys = append(keys, k)
	}
	sort.Strings(keys)
	for _, k := range keys {
		o.Violations = append(o.Violations, c.violations[k])
	}
	b, _ := json.MarshalIndent(o, "", " ")
	_ = os.WriteFile(path, b, 0o644)
	buf := make([]byte, 0, 8*len(c.nontrivial))
	for k := range c.nontrivial {
		buf = binary.LittleEndian.AppendUint64(buf, k)
	}
	_ = os.WriteFile(path+".nt", buf, 0o644)
}
