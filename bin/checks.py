"""Single source of truth for the registered checks (read by bin/check and bin/mkmanifest)."""

def T(name, quick, thorough, **kw):
    d = dict(name=name, quick=quick, thorough=thorough)
    d.update(kw)
    return d

STRAT_ASSUME = [
    "candidates have distinct names, capacity >= 1 (the resource manager never offers a zero-capacity node), rate >= 0, node limit >= 0",
    "total passed to the strategy is the saturating sum of the candidates' capacities (as the property's quantifier states)",
]

CHECKS = {
    "C01": dict(
        pkg="strategy", tests=[T("TestC01", 30000, 3_000_000)], level="exploration",
        technique="property-based testing (rapid): generated candidate sets vs. a validity predicate on the returned plan",
        rule="rapid-generated strategy.Deploy calls (0-8 candidates, capacity 1..20/huge/unlimited, existing counts, usage/rate, count near the feasibility threshold, limit 0..12, 5 strategies + invalid names/counts); non-trivial = a plan was returned for >= 2 candidates; distinct by hash of the whole case",
        level_text="Random search over the whole documented input domain of strategy.Deploy with an independent validity predicate (keys, bounds, totals per strategy, AUTO limit). Finds counterexamples, never proves absence.",
        level_note="Trusted: rapid, the harness predicate. Assumes distinct candidate names, capacity >= 1, limit >= 0.",
        design_ref="DESIGN.md §4 C01", assumptions=STRAT_ASSUME),
    "C02": dict(
        pkg="strategy", tests=[T("TestC02", 30000, 3_000_000)], level="exploration",
        technique="property-based testing (rapid): differential against a reference feasibility computation with saturating arithmetic",
        rule="same generator as C01; every valid request is non-trivial (both outcomes are checked: feasible => not refused, infeasible => refused with an insufficient-resource error); distinct by hash of the case",
        level_text="Random search; the oracle is a reference feasibility predicate written from the statement, so both directions (refused although feasible / planned although infeasible) are decided.",
        level_note="Trusted: rapid, the reference feasibility function (saturating sums).",
        design_ref="DESIGN.md §4 C02", assumptions=STRAT_ASSUME),
    "C03": dict(
        pkg="strategy", tests=[T("TestC03", 30000, 3_000_000)], level="exploration",
        technique="property-based testing (rapid): relational balance predicates per strategy over the returned plan",
        rule="same generator as C01; non-trivial = >= 3 candidates and a plan that does not use all of them; distinct by hash of the case",
        level_text="Random search with relational oracles derived from the statement (AUTO evenness, GLOBAL usage balance recomputed with the same float additions, DRAINED fill order, EACH/FILL preference).",
        level_note="Trusted: rapid and the soundness argument for each predicate (DESIGN.md §4 C03).",
        design_ref="DESIGN.md §4 C03", assumptions=STRAT_ASSUME),
}

# entries integrated from builder groups live in bin/checks.d/*.py
import glob as _glob, os as _os
for _f in sorted(_glob.glob(_os.path.join(_os.path.dirname(_os.path.abspath(__file__)), "checks.d", "*.py"))):
    exec(open(_f).read())

# The thorough tier is bounded: each property should finish in roughly a quarter of an hour on the
# 16 cores (measured per-case costs from quick runs; DESIGN.md §7.6). Factors applied to the
# builders' original thorough counts; C01-C03 are so cheap that they get more instead.
_THOROUGH_SCALE = {"C01": 4, "C02": 4, "C03": 4, "C14": 0.15, "C16": 0.5, "C18": 0.5, "C19": 0.45, "C25": 0.45, "C26": 0.6,
                   "C32": 0.3, "C35": 0.4, "C36": 0.75}
for _id, _f in _THOROUGH_SCALE.items():
    for _t in CHECKS[_id]["tests"]:
        _t["thorough"] = max(_t["quick"], int(_t["thorough"] * _f))
