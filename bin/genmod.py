#!/usr/bin/env python3
"""Generate /verif/harness/go.mod + go.sum from /repo/go.mod (offline build recipe)."""
import hashlib, os, re, shutil, sys
ROOT = os.path.dirname(os.path.dirname(os.path.abspath(__file__)))
REPO = os.environ.get("VERIF_REPO", "/repo")
H = os.path.join(ROOT, "harness")

def main():
    src = open(os.path.join(REPO, "go.mod")).read()
    stamp = hashlib.sha256((src + open(os.path.join(REPO, "go.sum")).read() + REPO).encode()).hexdigest()
    sf = os.path.join(H, ".modstamp")
    if os.path.exists(sf) and open(sf).read() == stamp and os.path.exists(os.path.join(H, "go.mod")):
        return
    out = ["module verif", "", "go 1.23", ""]
    # copy every require / replace block and single-line directive
    blocks = re.findall(r"^(require|replace)\s*\((.*?)^\)", src, re.S | re.M)
    for kind, body in blocks:
        out.append("%s (%s)" % (kind, body))
    for m in re.finditer(r"^(require|replace)\s+([^(\n][^\n]*)$", src, re.M):
        out.append("%s %s" % (m.group(1), m.group(2)))
    out.append("")
    out.append("require github.com/projecteru2/core v0.0.0")
    out.append("require pgregory.net/rapid v1.3.0")
    out.append("replace github.com/projecteru2/core => %s" % REPO)
    open(os.path.join(H, "go.mod"), "w").write("\n".join(out) + "\n")
    shutil.copy(os.path.join(REPO, "go.sum"), os.path.join(H, "go.sum"))
    open(sf, "w").write(stamp)

if __name__ == "__main__":
    main()
