# world-based cluster properties (props/cluster)
WORLD_ASSUME = [
    "un-mocked world: real calcium.Calcium, real cobalt manager + cpumem plugin, real etcd store (embedded etcd), real bbolt WAL, harness-owned stateful fake engine (vengine://); every store/plugin/engine/WAL call is intercepted",
    "an injected fault means: the call is not performed and returns an error; exactly one fault per operation; compensating (rollback) steps are never faulted",
    "nodes are 'test' nodes (no heartbeat needed); CPU requests on the 1/4-core grid, memory in 16 MiB units; 1-2 pods, 1-4 nodes (some with 2 NUMA nodes)",
    "quiescence = no task executing in the calcium pool and no intercepted call in flight for 5 consecutive polls; oracles on engine parameters re-read before concluding",
]

CHECKS["C10"] = dict(
    pkg="cluster", tests=[T("TestC10", 60, 24000, shrinktime="60s", timeout_q=1800)], level="fault_enumeration",
    technique="stateful property-based testing (rapid) on the un-mocked cluster world with single-fault injection; oracle = harness's own sum over recorded workloads vs. the raw plugin record",
    rule="history of 2-9 cluster API calls (create with all strategies/filters, remove, dissociate, realloc, replace, set-node, node-resource; 45% of ops with one injected (call class, k-th occurrence) fault; 15% parallel batches of 2-3 calls) after a generated setup; after every action and quiescence: usage == sum of workloads per node in CPU/per-core/memory/NUMA memory, usage <= capacity per core and memory, NodeResource reports no diffs. Non-trivial = a fault actually fired or a parallel batch ran; distinct by hash of the case",
    level_text="Random histories with single-fault placement by (call class, occurrence) against an independent bookkeeping oracle on the raw etcd record. Sampled, not exhaustive: fault positions are drawn, interleavings of parallel batches are whatever the Go scheduler does.",
    level_note="Trusted: rapid, the interception layer, the harness's decoder of workload and node records. Faults hitting a step after another step already failed on its own are discarded (second failure).",
    design_ref="DESIGN.md §3, §4 C10", assumptions=WORLD_ASSUME)

CHECKS["C11"] = dict(
    pkg="cluster", tests=[T("TestC11", 120, 40000, shrinktime="60s", timeout_q=1800)], level="fault_enumeration",
    technique="fault enumeration driven by rapid: the operation is run fault-free to record its steps, the world is restored (raw etcd dump + engine state), and re-run with one injected failure at a recorded step (quick: one drawn step; thorough: 30% of cases iterate every step)",
    rule="generated setup + fault-free prefix, then one of create/remove/dissociate/realloc/replace/add-node/remove-node/set-node with the fault at a step of its own recorded step list; oracle: every metadata key (/pod /node /workloads /deploy /resource) and engine container (existence, running, engine params) that differs from the pre-state must be explained by a part of the call that reported success; usage oracle on every node. Non-trivial = the fault fired and the call (or a part) reported failure, or the operation failed on its own; distinct by hash of the case",
    level_text="Every step an operation actually performs is a candidate fault position (recorded, not guessed); the thorough tier enumerates all positions for a third of the cases. States and requests are random.",
    level_note="Trusted: rapid, the restore (raw etcd dump, engine snapshot), the explain() rule. Operations that fail on their own are checked without injection (their step list contains compensating steps).",
    design_ref="DESIGN.md §4 C11", assumptions=WORLD_ASSUME)

CHECKS["C12"] = dict(
    pkg="cluster", tests=[T("TestC12", 120, 40000, shrinktime="60s", timeout_q=1800)], level="fault_enumeration",
    technique="fault enumeration driven by rapid on create: fault-free run checked, world restored, re-run with one engine/store failure at a recorded step; message-level oracle against store, engine and usage",
    rule="generated setup + prefix + create request; planned instance count from the capacity API on the same state (count for AUTO/GLOBAL/DRAINED); oracle: stream closes; either one failure and nothing created or exactly one message per planned instance; each success is recorded, has a running container on the reported node with the reported resources; each failure leaves no record/container; no stray containers or records; usage oracle. Non-trivial = >= 2 planned instances or a fault that fired",
    level_text="Random requests over random states, every engine/store step of the recorded run is a candidate fault position (thorough enumerates all for a quarter of the cases).",
    level_note="Trusted: rapid, interception layer, fake engine as the source of container truth; the planned count for EACH/FILL comes from Calcium.CalculateCapacity.",
    design_ref="DESIGN.md §4 C12", assumptions=WORLD_ASSUME)

CHECKS["C20"] = dict(
    pkg="cluster", tests=[T("TestC20", 150, 60000, shrinktime="60s", timeout_q=1800)], level="exploration",
    technique="property-based testing (rapid) on the un-mocked cluster world; oracle = per-goroutine lock-order invariant over the recorded distributed-lock events",
    rule="two pods with nodes spread across them, two prefix deployments, then 1-5 operations among create/remove/dissociate/realloc/replace/control/send/set-node/remove-node/remove-pod/capacity/node-resource/pod-resource with include lists in any order, with repeats and across pods, and unsorted workload id lists with duplicates; in ~20% of the cases a final remove of one workload runs while blocked tasks occupy all but 2 or 3 workers of calcium's non-blocking task pool (2: the follow-up remap is refused, 3: accepted — classes 'tight-remove free=N'; its result stream must close and its lock events obey the same invariant); every CreateLock/Lock/Unlock is recorded with its goroutine; invariant: pod locks before workload locks, strictly ascending keys within a class, node-operation locks only with nothing held and nothing acquired while one is held. Non-trivial = an operation held >= 2 locks at once; distinct by hash of the case",
    level_text="Random search over operations and filters; the invariant is checked on the real lock calls of the real code paths (including the asynchronous remap).",
    level_note="Trusted: rapid, the lock wrapper around store.CreateLock, goroutine ids from runtime.Stack. Per goroutine is the right unit because every nesting of locks in calcium is synchronous.",
    design_ref="DESIGN.md §4 C20", assumptions=WORLD_ASSUME)

CHECKS["C21"] = dict(
    pkg="cluster", tests=[T("TestC21", 250, 80000, shrinktime="30s", timeout_q=1800)], level="exploration",
    technique="property-based testing (rapid) on the un-mocked world with both metadata stores; oracle = reference selection written from the statement vs. the node set CalculateCapacity(DUMMY, empty request) offers",
    rule="1-2 pods, 1-5 nodes that are test nodes or non-test nodes with/without a heartbeat status, optionally bypassed, with label sets; filter = include list (repeats, any order, missing names) or pod/any-pod with excludes, label filter, all flag; 30% on the Redis store. Non-trivial = include list with a repeat, or a down/bypassed node exists; distinct by hash of the case",
    level_text="Random search over filters and pod states on both back ends against an independent reference; both directions (dropped and extra nodes) are decided.",
    level_note="Trusted: rapid, the reference selection; the observed set is what the resource manager was asked about (every selected node has unlimited capacity for an empty request).",
    design_ref="DESIGN.md §4 C21", assumptions=WORLD_ASSUME)

CHECKS["C13"] = dict(
    pkg="cluster", tests=[T("TestC13", 150, 40000, shrinktime="60s", timeout_q=1800)], level="exploration",
    technique="property-based testing (rapid) on the un-mocked world with both metadata stores; an observer runs Store.GetDeployStatus at every intercepted step of a really concurrent deployment while no store/plugin/engine call is in flight (history invariant), plus a post-condition on counts and raw processing keys",
    rule="generated setup (45% Redis store on miniredis), a prior deployment of the same application entrypoint, then the observed deployment (all strategies/filters/resources), 60% with one injected engine/store/WAL failure at the k-th call of a class; invariant at every observation and node: recorded <= status <= prior + planned (planned = the count core passes to CreateProcessing); afterwards status == recorded and no /processing key exists (raw etcd prefix read / miniredis KEYS). Non-trivial = >= 5 observations with a marker present and (an instance failed or >= 2 messages); distinct by hash of the case",
    level_text="Random deployments observed at every step boundary of the real concurrent code, on both back ends; the schedule between steps is the Go scheduler's.",
    level_note="Trusted: rapid, the interception RW-lock that makes an observation atomic w.r.t. intercepted calls, the raw store used by the observer.",
    design_ref="DESIGN.md §3.2, §4 C13", assumptions=WORLD_ASSUME)

CHECKS["C14"] = dict(
    pkg="cluster", tests=[T("TestC14", 64, 16000, shards=32, shrinktime="90s", timeout_q=1800)], level="fault_enumeration",
    technique="crash-point enumeration driven by rapid: the deployment is recorded fault-free, the world restored, and re-run with the old instance frozen at a recorded step (before it takes effect, or after it took effect but before the caller sees the result); leases revoked, a new Calcium on the same store/WAL file/engine runs DisasterRecover; oracle on store, engine and usage",
    rule="generated setup, optional prefix, one deployment (1-4 nodes, 1-4 instances, all strategies), crash position drawn from the recorded steps plus 'after the last step' (thorough: 20% of the cases iterate every position in both flavours). After recovery: usage == sum of workloads on every node, no /processing key, every new recorded workload has a running container, pre-existing workloads/containers untouched, unrecorded containers only where the dying instance had created one without having logged it. Non-trivial = crash strictly between the first allocation and the last commit; distinct by hash of the case",
    level_text="Every externally visible step of the recorded deployment is a candidate crash point, in two flavours; sampled in quick, enumerated for a fifth of the cases in thorough. Crash = no further effect of the old process; torn writes inside etcd/bbolt are out of scope.",
    level_note="Trusted: rapid, the freeze (parked goroutines), lease revocation as the model of 'restart after the lock TTL', bbolt/etcd durability. A test process runs a bounded number of crash cases (frozen goroutines are leaked on purpose).",
    design_ref="DESIGN.md §3.2, §4 C14", assumptions=WORLD_ASSUME + ["the old instance's locks and sessions are gone when recovery runs (all etcd leases revoked)"])

CHECKS["C29"] = dict(
    pkg="cluster", tests=[T("TestC29", 150, 40000, shrinktime="45s", timeout_q=1800)], level="exploration",
    technique="property-based testing (rapid) with scripted engine faults: file transfers through the real rpc.Vibranium.Send (bufconn, real chunking) and through Calcium.SendLargeFile with harness chunking, against the fake engine's record of what was written",
    rule="1-4 workloads, 1-4 targets (existing / missing / duplicated ids), per-target engine script (read all / fail at once / fail after k bytes), file size in {0, 1, chunk-1, chunk, chunk+1, 2 chunks, 11 chunks+3, 13 chunks, 24 chunks+1, random <= 64 KiB}, uid/gid/mode, 1-2 files (rpc) or one file with chunk size in {1,7,100,512,2048,4096} (direct); oracle: the call finishes (10 s watchdog against milliseconds, retried once), exactly one result per distinct target and file, successes hold byte-identical content with the requested owner and mode, failures are reported for missing/failing targets only. Non-trivial = size > 1 chunk or a missing/failing/duplicated target; distinct by hash of the case",
    level_text="Random search over sizes, target sets and engine behaviours on the real code paths (gRPC front end included).",
    level_note="Trusted: rapid, the fake engine (it checks the declared size like a tar header would). The 10 s bound is the 'always finishes' oracle: a single expiry is re-run, only a reproduction counts.",
    design_ref="DESIGN.md §4 C29", assumptions=WORLD_ASSUME)

CHECKS["C30"] = dict(
    pkg="cluster", tests=[T("TestC30", 150, 40000, shrinktime="45s", timeout_q=1800)], level="exploration",
    technique="property-based testing (rapid) with scripted engine outcomes for logs / attach / wait and optional create-time faults on the un-mocked world; oracle on the message stream, the store, the fake engine, the raw usage record and a scan of the bbolt WAL file",
    rule="RunAndWait with count 1-3 (stdin only with count 1), per-container script: 0-6 (10%: 300+) stdout lines, 0-3 stderr lines, exit code in {0,1,2,137,255}, or a failure to fetch logs / attach / wait; 25% with one injected create-time failure; oracle: stream closes (30 s watchdog, retried once); per workload the exit code (or the engine error) is the last message and every scripted line arrived intact before it; afterwards no workload record, no container, usage equal to the pre-call record, WAL file holds no event. Non-trivial = count >= 2 or an engine/create failure; distinct by hash of the case",
    level_text="Random requests and engine outcomes on the real lambda path including its asynchronous clean-up; WAL state is read from the file with the exported kv.Lithium after closing the instance.",
    level_note="Trusted: rapid, the fake engine's scripted streams, the WAL scan.",
    design_ref="DESIGN.md §4 C30", assumptions=WORLD_ASSUME)

CHECKS["C34"] = dict(
    pkg="cluster", race=True, env={"GORACE": "log_path={work}/race halt_on_error=0"},
    tests=[T("TestC34", 40, 4000, shrinktime="20s", timeout_q=1800)], level="exploration",
    technique="property-based testing (rapid) of concurrent batches on the un-mocked world built with -race; oracle = the Go race detector, reports parsed from the GORACE log and keyed by the innermost core functions of the two conflicting accesses",
    rule="two pods, four nodes, ten workloads; a batch of 3-8 concurrent calls among create (with engine start failures on several instances of one node), remove across nodes and pods, dissociate, realloc, control, send, status get/set, list, capacity, pod resource, and create/list/remove/status through the real rpc.Vibranium over bufconn; the world is raw (no interception layer: its locks would add happens-before edges). Every batch is non-trivial (>= 3 overlapping calls); distinct by hash of the case",
    level_text="The race detector only sees the interleavings that ran: random batches, no claim of absence. A report whose conflicting accesses both lie outside core is a harness bug (process aborts, exit 2).",
    level_note="Trusted: the Go race detector, rapid. The embedded etcd, miniredis-free store client, ants pool and the fake engine add incidental synchronisation that can hide a race on a given run.",
    design_ref="DESIGN.md §4 C34", assumptions=WORLD_ASSUME)

CHECKS["C28"] = dict(
    pkg="cluster", tests=[T("TestC28", 60, 12000, shrinktime="60s", timeout_q=1800)], level="exploration",
    technique="property-based testing (rapid) over histories with the real selfmon.RunNodeStatusWatcher on the un-mocked world (etcd): heartbeats are deleted or their lease is revoked (= expiry), the watcher is started before or after the lapse; oracle = polling the raw store for the workloads' status with a generous ceiling",
    rule="1-3 non-test nodes with heartbeat statuses, 0-3 workloads each (some never reported a status), per node: keep / delete the heartbeat / revoke its lease, pause 0-200 ms between lapses, watcher active before the lapses (65%) or started after; oracle: every workload recorded on a lapsed node shows running=false and healthy=false within 30 s (normal < 1 s; a single expiry is re-run, only a reproduction counts), workloads on nodes with intact heartbeat keep their status. Non-trivial = a lapsed node with >= 1 workload; distinct by hash of the case",
    level_text="'Eventually' is decided with a real clock and a bound 30x the normal latency, retried once; sampled histories, no claim about all interleavings of the watcher's goroutines.",
    level_note="Trusted: rapid, lease revocation as the model of TTL expiry, the raw store reads. Redis back end not covered (miniredis publishes no keyspace notifications).",
    design_ref="DESIGN.md §4 C28", assumptions=WORLD_ASSUME)

CHECKS["C22"] = dict(
    pkg="cluster", tests=[T("TestC22", 120, 30000, shrinktime="45s", timeout_q=1800)], level="exploration",
    technique="schedule exploration driven by rapid: 2-4 concurrent cluster calls whose every store/plugin/engine/WAL call parks at a gate; the generator picks which parked call proceeds next (optionally always overtaking one class of call), optional single fault, optionally (15%, pod/node calls only) with every worker of calcium's non-blocking task pool occupied so that each task the calls submit is refused; referential-consistency oracle on a raw etcd dump at the quiescent end",
    rule="1-2 pods, 1-3 nodes, optional prefix deployment; calls among add-pod / remove-pod / add-node / remove-node / create / remove over a 2-pod, 3-node name universe; schedule = generated pick sequence over the parked calls (+ 45% 'hold' of one call class; 15% 'busy-pool': calls drawn from add-pod / remove-pod / add-node / remove-node only, task pool of 64 workers fully occupied while they run — class busy-pool in the histogram); oracle: every node's pod exists, nodes <=> plugin resource records, every pod-index entry and every workload points to a recorded node, ListWorkloads / ListNodeWorkloads succeed. Non-trivial = the steps of different calls interleaved >= 3 times; distinct by hash of the case",
    level_text="Interleavings are owned by the harness at the granularity of intercepted calls and sampled by rapid; inside one store call the real etcd decides. Known design-level windows are excluded by construction in search mode and replayed as known findings.",
    level_note="Trusted: rapid, the gate (goroutines blocked in distributed-lock waits are never parked), the raw etcd dump.",
    design_ref="DESIGN.md §3.2, §4 C22", assumptions=WORLD_ASSUME)
