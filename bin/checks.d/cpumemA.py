# integrated from builder group cpumemA
CHECKS['C04'] = {'pkg': 'cpumem',
 'level': 'exploration',
 'tests': [{'name': 'TestC04', 'quick': 4000, 'thorough': 800000}, {'name': 'TestC04Pure', 'quick': 150000, 'thorough': 40000000}],
 'technique': 'property-based testing (rapid): generated node states and requests against a joint-feasibility predicate written in the harness; real '
              'cpumem.Plugin on embedded etcd + pure schedule.GetCPUPlans variant',
 'rule': 'TestC04: node written via SetNodeResourceInfo, CalculateDeploy(count or the reported capacity), then SetNodeResourceUsage and a read of the raw etcd '
         'record; TestC04Pure: all plans of schedule.GetCPUPlans must fit together. Non-trivial = at least one instance was allocated; distinct by hash of the '
         'case',
 'level_text': 'Random search over node states (arbitrary shares/usage, NUMA topology and memory, memory usage by unbound workloads) and requests; the oracle '
               'recomputes per-core, per-NUMA-node and total memory sums itself and validates the committed record with its own predicate. Finds '
               'counterexamples, never proves absence.',
 'level_note': "Trusted: rapid, the harness's sums. Memory usage is generated within capacity here (C06 covers usage above capacity).",
 'design_ref': 'DESIGN.md §4 C04',
 'assumptions': ['node states are written through Plugin.SetNodeResourceInfo (plugin tests) or passed through NodeResourceInfo.Validate (pure tests), so only '
                 'states the plugin itself accepts exist; per-core usage is 0..capacity (Validate would also accept negative usage, which no code path '
                 'produces)',
                 "share base in {100,10,1000,7,1,2..64}, max-share -1 or >= 1 (the property's quantifier excludes 0), 1-8 cores (C06: 1-12), 0/2/3 NUMA nodes, "
                 'memory in small units so that the memory bound and the CPU bound are of the same order',
                 "one embedded etcd per test process (the repo's embedded.NewCluster), a fresh node name per case"]}

CHECKS['C05'] = {'pkg': 'cpumem',
 'level': 'exploration',
 'tests': [{'name': 'TestC05', 'quick': 4000, 'thorough': 800000}, {'name': 'TestC05Pure', 'quick': 150000, 'thorough': 40000000}],
 'technique': 'property-based testing (rapid): requests of k pieces (k uniform on the 1/shareBase grid) through CalculateDeploy and CalculateRealloc (origin + '
              'delta), exact piece count and shape recomputed in the harness',
 'rule': 'cpu-request = k/shareBase with k uniform in 1..5/8 of the node (25 % below one core), limit equal/absent/above/below; 45 % followed by a realloc by '
         'dk pieces. Non-trivial = fractional k (k mod shareBase != 0) with at least one instance returned; distinct by hash of the case',
 'level_text': 'Random search; oracle = sum of pieces equals k, full shares plus at most one core with k mod shareBase, round(cpu_request*shareBase) equals '
               'the pieces held. The expected k after request/limit normalisation (bound: request raised to limit) is computed in integers by the harness.',
 'level_note': 'Trusted: rapid, the integer reference of the request/limit normalisation (documented in WorkloadResourceRequest.Validate).',
 'design_ref': 'DESIGN.md §4 C05',
 'assumptions': ['node states are written through Plugin.SetNodeResourceInfo (plugin tests) or passed through NodeResourceInfo.Validate (pure tests), so only '
                 'states the plugin itself accepts exist; per-core usage is 0..capacity (Validate would also accept negative usage, which no code path '
                 'produces)',
                 "share base in {100,10,1000,7,1,2..64}, max-share -1 or >= 1 (the property's quantifier excludes 0), 1-8 cores (C06: 1-12), 0/2/3 NUMA nodes, "
                 'memory in small units so that the memory bound and the CPU bound are of the same order',
                 "one embedded etcd per test process (the repo's embedded.NewCluster), a fresh node name per case"]}

CHECKS['C06'] = {'pkg': 'cpumem',
 'level': 'exploration',
 'tests': [{'name': 'TestC06Pure', 'quick': 200000, 'thorough': 40000000}, {'name': 'TestC06Plugin', 'quick': 4000, 'thorough': 800000}],
 'technique': 'property-based testing (rapid) with a watchdog: every planning call runs on its own goroutine; a panic is a finding keyed by the innermost '
              'frame of the code under test, a call that has not returned after 5 s (normal: microseconds) or drives the heap above 2 GB is recorded as a hang '
              'and the process exits',
 'rule': 'widest domain: over-fragmented nodes (more partially used cores than max-share), non-default shares, memory usage above capacity, requests below one '
         'piece, around the node size and absurdly large, optional origin CPU map (affinity path); calls: schedule.GetCPUPlans (pure) and '
         "GetNodesDeployCapacity/CalculateDeploy/CalculateRealloc (plugin). Non-trivial = outside the domain of the repo's unit tests (max-share != -1, share "
         'base != 100, request < 0.3 or > node, non-multiple capacity, memory over capacity)',
 'level_text': "Random search for panics and non-termination. The only wall-clock oracle in this group: 'returns in bounded time' is the property; 5 s against "
               'microseconds is more than three orders of magnitude of slack.',
 'level_note': "Trusted: rapid, Go's panic/recover, the watchdog. A hang cannot be shrunk (the process must exit); its case is written as the replay file.",
 'design_ref': 'DESIGN.md §4 C06',
 'assumptions': ['node states are written through Plugin.SetNodeResourceInfo (plugin tests) or passed through NodeResourceInfo.Validate (pure tests), so only '
                 'states the plugin itself accepts exist; per-core usage is 0..capacity (Validate would also accept negative usage, which no code path '
                 'produces)',
                 "share base in {100,10,1000,7,1,2..64}, max-share -1 or >= 1 (the property's quantifier excludes 0), 1-8 cores (C06: 1-12), 0/2/3 NUMA nodes, "
                 'memory in small units so that the memory bound and the CPU bound are of the same order',
                 "one embedded etcd per test process (the repo's embedded.NewCluster), a fresh node name per case"]}

CHECKS['C33'] = {'pkg': 'cpumem',
 'level': 'exploration',
 'tests': [{'name': 'TestC33', 'quick': 3000, 'thorough': 600000}],
 'technique': 'property-based testing (rapid): short histories on the real plugin (place 1-5 bound workloads, release some, realloc one with keep-cpu-bind and '
              'zero CPU delta, repeated 8x because the planner used to iterate a Go map)',
 'rule': 'nodes whose capacities are multiples of the share base, with/without NUMA; oracle compares the SET of cores, the total pieces and numa_node with the '
         'origin (per-core pieces may swap, which the statement allows; a refusal moves nothing). Non-trivial = NUMA node, or workloads released before the '
         'realloc, or a non-plain origin class. Three origin classes are known to move (known_findings.json) and are excluded by construction after '
         'classification; the generator then makes the target a whole-core workload in 80 % of the cases',
 'level_text': 'Random search over placement histories; oracle independent of the planner (set comparison with the recorded origin).',
 'level_note': 'Trusted: rapid. Known design-level findings: workloads holding a fragment core, whole-core workloads on oversold cores shared with fragments, '
               'and workloads placed by the cross-NUMA stage can move.',
 'design_ref': 'DESIGN.md §4 C33',
 'assumptions': ['node states are written through Plugin.SetNodeResourceInfo (plugin tests) or passed through NodeResourceInfo.Validate (pure tests), so only '
                 'states the plugin itself accepts exist; per-core usage is 0..capacity (Validate would also accept negative usage, which no code path '
                 'produces)',
                 "share base in {100,10,1000,7,1,2..64}, max-share -1 or >= 1 (the property's quantifier excludes 0), 1-8 cores (C06: 1-12), 0/2/3 NUMA nodes, "
                 'memory in small units so that the memory bound and the CPU bound are of the same order',
                 "one embedded etcd per test process (the repo's embedded.NewCluster), a fresh node name per case"]}

