# integrated from builder group storeA
CHECKS['C23'] = {'pkg': 'store',
 'tests': [{'name': 'TestC23', 'quick': 200, 'thorough': 40000, 'shrinktime': '30s'}],
 'level': 'exploration',
 'max_parallel': 8,
 'technique': 'property-based differential testing (rapid): generated operation scripts run against the real etcd store (embedded etcd) and the real Redis '
              'store (miniredis), compared step by step and by a full read-back through the Store API',
 'rule': 'rapid-generated histories of 3-22 store operations (pods, nodes with/without labels, certificates, test flag; workloads with/without processing '
         'marker, by-read-back or hand-built update/remove; status with TTL 0; processing create/delete; lists with label filters and limits; multi-gets) over '
         '2 pods x 3 nodes x 4 workload ids x 2 apps x 2 entrypoints x 2 idents; non-trivial = the history contains at least one step that fails on a store; '
         'distinct by hash of the script',
 'level_text': "Random search over operation histories; each back end is the other's reference (same success/failure per step, same normalised answers, same "
               '30-query read-back snapshot after every step) plus the per-store invariant that a failed create changes nothing. Error texts are not compared. '
               'Finds counterexamples, never proves absence.',
 'level_note': 'Trusted: rapid, embedded etcd, miniredis as a faithful Redis (MULTI/WATCH/SCAN MATCH). Not covered: positive TTLs / expiry (C25), ephemeral '
               'keys (C26), streams, locks, concurrency between callers. Assumes engine-assigned workload ids are never re-placed under another name/node '
               'together with a processing marker (skipped, counted in the histogram).',
 'design_ref': 'DESIGN.md §4 C23',
 'assumptions': ["status operations use TTL 0 only (node status: ttl 0 = refused, ttl -1 = delete); positive TTLs are C25's",
                 'RemoveNode / UpdateNodes / most Update- and RemoveWorkload calls pass the entity read back from the same store, as calcium does',
                 "a limited ListWorkloads is compared by size only (without label filter), and checked to be a subset of the store's own unlimited answer; "
                 'which elements a limit keeps is unspecified',
                 'workload ids are unique: AddWorkload under a processing marker for an id that already exists under another name/node is skipped (both stores '
                 'overwrite blindly there and leave one id under two deploy keys)']}

CHECKS['C24'] = {'pkg': 'store',
 'tests': [{'name': 'TestC24Law', 'quick': 200000, 'thorough': 10000000}, {'name': 'TestC24Store', 'quick': 300, 'thorough': 60000, 'shrinktime': '30s'}],
 'level': 'exploration',
 'max_parallel': 8,
 'technique': 'property-based testing (rapid): worlds of workloads created under generated, deliberately related names in both real stores, every query '
              "combination compared with the harness's own record; plus the pure inverse law of workload names",
 'rule': "names from letters, digits and the separators _ / . - * ? [ ] (related families: a, ab, a_b, a-b, a.b, a*, [ab], ...) filtered only by the API's own "
         'Validate functions; 2-5 (app, entrypoint, node) triples, 1-3 workloads each, pending processing markers, removals, 0-5 cross-combination probes, '
         'status streams in 35% of the cases; non-trivial (store) = two names in play where one is a proper prefix of the other; non-trivial (law) = a name '
         "with a separator or an app with '_'; distinct by hash of the case",
 'level_text': "Random search; the oracle is the harness's record of which workload was created under which names (ListWorkloads for app / app+entry / "
               'app+entry+node with and without label filter, ListNodeWorkloads, GetDeployStatus incl. pending markers, before and after removals; on etcd '
               'also WorkloadStatusStream: a status change reaches exactly the streams whose filter names the workload). Pure law: '
               'ParseWorkloadName(MakeWorkloadName(a,e,s)) == (a,e,s).',
 'level_note': "Trusted: rapid, embedded etcd, miniredis' glob matching. WorkloadStatusStream is decided on etcd only: miniredis publishes no keyspace "
               'notifications, so the Redis stream never fires there. Stream completeness uses a 30 s liveness bound (normal latency ~1 ms) after the watch '
               'was observed to be established.',
 'design_ref': 'DESIGN.md §4 C24',
 'assumptions': ['names are exactly those accepted by types.DeployOptions.Validate / Entrypoint.Validate / AddNodeOptions.Validate (the real functions are '
                 'called by the generator and by Run)',
                 'workload-name suffixes are letters (utils.RandomString), workload ids are plain alphanumerics (engine-assigned)',
                 'pod names are not part of the property (one fixed pod)']}

