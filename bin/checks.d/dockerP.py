# integrated from builder group dockerP
CHECKS['C31'] = {'pkg': 'docker',
 'tests': [{'name': 'TestC31', 'quick': 5000, 'thorough': 500000}],
 'level': 'exploration',
 'technique': 'property-based testing (rapid): generated allocation scripts run through the real resource manager + cpumem plugin (embedded etcd) and the real '
              'docker engine against an in-process fake Docker daemon; oracle = Docker Engine API semantics of the cgroup settings on the wire vs. the '
              "plugin's allocation of record",
 'rule': 'rapid-generated scripts of 2-5 operations (alloc x1..3 / realloc / remap) on a node of 1-8 cores, optionally split in 2 NUMA nodes; requests '
         'bound/unbound, cpu on a 0.01 grid incl. limit 0, request omitted, limit <,=,> request; memory limit 0 / below 4 MiB / 4..8 MiB / up to 6 GiB on '
         'nodes of 8 GiB..1 TiB; realloc deltas +/-, bind switches, limits driven to exactly 0; engine params optionally JSON round-tripped. Every container '
         'create / update request the engine sends is judged. Non-trivial = the script applied settings for a bound workload with a fractional core or an '
         'unbound workload with a non-zero cpu limit; distinct by hash of the script',
 'level_text': 'Random search over allocation scripts; each create/update body received by the fake daemon is decided by an independent predicate (cpuset = '
               'allocated cores / share pool, cpuset-mems = NUMA node, quota unrestricted or limit x period, shares = 1024 x fractional core, memory = '
               'memory+swap = limit or unlimited). Finds counterexamples, never proves absence.',
 'level_note': "Trusted: rapid, the fake daemon's decoding of the Engine API JSON field names, the stated Docker semantics (create: 0 = unset/unlimited; "
               "update: 0/empty = unchanged, -1 = lifted; MemorySwap 0 at create = 2 x Memory). The allocation of record is the cpumem plugin's "
               'WorkloadResource.',
 'design_ref': 'DESIGN.md §4 C31',
 'assumptions': ['engine params come from cobalt.Manager + the cpumem plugin only (ShareBase 100, MaxShare -1), as cluster/calcium obtains them; no other '
                 'resource plugin contributes',
                 'nodes have 8 GiB..1 TiB of memory, NUMA nodes hold half of it each; plugin refusals (capacity, negative results, bind without request) are '
                 'counted, not judged',
                 "the host the fake daemon reports has exactly the node's cores 0..n-1",
                 'a refusal by the engine (memory limit in (0, 4 MiB)) applies nothing and is not a wrong setting; calcium rolls such an allocation back',
                 'shares are compared with 1024 x frac(cpu_request) +/- 1; CpuQuota with cpu_limit x CpuPeriod, |diff| < 1']}

