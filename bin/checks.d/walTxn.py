# integrated from builder group walTxn
CHECKS['C16'] = {'pkg': 'wal',
 'tests': [{'name': 'TestC16', 'quick': 1200, 'thorough': 150000, 'qshards': 4, 'timeout_q': 1200, 'shrinktime': '45s'}],
 'level': 'exploration',
 'technique': 'model-based property testing (rapid): generated histories (log / sequential and concurrent bursts / commit / close+reopen or crash-copy with '
              'handler re-registration / recover with scripted per-event outcomes / peek) executed on the real wal.Hydro over a fresh bbolt file, compared '
              'with an in-harness model in token space; stored state read back through the exported kv.Lithium',
 'rule': 'one history on a fresh bbolt file (25% log <= 15 events, 45% 17..90, 30% 258..400 so that ids pass 0x10 and 0x100; 4 event types; payload 0..9000 '
         'bytes; 8/25/60% of events left uncommitted; handler outcome per event and attempt: ok / handle error / not needed / check error / decode error; a '
         'type left unregistered in 10-25% of sessions); non-trivial = a recovery that meets >= 2 live events with different outcomes, or a reopen with live '
         'events; distinct by hash of the script',
 'level_text': 'Random search over histories against a reference model; every recovery is bracketed by scans of the file (ids of all live events known), every '
               'close is followed by a scan of the real file. Concurrent loggers are real goroutines (schedule not controlled; the oracle only constrains ids '
               'by program order and uniqueness there). Crash = continue from a copy of the file taken at a quiescent point; crashes in the middle of a bbolt '
               'transaction are not explored.',
 'level_note': "Trusted: rapid, the model in wal_test.go, bbolt's durability of a committed Update (a copy of the file at a quiescent point is what a crashed "
               'process leaves). Not asserted (statement silent): key format, envelope encoding, whether Log rejects an unregistered type, number of Decode '
               'calls.',
 'design_ref': 'DESIGN.md §4 C16',
 'assumptions': ['recovery does not run concurrently with logging or committing (calcium recovers at start-up)',
                 'handlers do not log new events from inside Handle',
                 "non-empty type names; handlers' Encode/Decode are pure",
                 'commit closures are not used after their session was closed',
                 'temp files on /dev/shm when available (VERIF_TMP overrides)']}

CHECKS['C17'] = {'pkg': 'txn',
 'tests': [{'name': 'TestC17', 'quick': 300000, 'thorough': 32000000}],
 'level': 'exploration',
 'technique': 'exhaustive enumeration of the finite outcome/cancellation domain (360 calls) plus property-based testing (rapid) over ttl, parent-context '
              'shape, tracing value and error wrapping; oracle = reference semantics from the statement applied to the recorded call log of harness step '
              'closures',
 'rule': 'one call of utils.Txn / utils.PCR with scripted steps (cond ok/fail, follow-up ok/fail/absent, rollback ok/fail/absent, caller cancelled '
         'never/before/during cond/between/during follow-up/during rollback, steps that ignore or honour a cancelled context); non-trivial = some step '
         "returned an error; distinct by hash of the case. The class 'exhaustive-enumeration-cases=360' counts the complete enumeration that precedes the "
         'random cases on every run',
 'level_text': 'The finite domain of step outcomes x caller-cancellation points is enumerated completely on every run (so for that domain the result is '
               'exhaustive for the sequential semantics of the helper); ttl values, context shapes and error values on top are random search. Cancellation is '
               'injected synchronously from inside the steps; asynchronous cancellation racing with a step boundary is not explored.',
 'level_note': "Trusted: the Go context package's synchronous cancellation propagation, rapid, the reference semantics in judge(). The rollback-context clause "
               "is decided for ttl >= 1 min (no timer can fire); for tiny/non-positive ttl only 'not context.Canceled' is demanded. PCR is never called with a "
               'nil rollback (no caller does; it would dereference it).',
 'design_ref': 'DESIGN.md §4 C17',
 'assumptions': ['cond is never nil (every caller passes one)',
                 'PCR is given a non-nil rollback',
                 'steps do not panic',
                 'cancellation happens at step granularity from inside the steps (deterministic), not from a concurrent goroutine']}

