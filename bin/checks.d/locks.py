# integrated from builder group locks
CHECKS['C18'] = {'pkg': 'lock',
 'tests': [{'name': 'TestC18Etcd', 'quick': 170, 'thorough': 40000, 'shrinktime': '15s'},
           {'name': 'TestC18Redis', 'quick': 35, 'thorough': 8000, 'shrinktime': '2s'},
           {'name': 'TestC18Window', 'quick': 10, 'thorough': 1600, 'shrinktime': '10s'}],
 'level': 'exploration',
 'technique': 'property-based testing (rapid): generated contender scripts executed with real goroutines against both lock back ends; history invariants '
              '(holder count <= 1, pinned try-lock must fail, lower bound on a failed wait, generous waiter must acquire)',
 'rule': 'rapid-generated scripts: 2-5 (Redis 2-3) contenders x 1-3 attempts (lock with wait timeout short/generous, 30% try-lock, 10% caller-side cancel), '
         'start offsets, delays and critical-section lengths as schedule perturbation; non-trivial = the executed history had >= 2 attempts of different '
         'contenders overlapping in real time; distinct by hash of the script',
 'level_text': 'Random search over contender scripts; interleavings are sampled through generated delays, the real etcd/Redis decide the order inside a call. '
               'The oracle is a harness-side holder count plus a pin protocol (a registered holder does not release before a concurrent try-lock returned), so '
               'it is independent of both lock implementations.',
 'level_note': 'Trusted: rapid, the harness bookkeeping (count incremented after Lock returns, decremented before Unlock is called), embedded etcd and '
               'miniredis as stand-ins for the servers. Interleavings are sampled, not enumerated.',
 'design_ref': 'DESIGN.md §4 C18',
 'assumptions': ['one lock object per attempt, created through Store.CreateLock(key, ttl) as cluster/calcium/lock.go:doLock does; a failed attempt is rolled '
                 'back with Unlock, a successful one released with Unlock after the critical section',
                 'holders stay within the lease: etcd sessions are kept alive by the client (ttl < 1 s -> client default 60 s lease; 1 s <= ttl < 3 s is not '
                 'generated because such a lease depends on keepalives arriving in time on a loaded machine); Redis critical sections last at most ttl/2 and '
                 'miniredis time does not advance on its own',
                 "back ends: the real etcdv3.Mercury on the embedded single-member etcd of the repo's tests, the real redis.Rediaron on miniredis (one server "
                 'per test process, a fresh lock key per executed script)',
                 'real-time upper bounds (try-lock returns without waiting; a waiter with a >= 20x timeout acquires; notification within 20x the interval) '
                 'count only if they are exceeded again when the same script is re-run']}

CHECKS['C19'] = {'pkg': 'lock',
 'tests': [{'name': 'TestC19Etcd', 'quick': 45, 'thorough': 16000, 'shrinktime': '10s'},
           {'name': 'TestC19Redis', 'quick': 10, 'thorough': 320, 'shrinktime': '10s'},
           {'name': 'TestC19EtcdOutage', 'quick': 3, 'thorough': 160, 'shrinktime': '20s'},
           {'name': 'TestC19Calcium', 'quick': 12, 'thorough': 1600, 'shrinktime': '30s', 'pkg': 'cluster'}],
 'level': 'exploration',
 'technique': 'property-based testing (rapid) with injected lease loss: etcd lease of the holder revoked through the raw client while contenders wait; Redis '
              'TTL elapsed in real time and with miniredis.FastForward',
 'rule': 'every case is non-trivial (a held lock is lost while 1-2 contenders wait in Lock or poll TryLock); varied: ttl 1-3 s (etcd) / 200-900 ms (Redis), '
         'holder acquired by Lock, TryLock or Lock after queueing behind a predecessor, delay of the fault relative to the keepalive phase; distinct by hash '
         'of the case',
 'level_text': 'Random search over loss scenarios. etcd: the returned context must be done (with an error) within 20x max(TTL/3, 500 ms client tick) of the '
               'revocation, retried once before it counts; the class histogram reports how many notifications arrived within 1x/2x/5x the interval. Redis: a '
               'returned context without a Done channel is decided without a clock.',
 'level_note': 'Trusted: rapid, embedded etcd, miniredis. Only server-side revocation is injected for etcd (no network partition / client-side keepalive '
               'loss). The Redis half is a known finding (redis:lock-context-never-cancelled): its oracle is excluded in generated cases, the reproduction '
               'runs in the replay tier.',
 'design_ref': 'DESIGN.md §4 C19',
 'assumptions': ['one lock object per attempt, created through Store.CreateLock(key, ttl) as cluster/calcium/lock.go:doLock does; a failed attempt is rolled '
                 'back with Unlock, a successful one released with Unlock after the critical section',
                 'holders stay within the lease: etcd sessions are kept alive by the client (ttl < 1 s -> client default 60 s lease; 1 s <= ttl < 3 s is not '
                 'generated because such a lease depends on keepalives arriving in time on a loaded machine); Redis critical sections last at most ttl/2 and '
                 'miniredis time does not advance on its own',
                 "back ends: the real etcdv3.Mercury on the embedded single-member etcd of the repo's tests, the real redis.Rediaron on miniredis (one server "
                 'per test process, a fresh lock key per executed script)',
                 'real-time upper bounds (try-lock returns without waiting; a waiter with a >= 20x timeout acquires; notification within 20x the interval) '
                 'count only if they are exceeded again when the same script is re-run']}

