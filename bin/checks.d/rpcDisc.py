# integrated from builder group rpcDisc
CHECKS['C27'] = {'pkg': 'discovery',
 'tests': [{'name': 'TestC27', 'quick': 45, 'thorough': 12000, 'timeout_q': 1500, 'shrinktime': '60s'},
           {'name': 'TestC27Churn', 'quick': 150, 'thorough': 24000, 'shrinktime': '30s'}],
 'level': 'exploration',
 'technique': 'property-based testing (rapid) over histories: generated scripts of register/deregister and subscribe/read-slowly/stop-reading/unsubscribe '
              "against the real helium on the real etcd store, decided against the script's own bookkeeping; TestC27Churn: the real helium on a stub "
              "registration stream, rounds of subscribers leaving while others join, each followed by a change every live subscriber must receive",
 'rule': 'rapid-generated scripts (1-4 addresses, some registered before helium starts; 1-4 subscribers fast/slow(5-250 ms)/stopping to read, raw Unsubscribe '
         'or Calcium-style context cancel; 4-12 steps with 0-120 ms pauses; late joiners); non-trivial = at least 2 subscribers subscribed at once and at '
         'least 1 registration change while they were; TestC27Churn: 4-24 rounds (0-3 leave while 0-3 join), non-trivial = >= 3 rounds with both; distinct by hash of the script',
 'level_text': 'Random search over operation histories with real time: after the churn every live subscriber must get a push within push interval (1 s) + 6 s '
               'slack whose latest content is exactly the registered set with Interval = 2 x push interval; every Unsubscribe must return and the channel be '
               'closed within a 10 s watchdog. Real-time bounds are retried once before they count. Interleavings are sampled (generated pauses), not '
               'enumerated.',
 'level_note': 'Trusted: rapid, the embedded etcd, the harness bookkeeping of what is registered. Upper time bounds are generous (normal latency: ms for '
               'change pushes, <= 1 s for the periodic push) and retried once.',
 'design_ref': 'DESIGN.md §4 C27',
 'assumptions': ["store back end: etcdv3.Mercury on the embedded etcd used by the repo's tests; the Redis back end is not covered (miniredis emits no keyspace "
                 'notifications)',
                 'push interval 1 s (helium silently replaces intervals below 1 s by 15 s)',
                 'Calcium.WatchServiceStatus is emulated by its two lines (Subscribe; goroutine: <-ctx.Done(); Unsubscribe) instead of building a full Calcium',
                 'subscribers that stopped reading are unsubscribed (asynchronously, like Calcium does) before convergence is judged; the variant where one '
                 'stays subscribed is the known finding stalled-subscriber-blocks-dispatch and is excluded by construction while listed',
                 'slow readers pause at most 250 ms per read (a reader slower than the push interval delays every other subscriber: same root cause as the '
                 'known finding)']}

CHECKS['C35'] = {'pkg': 'rpcauth',
 'tests': [{'name': 'TestC35', 'quick': 12000, 'thorough': 4800000}],
 'level': 'exploration',
 'technique': "property-based testing (rapid): generated server/client credential pairs over a real in-process gRPC connection (bufconn) with the repo's "
              'interceptors and per-RPC credentials',
 'rule': 'rapid-generated server credentials (username over [A-Za-z0-9_.-]{1,12} or a dictionary, never a name gRPC reserves; password printable ASCII incl. '
         'empty) and 1-4 callers each (identical, password random/prefix/extension/case/empty, username random/prefix/extension/case-only, both different, no '
         'credentials), every caller makes one unary and one server-streaming call; non-trivial = a username with an upper-case letter or a password that is '
         'empty or has punctuation; distinct by hash of the case',
 'level_text': 'Random search; the oracle is computed from the strings alone: identical credentials must be served, a different password or a username '
               'different beyond letter case (or no credentials) must be rejected with an RPC error, for the unary and the streaming call alike; a call that '
               'does not finish within 20 s twice is a hang.',
 'level_note': "Trusted: rapid, grpc-go's bufconn transport. A username that differs from the configured one only in letter case with the right password is "
               'not judged (gRPC metadata keys are case-insensitive and travel lower-cased).',
 'design_ref': 'DESIGN.md §4 C35',
 'assumptions': ['server built as core.go builds it (stream + unary interceptor from auth.NewAuth only when a username is configured), client as '
                 'client/client.go (auth.NewCredential as per-RPC credentials, insecure transport)',
                 'usernames are valid HTTP/2 header names not reserved/set by gRPC (grpc-*, *-bin, content-type, user-agent, te, connection, host, ...); '
                 'passwords are printable ASCII without leading/trailing blanks',
                 'username equal up to letter case + right password: no demand (the wire cannot carry the case)']}

CHECKS['C36'] = {'pkg': 'rpcauth',
 'tests': [{'name': 'TestC36', 'quick': 120, 'thorough': 16000, 'qshards': 4, 'timeout_q': 900}],
 'level': 'exploration',
 'technique': 'property-based testing (rapid) with scripted faults: a bufconn server plays generated per-stream scripts (k messages then status error / EOF / '
              "stay open), the client uses the repo's retry interceptors; decided against a reference model of the script",
 'rule': 'rapid-generated cases: retry budget Max 0..3, 2-4 concurrent logical streams (WorkloadStatusStream, WatchServiceStatus, non-watch ListWorkloads), '
         'per watch a script of up to 4 delivering streams separated by 0..Max+1 failed reopen attempts (error or EOF, 9 status codes), ending in budget '
         'exhaustion or an open stream, plus a cancellation plan (none / outside Recv after n messages / inside Recv / during back-off) and an optional '
         'failing unary call; non-trivial = at least one break followed by a successful reopen that delivered a message; distinct by hash of the case',
 'level_text': 'Random search over fault sequences; reference model: delivered messages = concatenation of the scripted streams until 1+Max consecutive reopen '
               'attempts fail (then an error must surface); the server must see the original request on every stream, exactly the modelled number of streams, '
               'no stream after a caller cancel, exactly one stream for the non-watch method and one call for the unary. Only lower time bounds; a 10 s + '
               '20x-back-off watchdog (retried once) turns a hang into a finding.',
 'level_note': 'Trusted: rapid, grpc-go bufconn, the reference model. Budget semantics assumed: per break one reopen plus Max retries of it (what '
               'backoff.WithMaxRetries gives); Max=0 therefore still reopens once.',
 'design_ref': 'DESIGN.md §4 C36',
 'assumptions': ['client built like client/client.go: NewUnaryRetry(Max 0) and NewStreamRetry(Max) as dial interceptors (the unary interceptor with Max > 0 '
                 'retries every unary call by design; client.go never configures that)',
                 'retry budget is per break: 1 reopen + Max retries; a reopen counts as successful when the new stream delivers a message',
                 'each failed reopen attempt costs a real exponential back-off (250-750 ms, x1.5): scripts are limited to 3 back-offs per stream',
                 'the cancel-during-back-off expectation (no further stream) assumes the cancelling goroutine runs within the 250 ms minimum back-off; retried '
                 'once before it counts']}

