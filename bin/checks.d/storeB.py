# integrated from builder group storeB
CHECKS['C25'] = {'pkg': 'storettl',
 'tests': [{'name': 'TestC25Redis', 'quick': 6000, 'thorough': 1500000, 'shards': 8},
           {'name': 'TestC25Etcd', 'quick': 30, 'thorough': 4000, 'shards': 5},
           {'name': 'TestC25EtcdExpiry', 'quick': 3, 'thorough': 320, 'shards': 5}],
 'level': 'exploration',
 'technique': 'property-based testing (rapid): generated status histories (report / re-report / TTL change / TTL 0 / negative TTL / remove / re-add / time '
              'passing) on the real back ends against a reference model of the statement; Redis time is virtual (miniredis FastForward), etcd lifetimes are '
              'decided by lease introspection plus concurrent real-time expiry scenarios',
 'rule': 'one evaluation = one history over one node or workload. TestC25Redis: 5-16 steps, TTL 0..5 s, waits aimed at, just before and just after the '
         'deadlines; TestC25Etcd: batches of 6 concurrent histories, TTL 0..5/30/90/600 s, at most one 1.2-1.5 s real wait; TestC25EtcdExpiry: batches of 12 '
         'concurrent real-time histories (TTL 2-5 s, every read >= 0.7 s away from a deadline). Non-trivial = the history contains a positive-TTL report for a '
         'missing entity, or a same-value re-report followed by a read that is only visible because of the re-report (Redis/expiry: read past the replaced '
         "deadline; etcd introspection: >= 1.1 s between the two reports so that the lease's remaining whole seconds differ); distinct by hash of the case "
         '(for the etcd tests: of the batch)',
 'level_text': 'Random search over status histories with an independent model written from the statement: acceptance (positive TTL iff the entity exists), '
               'visibility after every step, value shown, expiry exactly at the TTL (Redis, virtual time) / granted lease TTL and remaining TTL (etcd), TTL 0 '
               '= no lease, negative TTL deletes. Finds counterexamples, never proves absence.',
 'level_note': "Trusted: rapid, miniredis' TTL bookkeeping, etcd's lease TimeToLive, the model. store.RemoveNode does not own status clean-up "
               '(calcium.RemoveNode deletes the status itself with TTL -1), so after a bare store.RemoveNode the status is only required not to outlive its '
               'TTL. Real-time upper bounds (status gone >= 2.6 s after its deadline) are retried for 25 s before they count.',
 'design_ref': 'DESIGN.md §4 C25',
 'assumptions': ['status reports use the app/entrypoint/node names of the stored workload (calcium.SetWorkloadsStatus fills them from the store)',
                 'node reports pass the node as stored (calcium.SetNodeStatus reads it first); the value of a node status only changes when the node is '
                 're-added under another pod',
                 'TTL 0 on a node is rejected by both stores by contract (ErrInvaildNodeStatusTTL); TTL 0 for a missing workload is outside the statement (the '
                 "model follows the API's answer)",
                 "etcd keys are introspected with the embedded cluster's own client; key layout /status:node/<node>, /status/<app>/<entry>/<node>/<id>"]}

CHECKS['C26'] = {'pkg': 'storettl',
 'tests': [{'name': 'TestC26Etcd', 'quick': 10, 'thorough': 1600, 'shards': 8, 'shrinktime': '8s'},
           {'name': 'TestC26Redis', 'quick': 14, 'thorough': 3200, 'shards': 8, 'shrinktime': '8s'},
           {'name': 'TestC26SelfmonEtcd', 'quick': 8, 'thorough': 400, 'shards': 4, 'shrinktime': '8s'},
           {'name': 'TestC26SelfmonRedis', 'quick': 8, 'thorough': 400, 'shards': 4, 'shrinktime': '8s'}],
 'level': 'exploration',
 'technique': 'property-based testing (rapid): generated scripts for 2-3 registrants contending for one ephemeral key (register / concurrent register / wait / '
              'lapse injected from outside / take-over by another registrant or by a never-refreshing harness-owned key / stop) on the real back ends; oracle '
              '= invariants over what each registrant believes and over the key as the store shows it',
 'rule': 'one evaluation = one scenario (batches of 6 run concurrently on disjoint keys): 3-7 steps, 2-3 registrants (separate store instances), via '
         "Store.StartEphemeral or Store.RegisterService, heartbeat 1-3 s (etcd) / 1-2 s (Redis). Lapse: etcd = the key's lease is revoked with the cluster's "
         'own client; Redis = miniredis FastForward(TTL + 1 ms) between two real heartbeat ticks. Non-trivial = a lapse was injected on a live holder and (a) '
         'another registrant or a harness-owned key took the key over while the lapsed one had not been notified yet, or (b) [Redis, behind the known '
         'findings] the lapsed one was notified and another registrant then registered; distinct by hash of the batch. TestC26Selfmon*: 2-3 real '
         'selfmon.RunNodeStatusWatcher instances with a recording cluster, steps lapse | handover | wait (Redis: no lapse while the finding is known); '
         'non-trivial = an injected lapse of the active watcher',
 'level_text': 'Random search over registration scripts. Checked: a registration succeeds only if no other registrant believes it holds the key (unless that '
               'one was lapsed by injection and is not yet notified); among concurrent registrations at most one wins; every injected lapse closes the expiry '
               "channel (bound 20 heartbeat ticks, retried once, only a persisting miss counts); after the old owner's heartbeat and after its stop the "
               "successor's key is still there, still the successor's (etcd: same lease id) and - Redis, virtual time - was not extended. Finds "
               'counterexamples, never proves absence.',
 'level_note': 'Trusted: rapid, etcd lease revocation, miniredis TTL bookkeeping and its command pre-hook (used only to see that a heartbeat happened). A '
               "registration that lapses without injection (keepalive starved under load) discards the scenario as inconclusive. selfmon's active-watcher lock "
               'is driven through selfmon.RunNodeStatusWatcher (a second active watcher only counts if the first stays active); calcium.RegisterService '
               'reaches the store through Store.RegisterService, which is driven, not calcium itself.',
 'design_ref': 'DESIGN.md §4 C26',
 'assumptions': ['registrants are separate store instances on one back end (etcd: the embedded cluster hands every instance the same client)',
                 'a registrant does not register again while it believes it holds the key',
                 'Redis: three known findings (no owner token in the key) are excluded by construction: after a lapse nobody takes the key over before the old '
                 'owner has been notified or stopped']}

