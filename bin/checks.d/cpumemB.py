# integrated from builder group cpumemB
CHECKS['C07'] = {'pkg': 'cobalt',
 'tests': [{'name': 'TestC07', 'quick': 1000, 'thorough': 400000}],
 'level': 'exploration',
 'technique': 'property-based testing (rapid): real cobalt.Manager + real cpumem plugin on embedded etcd; reported capacity cross-checked against '
              'Manager.Alloc (accept at capacity, reject at capacity+1, one more generated count), metamorphic relation for memory-only requests, saturating '
              'total',
 'rule': 'rapid-generated capacity queries on 1-4 generated node states (1-8 cores, fragment cores, optional NUMA, memory usage), bound and memory-only '
         'requests incl. zero memory (unlimited) and invalid requests, optionally a second capacity-capping plugin (mixed unlimited/finite); non-trivial = a '
         'node with capacity >= 1 on which both Alloc(capacity) was accepted and Alloc(capacity+1) refused; distinct by hash of the case',
 'level_text': 'Random search over node states and requests; the oracle is the property itself (capacity == largest count Manager.Alloc accepts, monotonicity '
               'sampled at one extra count) plus an exact metamorphic relation. Finds counterexamples, never proves absence.',
 'level_note': 'Trusted: rapid, the embedded etcd, Plugin.SetNodeResourceInfo for restoring the state between probes. Unlimited capacity is sampled at one '
               'large count (50-1500).',
 'design_ref': 'DESIGN.md §4 C07',
 'assumptions': ["node states are written through the plugin's own SetNodeResourceInfo, i.e. only states its Validate accepts; memory usage <= capacity; on "
                 "NUMA nodes free memory >= sum of free NUMA memories (the region where per-NUMA CPU plans overcommit the node's memory belongs to C04)",
                 'scheduler share base in {100, 10, 1000, 7}; max share -1 or >= the number of fragment cores for requests below one core (planner panic '
                 'region belongs to C06); bound CPU requests are at least one piece',
                 'workload resource records pass through JSON like the metadata store does']}

CHECKS['C08'] = {'pkg': 'cobalt',
 'tests': [{'name': 'TestC08', 'quick': 1200, 'thorough': 600000}],
 'level': 'exploration',
 'technique': 'property-based testing (rapid), stateful: generated scripts of alloc / rollback-alloc / realloc (grow, shrink, bind, unbind, keep) / '
              "rollback-realloc / release / release+rollback through the real manager and plugin; model = live workload records; oracle = harness's own sum "
              'vs. the raw etcd record after every action, snapshot equality after op+rollback',
 'rule': 'scripts of 2-12 actions on a fresh pair of nodes (one with NUMA topology); non-trivial = the history contains a successful realloc of a NUMA-bound '
         'workload or a performed rollback; distinct by hash of the script',
 'level_text': 'Random search over operation histories against an independent bookkeeping model (sum over the records the manager returned, read back from raw '
               'etcd). Finds counterexamples, never proves absence.',
 'level_note': "Trusted: rapid, embedded etcd, the harness's JSON reading of records. CPU total compared within 1e-6 (1e-9 for rollback snapshots), everything "
               'else exact.',
 'design_ref': 'DESIGN.md §4 C08',
 'assumptions': ["node states are written through the plugin's own SetNodeResourceInfo, i.e. only states its Validate accepts; memory usage <= capacity; on "
                 "NUMA nodes free memory >= sum of free NUMA memories (the region where per-NUMA CPU plans overcommit the node's memory belongs to C04)",
                 'scheduler share base in {100, 10, 1000, 7}; max share -1 or >= the number of fragment cores for requests below one core (planner panic '
                 'region belongs to C06); bound CPU requests are at least one piece',
                 'workload resource records pass through JSON like the metadata store does']}

CHECKS['C09'] = {'pkg': 'cobalt',
 'tests': [{'name': 'TestC09', 'quick': 20000, 'thorough': 5000000}],
 'level': 'exploration',
 'technique': 'property-based testing (rapid): real cobalt.Manager with 1-4 harness plugins giving generated answers; reference merge (intersection, min, '
              'weighted average, saturating total) written from the statement; each query repeated 24 times because the merge order came from Go map iteration',
 'rule': 'generated plugin answer sets over a 5-node universe (capacity 1..50 / huge / unlimited, usage and rate in [0,2], weights 1 / 100 / other > 0, '
         'per-node weights, plugins offering nothing incl. nil map); non-trivial = >= 2 plugins with different weights and a node offered by all; distinct by '
         'hash of the case',
 'level_text': 'Random search with a reference computation; order-independence is observed by repetition (24 identical queries per case), not by controlling '
               'the order.',
 'level_note': 'Trusted: rapid and the reference merge. Weights are > 0. Float comparison relative 1e-9.',
 'design_ref': 'DESIGN.md §4 C09',
 'assumptions': ['plugin weights are > 0 and capacities >= 1 (the built-in plugin never offers a zero-capacity node)', 'plugins answer without error']}

CHECKS['C15'] = {'pkg': 'cobalt',
 'tests': [{'name': 'TestC15', 'quick': 4000, 'thorough': 1500000}],
 'level': 'exploration',
 'technique': 'property-based testing (rapid): generated node capacity, workload records that fit it and an arbitrarily drifted usage record (written through '
              "SetNodeResourceInfo); Manager.GetNodeResourceInfo(fix=true) then (fix=false); oracle = harness's own sum of the workload records vs. the raw "
              'etcd record, and no diffs on the second check',
 'rule': '0-6 workloads (bound, NUMA-bound, unbound) on 1-8 cores with optional NUMA; drift per core (corrupted, missing, negative), memory, per NUMA node '
         '(corrupted, missing, unknown node), total CPU; a third of the cases drift in one dimension only; non-trivial = the drifted usage differs from the '
         "workloads' sum; distinct by hash of the case",
 'level_text': "Random search at the resource-manager level (the call calcium's NodeResource makes under the pod lock); the cluster-level path (locks, store "
               'listing) is not exercised here.',
 'level_note': 'Trusted: rapid, embedded etcd. CPU total within 1e-6, everything else exact, absent key = 0.',
 'design_ref': 'DESIGN.md §4 C15',
 'assumptions': ["node states are written through the plugin's own SetNodeResourceInfo, i.e. only states its Validate accepts; memory usage <= capacity; on "
                 "NUMA nodes free memory >= sum of free NUMA memories (the region where per-NUMA CPU plans overcommit the node's memory belongs to C04)",
                 "the recorded workloads fit the node's capacity (per core, per NUMA node, memory)"]}

CHECKS['C32'] = {'pkg': 'cobalt',
 'tests': [{'name': 'TestC32', 'quick': 5000, 'thorough': 2000000}, {'name': 'TestC32History', 'quick': 800, 'thorough': 300000},
           {'name': 'TestC32World', 'quick': 160, 'thorough': 24000, 'pkg': 'cluster', 'shrinktime': '30s'}],
 'level': 'exploration',
 'technique': 'property-based testing (rapid): Manager.Remap on generated consistent node states (TestC32) and at the end of generated '
              'alloc/realloc(bind,unbind)/release/rollback histories (TestC32History) against a reference pool computed by the harness; TestC32World follows '
              'the answer to the containers of the fake engine on the un-mocked cluster after a generated change of binding, with one injected engine refusal',
 'rule': 'TestC32: 0-6 workloads (bound/NUMA-bound/unbound) whose sum (+ optional unlisted usage) is the node usage; TestC32History: C08 scripts, pool from '
         'the harness model of live workloads; non-trivial = >= 1 bound and >= 1 unbound workload and a pool that is a strict subset of the cores; distinct by '
         'hash of the case; TestC32World: non-trivial = the pool changed and >= 2 unbound workloads',
 'level_text': 'Random search with a reference computation of the pool; checks the answer of the resource manager and (TestC32World) the parameters that '
               'reached the fake engine, where one refused update may leave at most that one workload stale.',
 'level_note': 'Trusted: rapid, embedded etcd, the C08 model for the history variant (cases with a bookkeeping violation are skipped there and reported by '
               'C08).',
 'design_ref': 'DESIGN.md §4 C32',
 'assumptions': ["node states are written through the plugin's own SetNodeResourceInfo, i.e. only states its Validate accepts; memory usage <= capacity; on "
                 "NUMA nodes free memory >= sum of free NUMA memories (the region where per-NUMA CPU plans overcommit the node's memory belongs to C04)",
                 'scheduler share base in {100, 10, 1000, 7}; max share -1 or >= the number of fragment cores for requests below one core (planner panic '
                 'region belongs to C06); bound CPU requests are at least one piece',
                 'workload resource records pass through JSON like the metadata store does']}

